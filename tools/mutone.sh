#!/bin/sh
# tools/mutone.sh <mutants.jsonl> <id> <prop> [prop...] : one syntactic mutant (tools/mutsweep.py) against full quick checks
F=$1; ID=$2; shift 2
W=/var/tmp/fadl-mutone-$$; rm -rf $W; mkdir -p $W; cp -r /repo/func_adl /repo/tests /repo/pytest.ini /repo/pyproject.toml /repo/README.md $W/ 2>/dev/null
/venv/bin/python - "$F" "$ID" "$W" <<'PY'
import json,sys
f,i,w=sys.argv[1:4]
for l in open(f):
    m=json.loads(l)
    if m['id']==i:
        p=w+'/'+m['file']; b=open(p,'rb').read()
        open(p,'wb').write(b[:m['a']]+m['new'].encode()+b[m['b']:])
        print(m['file'],m['line'],m['func'],m['kind'],repr(m['old'][:80]),'->',repr(m['new'][:80]))
PY
for P in "$@"; do
  (cd /verif && VERIF_REPO=$W VERIF_EVIDENCE_DIR=$W/ev VERIF_LINECOV=0 ./check $P quick 2>&1 | grep -E "^C[0-9]+ quick|  sig=" | cut -c1-240)
done
rm -rf $W
