#!/bin/sh
# tools/collect10.sh <Cxx> <a|b> <seed name> [props to run; default: the own property]
# round 10: verify one sub-agent change from /tmp/r10/<Cxx>-out/<a|b>/ and store it under /verif/seeded/<seed name>/
P=$1; V=$2; NAME=$3; shift 3
[ $# -eq 0 ] && set -- $P
O=${RDIR:-/tmp/r10}/$P-out/$V
T=/var/tmp/seedtmp-$$; mkdir -p $T; cp $O/patch.diff $O/demo.py $T/; [ -f $O/notes.md ] && cp $O/notes.md $T/
sed -i "s#${RDIR:-/tmp/r10}/$P-wt#.#g" $T/demo.py
tools/seed_verify.sh $T "$NAME" "$@"; rm -rf $T
