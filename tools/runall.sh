#!/bin/sh
# tools/runall.sh [tier] : every check once on /repo, then validate evidence + manifest against the schemas
TIER=${1:-quick}
cd /verif
for p in C01 C02 C03 C04 C05 C06 C07 C08 C09 C10 C11 C12 C13 C14 C15 C16 C17 C18 C19 C20; do
  s=$(date +%s); out=$(./check $p $TIER 2>&1); rc=$?; e=$(date +%s)
  echo "$p rc=$rc $((e-s))s :: $(echo "$out" | grep -E "^$p " | cut -c1-140)"
  echo "$out" | grep -E "^VIOLATION|^KNOWN" | cut -c1-160
done
python3-vt - <<'PY'
import json, jsonschema, glob
ms=json.load(open('/root/.vp/MANIFEST.schema.json')); es=json.load(open('/root/.vp/EVIDENCE.schema.json'))
jsonschema.validate(json.load(open('/verif/MANIFEST.json')), ms)
bad=0
for f in sorted(glob.glob('/verif/evidence/C*.json')):
    try: jsonschema.validate(json.load(open(f)), es)
    except Exception as e: bad+=1; print("EVIDENCE INVALID", f, str(e)[:200])
print("manifest ok; evidence files:", len(glob.glob('/verif/evidence/C*.json')), "invalid:", bad)
PY
