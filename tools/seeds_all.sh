#!/bin/sh
# tools/seeds_all.sh <out> : re-verify every seeded break against the checks listed in its meta.json
OUT=${1:-/var/tmp/seeds_all.txt}; : > $OUT
for d in /verif/seeded/S*; do
  n=$(basename $d)
  props=$(/venv/bin/python -c "import json;print(' '.join(json.load(open('$d/meta.json'))['caught_by_quick_checks']))")
  base=$(/venv/bin/python -c "import json;print(json.load(open('$d/meta.json'))['base_commit'])")
  T=/var/tmp/seedre-$$; rm -rf $T; mkdir -p $T; cp $d/patch.diff $d/demo.py $T/
  r=$(tools/seed_verify.sh $T $n-recheck $props 2>&1 | tail -1)
  rm -rf /verif/seeded/$n-recheck $T
  echo "$n [base $base] :: $r" >> $OUT
done
