#!/bin/sh
# tools/mutant.sh <patch.diff> <prop> [tier] [--notests]
# Applies the patch to a scratch worktree of /repo (HEAD + working tree state), runs the repository's
# own suite there (a realistic mutant must pass it), then runs ./check <prop> against the copy.
# Evidence of such runs goes to a scratch directory, never to /verif/evidence.
P=$(realpath "$1"); PROP=$2; TIER=${3:-quick}
W=/var/tmp/fadl-mut-$$
git -C /repo worktree add --detach -q "$W" HEAD || exit 3
trap 'git -C /repo worktree remove --force "$W"; rm -rf /var/tmp/fadl-ev-$$' EXIT
( cd "$W" && git apply "$P" ) || { echo "PATCH DOES NOT APPLY"; exit 3; }
if [ "$4" != "--notests" ]; then
  ( cd "$W" && /venv/bin/python -m pytest -q -x -p no:cacheprovider 2>&1 | tail -1 )
fi
cd /verif && VERIF_REPO="$W" VERIF_EVIDENCE_DIR=/var/tmp/fadl-ev-$$ ./check "$PROP" "$TIER" | grep -E "^(VIOLATION|KNOWN|C[0-9]+ |  sig|  inconcl)" | cut -c1-260
