#!/venv/bin/python
"""tools/mutsweep.py - systematic self-validation: small syntactic mutants of the library, filtered by the repository's own
test-suite (a mutant the suite kills is not a "realistic change that passes the tests"), then run against the quick checks
of the properties anchored in the mutated file.  Survivors point at places where the workloads / oracles do not discriminate
(or at equivalent mutants); they are listed for a human to read, nothing is decided automatically.

  tools/mutsweep.py gen  <out.jsonl> [file ...]           enumerate mutants (text-level edits at AST node positions)
  tools/mutsweep.py run  <in.jsonl> <out.jsonl> [-j N] [--sample K] [--seed S] [--shards M]
  tools/mutsweep.py show <out.jsonl>                      survivors grouped by file / function

Scratch copies live under /var/tmp/fadl-mut-* and are removed after each mutant.
"""
import ast
import json
import os
import random
import shutil
import subprocess
import sys
import time
from concurrent.futures import ThreadPoolExecutor

REPO = os.environ.get("MUT_REPO", "/repo")
VERIF = os.path.dirname(os.path.dirname(os.path.abspath(__file__)))
FILES = [
    "func_adl/object_stream.py", "func_adl/event_dataset.py", "func_adl/type_based_replacement.py", "func_adl/util_ast.py",
    "func_adl/util_types.py", "func_adl/ast/aggregate_shortcuts.py", "func_adl/ast/ast_hash.py", "func_adl/ast/call_stack.py",
    "func_adl/ast/func_adl_ast_utils.py", "func_adl/ast/function_simplifier.py", "func_adl/ast/meta_data.py",
    "func_adl/ast/syntatic_sugar.py",
]


def props_for(path):
    out = []
    for line in open(os.path.join(VERIF, "properties.jsonl")):
        d = json.loads(line)
        if path in d["anchors"]["files"]:
            out.append(d["id"])
    # neighbours that exercise the file heavily although the record does not anchor it there
    extra = {
        "func_adl/util_types.py": ["C07", "C09"],
        "func_adl/ast/call_stack.py": ["C18", "C14"],
        "func_adl/ast/func_adl_ast_utils.py": ["C19", "C14", "C18"],
        "func_adl/ast/syntatic_sugar.py": ["C05"],
        "func_adl/ast/meta_data.py": ["C09"],
        "func_adl/ast/ast_hash.py": ["C16"],
    }
    for p in extra.get(path, []):
        if p not in out:
            out.append(p)
    return out


CMP = {ast.Eq: "!=", ast.NotEq: "==", ast.Lt: "<=", ast.LtE: "<", ast.Gt: ">=", ast.GtE: ">", ast.Is: "is not", ast.IsNot: "is",
       ast.In: "not in", ast.NotIn: "in"}


class Enum(ast.NodeVisitor):
    def __init__(self, src, path):
        self.src, self.path = src, path
        self.lines = src.splitlines(keepends=True)
        self.off = [0]
        for ln in self.lines:
            self.off.append(self.off[-1] + len(ln.encode("utf-8")))
        self.bsrc = src.encode("utf-8")
        self.out = []
        self.func = []

    def seg(self, n):
        a = self.off[n.lineno - 1] + n.col_offset
        b = self.off[n.end_lineno - 1] + n.end_col_offset
        return a, b

    def text(self, n):
        a, b = self.seg(n)
        return self.bsrc[a:b].decode("utf-8")

    def add(self, n, new, kind):
        a, b = self.seg(n)
        old = self.bsrc[a:b].decode("utf-8")
        if old == new:
            return
        self.out.append({"file": self.path, "line": n.lineno, "func": ".".join(self.func) or "<module>", "kind": kind,
                         "a": a, "b": b, "old": old[:200], "new": new})

    def visit_FunctionDef(self, n):
        self.func.append(n.name)
        self.generic_visit(n)
        self.func.pop()

    visit_AsyncFunctionDef = visit_FunctionDef

    def visit_ClassDef(self, n):
        self.func.append(n.name)
        self.generic_visit(n)
        self.func.pop()

    def visit_Compare(self, n):
        if len(n.ops) == 1 and type(n.ops[0]) in CMP:
            self.add(n, f"{self.text(n.left)} {CMP[type(n.ops[0])]} {self.text(n.comparators[0])}", "cmp")
        self.generic_visit(n)

    def visit_BoolOp(self, n):
        op = " or " if isinstance(n.op, ast.And) else " and "
        self.add(n, "(" + op.join("(" + self.text(v) + ")" for v in n.values) + ")", "boolop")
        # drop one operand
        if len(n.values) >= 2:
            for i in range(len(n.values)):
                rest = [v for j, v in enumerate(n.values) if j != i]
                j = " and " if isinstance(n.op, ast.And) else " or "
                self.add(n, "(" + j.join("(" + self.text(v) + ")" for v in rest) + ")", f"boolop-drop{i}")
        self.generic_visit(n)

    def visit_UnaryOp(self, n):
        if isinstance(n.op, ast.Not):
            self.add(n, "(" + self.text(n.operand) + ")", "not-dropped")
        self.generic_visit(n)

    def _cond(self, n, test):
        if not isinstance(test, (ast.BoolOp,)) and not (isinstance(test, ast.UnaryOp) and isinstance(test.op, ast.Not)) \
                and not isinstance(test, ast.Compare):
            self.add(test, "(not (" + self.text(test) + "))", "cond-negated")
        self.add(test, "True", "cond-true")
        self.add(test, "False", "cond-false")

    def visit_If(self, n):
        self._cond(n, n.test)
        self.generic_visit(n)

    def visit_IfExp(self, n):
        self._cond(n, n.test)
        self.generic_visit(n)

    def visit_While(self, n):
        self.add(n.test, "False", "cond-false")
        self.generic_visit(n)

    def visit_comprehension(self, n):
        for c in n.ifs:
            self.add(c, "True", "compif-true")
        self.generic_visit(n)

    def visit_Constant(self, n):
        v = n.value
        if isinstance(v, bool):
            self.add(n, repr(not v), "const-bool")
        elif isinstance(v, int):
            self.add(n, repr(v + 1), "const+1")
            if v != 0:
                self.add(n, repr(v - 1), "const-1")

    def visit_Expr(self, n):
        if isinstance(n.value, ast.Call):
            self.add(n, "pass", "stmt-dropped")
        self.generic_visit(n)

    def visit_Raise(self, n):
        self.add(n, "pass", "raise-dropped")

    def visit_Continue(self, n):
        self.add(n, "break", "continue->break")

    def visit_Break(self, n):
        self.add(n, "continue", "break->continue")

    def visit_Assign(self, n):
        # drop an assignment to an attribute / subscript (state update), keep plain local bindings (would be NameError)
        if all(isinstance(t, (ast.Attribute, ast.Subscript)) for t in n.targets):
            self.add(n, "pass", "store-dropped")
        self.generic_visit(n)

    def visit_AugAssign(self, n):
        self.add(n, "pass", "augassign-dropped")
        self.generic_visit(n)

    def visit_Call(self, n):
        if len(n.args) == 2 and not n.keywords and not any(isinstance(a, ast.Starred) for a in n.args):
            f = self.text(n.func)
            if f not in ("isinstance", "getattr", "hasattr", "setattr", "issubclass", "zip", "range"):
                self.add(n, f"{f}({self.text(n.args[1])}, {self.text(n.args[0])})", "args-swapped")
        fn = n.func
        if isinstance(fn, ast.Name) and fn.id in ("any", "all") and len(n.args) == 1:
            self.add(fn, "all" if fn.id == "any" else "any", "any<->all")
        if isinstance(fn, ast.Name) and fn.id in ("min", "max"):
            self.add(fn, "max" if fn.id == "min" else "min", "min<->max")
        if isinstance(fn, ast.Name) and fn.id in ("deepcopy",) or (isinstance(fn, ast.Attribute) and fn.attr in ("deepcopy", "copy") and isinstance(fn.value, ast.Name) and fn.value.id == "copy"):
            if len(n.args) == 1:
                self.add(n, self.text(n.args[0]), "copy-dropped")
        self.generic_visit(n)

    def visit_Subscript(self, n):
        s = n.slice
        if isinstance(s, ast.Slice):
            if s.lower is not None and isinstance(s.lower, ast.Constant) and isinstance(s.lower.value, int):
                pass  # covered by const+1
        self.generic_visit(n)

    def visit_BinOp(self, n):
        sw = {ast.Add: "-", ast.Sub: "+", ast.BitOr: "&", ast.BitAnd: "|"}
        if type(n.op) in sw and not isinstance(n.left, ast.Constant) or (type(n.op) in sw and isinstance(n.left, ast.Constant) and not isinstance(n.left.value, str)):
            # skip string concatenations (messages)
            if not any(isinstance(x, (ast.JoinedStr,)) or (isinstance(x, ast.Constant) and isinstance(x.value, str)) for x in (n.left, n.right)):
                self.add(n, f"({self.text(n.left)}) {sw[type(n.op)]} ({self.text(n.right)})", "binop")
        self.generic_visit(n)

    def visit_Return(self, n):
        if n.value is not None and isinstance(n.value, ast.Constant) and isinstance(n.value.value, bool):
            return self.generic_visit(n)  # const-bool covers it
        self.generic_visit(n)

    def visit_For(self, n):
        # iterate in reverse / skip the first element: order and completeness of a walk
        it = self.text(n.iter)
        self.add(n.iter, f"list({it})[::-1]", "for-reversed")
        self.add(n.iter, f"list({it})[1:]", "for-skip-first")
        self.add(n.iter, f"list({it})[:1]", "for-only-first")
        self.generic_visit(n)


def in_docstring_or_message(m, tree_cache={}):
    return False


def gen(out, files):
    n = 0
    with open(out, "w") as f:
        for path in files:
            src = open(os.path.join(REPO, path), encoding="utf-8").read()
            tree = ast.parse(src)
            # skip constants that are only text of messages: handled by not mutating str constants at all
            e = Enum(src, path)
            e.visit(tree)
            for m in e.out:
                # mutants inside `raise X(...)` arguments / logging calls / asserts messages only change text: skip cheap ones
                m["id"] = f"M{n:05d}"
                n += 1
                f.write(json.dumps(m) + "\n")
    print("mutants:", n)


def apply_mutant(m, root):
    p = os.path.join(root, m["file"])
    b = open(p, "rb").read()
    nb = b[: m["a"]] + m["new"].encode("utf-8") + b[m["b"]:]
    try:
        ast.parse(nb.decode("utf-8"))
    except SyntaxError:
        return False
    open(p, "wb").write(nb)
    return True


ORDER = ["C09", "C12", "C08", "C07", "C05", "C03", "C04", "C16", "C17", "C19", "C20", "C15", "C06", "C11", "C18", "C14", "C13", "C02", "C10", "C01"]


def run_one(m, shards, tier_env, suite_only=False):
    root = f"/var/tmp/fadl-mut-{os.getpid()}-{m['id']}"
    res = dict(m)
    try:
        shutil.rmtree(root, ignore_errors=True)
        shutil.copytree(REPO, root, ignore=shutil.ignore_patterns(".git", "__pycache__", ".pytest_cache"))
        if not apply_mutant(m, root):
            res["status"] = "syntax"
            return res
        env = dict(os.environ, PYTHONDONTWRITEBYTECODE="1", PYTHONPATH=root)
        try:
            r = subprocess.run(["/venv/bin/python", "-B", "-m", "pytest", "-q", "-x", "-p", "no:cacheprovider", "--timeout=120", "tests"],
                               cwd=root, env=env, capture_output=True, text=True, timeout=400)
        except subprocess.TimeoutExpired:
            res["status"] = "suite-timeout"
            return res
        tail = (r.stdout.strip().splitlines() or [""])[-1]
        if r.returncode != 0:
            res["status"] = "killed-by-suite"
            res["suite"] = tail[:100]
            return res
        res["suite"] = tail[:100]
        if suite_only:
            res["status"] = "passes-suite"
            return res
        caught, ran = [], []
        evd = root + "-ev"
        for p in sorted(props_for(m["file"]), key=ORDER.index):
            env2 = dict(os.environ, VERIF_REPO=root, VERIF_EVIDENCE_DIR=evd, VERIF_SHARDS=str(shards), VERIF_LINECOV="0")
            env2.update(tier_env)
            t0 = time.time()
            try:
                c = subprocess.run([os.path.join(VERIF, "check"), p, "quick"], env=env2, capture_output=True, text=True, timeout=900)
            except subprocess.TimeoutExpired:
                ran.append([p, "timeout", 900])
                continue
            ran.append([p, c.returncode, round(time.time() - t0, 1)])
            if c.returncode == 1:
                sig = [ln.strip()[:160] for ln in c.stdout.splitlines() if ln.strip().startswith("sig=")][:2]
                caught.append([p, sig])
                break
        shutil.rmtree(evd, ignore_errors=True)
        res["ran"] = ran
        res["caught"] = caught
        res["status"] = "caught" if caught else "SURVIVED"
        return res
    finally:
        shutil.rmtree(root, ignore_errors=True)


def run(inp, out, jobs, sample, seed, shards, suite_only=False):
    ms = [json.loads(l) for l in open(inp)]
    ms = [m for m in ms if m.get("status") in (None, "passes-suite")]
    done = set()
    if os.path.exists(out):
        for l in open(out):
            done.add(json.loads(l)["id"])
    ms = [m for m in ms if m["id"] not in done]
    if sample:
        random.Random(seed).shuffle(ms)
        ms = ms[:sample]
    print(f"running {len(ms)} mutants with {jobs} jobs, {shards} shards per check", flush=True)
    t0 = time.time()
    cnt = {"n": 0}
    with open(out, "a") as f, ThreadPoolExecutor(jobs) as ex:
        for res in ex.map(lambda m: run_one(m, shards, {}, suite_only), ms):
            f.write(json.dumps(res) + "\n")
            f.flush()
            cnt["n"] += 1
            if res["status"] in ("SURVIVED",) or cnt["n"] % 50 == 0:
                print(f"[{cnt['n']}/{len(ms)} {time.time() - t0:.0f}s] {res['id']} {res['status']} {res['file']}:{res['line']} {res['func']} {res['kind']}: {res['old'][:60]!r} -> {res['new'][:60]!r}", flush=True)


def show(out):
    rs = [json.loads(l) for l in open(out)]
    import collections
    c = collections.Counter(r["status"] for r in rs)
    print(dict(c))
    for r in sorted(rs, key=lambda r: (r["file"], r["line"])):
        if r["status"] == "SURVIVED":
            print(f"{r['id']} {r['file']}:{r['line']} {r['func']} [{r['kind']}] {r['old'][:90]!r} -> {r['new'][:90]!r}  ran={[(a, b) for a, b, _ in r['ran']]}")


if __name__ == "__main__":
    a = sys.argv[1:]
    if a[0] == "gen":
        gen(a[1], a[2:] or FILES)
    elif a[0] == "run":
        def opt(name, d):
            return type(d)(a[a.index(name) + 1]) if name in a else d
        run(a[1], a[2], opt("-j", 4), opt("--sample", 0), opt("--seed", 0), opt("--shards", 4), "--suite-only" in a)
    elif a[0] == "show":
        show(a[1])
