#!/bin/sh
# tools/seeds_apply_scan.sh : which seeded patches still apply to /repo HEAD (exact, less context, or patch's fuzz)? Writes
# seeded/STALE.txt (one name per line) and the field applies_to_head into each meta.json. Runs no checks.
W=/var/tmp/applw-$$; rm -rf $W; git -C /repo worktree add --detach -q $W HEAD || exit 3
H=$(git -C /repo rev-parse --short HEAD); : > /verif/seeded/STALE.txt
for d in /verif/seeded/S*/; do d=${d%/}
  ok=true
  ( cd $W && { git apply --check $d/patch.diff 2>/dev/null || git apply --check -C1 --recount $d/patch.diff 2>/dev/null || patch -p1 -s -F2 --dry-run < $d/patch.diff >/dev/null 2>&1; } ) || ok=false
  [ $ok = false ] && basename $d >> /verif/seeded/STALE.txt
  /venv/bin/python - "$d/meta.json" $ok $H <<'PY'
import json, sys
p, ok, h = sys.argv[1:4]
m = json.load(open(p))
if ok == "true":
    m.pop("applies_to_head", None); m.pop("stale_since_checked_at", None)
else:
    m["applies_to_head"] = False
    m.setdefault("stale_since_checked_at", h)
json.dump(m, open(p, "w"), indent=1)
PY
done
git -C /repo worktree remove --force $W
echo "stale: $(wc -l < /verif/seeded/STALE.txt) of $(ls -d /verif/seeded/S*/ | wc -l)"
