#!/bin/sh
# tools/seed_verify.sh <agent OUT dir> <seed name> <prop> [more props...]
# Confirms an independently written break in a scratch worktree (suite passes, demo fails with / passes without),
# runs the named checks against it, and stores it under /verif/seeded/<name>/.
OUT=$1; NAME=$2; shift 2
W=/var/tmp/fadl-seed-$$
git -C /repo worktree add --detach -q "$W" HEAD || exit 3
trap 'git -C /repo worktree remove --force "$W"; rm -rf /var/tmp/fadl-sev-$$' EXIT
DEMO_ORIG=$(cd "$W" && PYTHONPATH="$W" /venv/bin/python "$OUT/demo.py" >/dev/null 2>&1; echo $?)
# (later repository fixes move the context of older patches: try with less context, then with patch's fuzz, before giving up)
( cd "$W" && { git apply "$OUT/patch.diff" 2>/dev/null || git apply -C1 --recount "$OUT/patch.diff" 2>/dev/null || patch -p1 -s -F3 --no-backup-if-mismatch < "$OUT/patch.diff" >/dev/null 2>&1; } ) || { echo "PATCH DOES NOT APPLY to current /repo HEAD"; exit 3; }
( cd "$W" && /venv/bin/python -c "import ast,sys,subprocess; [ast.parse(open(f).read()) for f in subprocess.run(['git','diff','--name-only'],capture_output=True,text=True).stdout.split() if f.endswith('.py')]" ) || { echo "PATCH DOES NOT APPLY to current /repo HEAD (syntax after fuzzy apply)"; exit 3; }
SUITE=$(cd "$W" && /venv/bin/python -m pytest -q -x -p no:cacheprovider 2>&1 | tail -1)
DEMO_MUT=$(cd "$W" && PYTHONPATH="$W" /venv/bin/python "$OUT/demo.py" >/dev/null 2>&1; echo $?)
echo "suite: $SUITE | demo exit on original: $DEMO_ORIG | demo exit with change: $DEMO_MUT"
# (a patch that only went in with reduced context or fuzz and no longer makes its own demonstration fail has landed somewhere it
# does nothing - in a docstring, once: it does not apply)
[ "$DEMO_MUT" = "0" ] && { echo "PATCH DOES NOT APPLY to current /repo HEAD (it goes in, but its demonstration passes: ineffective or masked)"; exit 3; }
mkdir -p /verif/seeded/$NAME
cp "$OUT/patch.diff" "$OUT/demo.py" /verif/seeded/$NAME/
[ -f "$OUT/notes.md" ] && cp "$OUT/notes.md" /verif/seeded/$NAME/
RES=""
for P in "$@"; do
  r=$(cd /verif && VERIF_REPO="$W" VERIF_EVIDENCE_DIR=/var/tmp/fadl-sev-$$ ./check "$P" quick 2>&1 | grep -E "^C[0-9]+ quick|  sig=" | cut -c1-220)
  echo "--- $P"; echo "$r"
  v=$(echo "$r" | grep -c "VIOLATED")
  RES="$RES $P:$([ "$v" -gt 0 ] && echo caught || echo MISSED)"
done
echo "RESULT $NAME:$RES | suite: $SUITE | demo orig=$DEMO_ORIG mut=$DEMO_MUT"
