#!/venv/bin/python
"""tools/cov_union.py <dir with Cxx.lines.json> : union of the library lines reached by the checks' workloads vs. the statement
lines python would report; prints the unreached statements grouped by function (workload gaps: code no check executes)."""
import ast, json, os, sys, glob
REPO = os.environ.get("VERIF_REPO", "/repo")
d = sys.argv[1]
hit = {}
per = {}
for f in glob.glob(os.path.join(d, "C*.lines.json")):
    p = os.path.basename(f)[:3]
    for k, v in json.load(open(f)).items():
        hit.setdefault(k, set()).update(v)
        for ln in v:
            per.setdefault((k, ln), set()).add(p)
tot = miss = 0
for rel in sorted(hit):
    src = open(os.path.join(REPO, rel)).read()
    tree = ast.parse(src)
    lines = src.splitlines()
    stmts = {}
    def walk(n, fn):
        for c in ast.iter_child_nodes(n):
            name = fn
            if isinstance(c, (ast.FunctionDef, ast.AsyncFunctionDef, ast.ClassDef)):
                name = (fn + "." if fn else "") + c.name
            if isinstance(c, ast.stmt) and not (isinstance(c, ast.Expr) and isinstance(c.value, ast.Constant) and isinstance(c.value.value, str)):
                if not isinstance(c, (ast.FunctionDef, ast.AsyncFunctionDef, ast.ClassDef, ast.Import, ast.ImportFrom, ast.Global, ast.Nonlocal, ast.Pass)):
                    stmts.setdefault(c.lineno, fn)
            walk(c, name)
    walk(tree, "")
    un = [(ln, fn) for ln, fn in sorted(stmts.items()) if ln not in hit[rel] and fn]
    tot += len(stmts); miss += len(un)
    print(f"== {rel}: {len(stmts) - len(un)}/{len(stmts)} statements reached")
    for ln, fn in un:
        print(f"   {rel}:{ln} [{fn}] {lines[ln - 1].strip()[:110]}")
print(f"TOTAL reached {tot - miss}/{tot}")
