#!/bin/sh
# tools/matrix.sh <out> <prop> <mutant names...> : run each mutant against one property's quick check
OUT=$1; PROP=$2; shift 2
for m in "$@"; do
  r=$(tools/mutant.sh mutants/$m.diff $PROP quick 2>&1 | grep -E "passed|failed|^C[0-9]+ quick" | tr '\n' ' ')
  echo "$PROP $m :: $r" >> $OUT
done
