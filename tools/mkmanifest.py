#!/venv/bin/python
"""Regenerate MANIFEST.json from the property modules present under vmon/props."""
import json, os, sys
V = os.path.dirname(os.path.dirname(os.path.abspath(__file__)))
sys.path.insert(0, V)
props = [json.loads(l) for l in open(os.path.join(V, "properties.jsonl"))]
TECH = json.load(open(os.path.join(V, "tools", "claims.json")))
import re
THREADED = {pid["id"] for pid in props if re.search(r'"threads": 3', open(os.path.join(V, "vmon", "props", pid["id"].lower() + ".py")).read())}
checks, na = [], []
for p in props:
    pid = p["id"]
    c = TECH.get(pid)
    if c is None or not os.path.exists(os.path.join(V, "vmon", "props", pid.lower() + ".py")):
        na.append({"property_id": pid, "reason": "check not built yet - design in DESIGN.md section 4; runtime monitoring applies"})
        continue
    checks.append({
        "property_id": pid,
        "quick_cmd": f"./check {pid} quick",
        "thorough_cmd": f"./check {pid} thorough",
        "evidence_file": f"/verif/evidence/{pid}.json",
        "replay_cmd_template": f"./check {pid} --replay {{path}}",
        "engine": "vmon",
        "level_claimed": {"category": "exploration", "text": c["text"], "design_ref": f"DESIGN.md section 4, {pid}"},
        "level_note": c["note"] + " Dimensions inherited from vmon/core.py: every fourth shard runs under python -O, error-path history steps (vmon/poison.py) are thrown in between cases"
                      + (", two shards run the workload in 3 concurrent threads" if pid in THREADED else "") + "; counted in the evidence.",
        "technique": c["technique"],
    })
m = {
    "version": 1,
    "setup_cmd": "./check --selftest",
    "hooks": {
        "guard": "FUNC_ADL_VERIF",
        "enable": "none needed: monitors are attached from the harness by wrapping attributes of the imported func_adl modules (vmon/hooks.py); /repo contains no hook code",
        "baseline_off_cmd": "cd /repo && /venv/bin/python -m pytest -ra -q -p no:cacheprovider --timeout=900 --continue-on-collection-errors",
        "source_commits": [],
        "add_only": True,
    },
    "engines": [{"name": "vmon", "path": "/verif/vmon", "serves_properties": [c["property_id"] for c in checks],
                 "kind_free_text": "runtime monitors (reference-model oracles, invariant hooks, history checkers) over generated hostile workloads, 16 shard subprocesses (interpreter-mode, thread-schedule and error-path dimensions applied per shard)"}],
    "checks": checks,
    "not_applicable": na,
    "notes": "Exit codes: 0 held on everything observed, 1 violation (VIOLATION line), 2 inconclusive (monitor floors not reached / shard died). Known findings: /verif/known_findings.txt.",
}
json.dump(m, open(os.path.join(V, "MANIFEST.json"), "w"), indent=1)
print("checks:", [c["property_id"] for c in checks], "na:", [n["property_id"] for n in na])
