#!/bin/sh
# tools/seed_verify2.sh <agent OUT dir> <n> <seed name> <prop> [props...]   (round 2: patch<n>.diff / demo<n>.py)
OUT=$1; N=$2; NAME=$3; shift 3
T=/var/tmp/seedtmp-$$; mkdir -p $T; cp "$OUT/patch$N.diff" $T/patch.diff; cp "$OUT/demo$N.py" $T/demo.py; [ -f "$OUT/notes.md" ] && cp "$OUT/notes.md" $T/notes.md
tools/seed_verify.sh $T "$NAME" "$@"; rm -rf $T
