#!/bin/sh
# tools/seeds_some.sh <out> <step> [<from>] : re-verify every <step>-th seeded break numbered below <from> (default 194) and every one
# from <from> on, against the checks listed in its meta.json (as tools/seeds_all.sh does for all of them)
OUT=${1:-/var/tmp/seeds_some.txt}; STEP=${2:-3}; FROM=${3:-194}; : > $OUT
i=0
for d in $(ls -d /verif/seeded/S* | sort -V); do
  n=$(basename $d); num=$(echo $n | sed 's/^S\([0-9]*\)-.*/\1/')
  i=$((i+1))
  if [ "$num" -lt "$FROM" ] && [ $((i % STEP)) -ne 0 ]; then continue; fi
  props=$(/venv/bin/python -c "import json;print(' '.join(json.load(open('$d/meta.json'))['caught_by_quick_checks']))")
  [ -z "$props" ] && continue
  T=/var/tmp/seedre-$$; rm -rf $T; mkdir -p $T; cp $d/patch.diff $d/demo.py $T/
  r=$(tools/seed_verify.sh $T $n-recheck $props 2>&1 | tail -1)
  rm -rf /verif/seeded/$n-recheck $T
  echo "$n :: $r" >> $OUT
done
