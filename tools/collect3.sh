#!/bin/sh
# tools/collect3.sh <Cxx> [extra props]: collect a round-3 agent's output, drop its worktree, verify both patches
P=$1; shift
O=/var/tmp/agent-out3/$P; mkdir -p $O
[ -d /tmp/agent3-$P/OUT ] && cp -r /tmp/agent3-$P/OUT/* $O/ && git -C /repo worktree remove --force /tmp/agent3-$P
sed -i '/startswith("\/tmp\/agent/d' $O/demo*.py 2>/dev/null
for n in 1 2; do
  [ -f $O/patch$n.diff ] || continue
  tools/seed_verify2.sh $O $n R3-$P-$n $P "$@" 2>&1 | tail -1
done
