"""Reference LINQ interpreter: the trusted meaning of a query AST ("ordinary list semantics").

A plain recursive interpreter over ``ast`` node *objects* (never via unparse) with lexical
scoping.  See DESIGN.md 3.1.
"""
import ast
import dataclasses
import functools
import operator as op


class EvalError(Exception):
    """A partial operation of the model failed (First on empty, bad index, ...)."""


class EvalUnbound(EvalError):
    """A name with no binder was read."""


class Seq(list):
    """Eager sequence: lets *python itself* run user lambdas such as
    ``lambda e: e.jets.Where(lambda j: j.pt > 30).Count()``."""

    def Select(self, f):
        return Seq(f(x) for x in self)

    def Where(self, f):
        return Seq(x for x in self if f(x))

    def SelectMany(self, f):
        return Seq(y for x in self for y in f(x))

    def First(self):
        if not self:
            raise EvalError("First on empty")
        return self[0]

    def Count(self):
        return len(self)


class LazySeq:
    """Deferred sequence (LINQ semantics): elements are computed on demand and cached, so
    ``First(Select(seq, f))`` applies ``f`` to the first element only."""

    def __init__(self, gen):
        self._gen = iter(gen)
        self._cache = []
        self._done = False

    def __iter__(self):
        i = 0
        while True:
            if i < len(self._cache):
                yield self._cache[i]
                i += 1
                continue
            if self._done:
                return
            try:
                v = next(self._gen)
            except StopIteration:
                self._done = True
                return
            self._cache.append(v)

    def force(self):
        for _ in self:
            pass
        return self._cache

    def __len__(self):
        return len(self.force())

    def __getitem__(self, i):
        if isinstance(i, int) and i >= 0:
            for k, v in enumerate(self):
                if k == i:
                    return v
            raise IndexError(i)
        return self.force()[i]

    # so that python-run lambdas (C01 direct side never sees LazySeq; C06 compiled lambdas might)
    def Select(self, f):
        return LazySeq(f(x) for x in self)

    def Where(self, f):
        return LazySeq(x for x in self if f(x))

    def SelectMany(self, f):
        return LazySeq(y for x in self for y in f(x))

    def First(self):
        for v in self:
            return v
        raise EvalError("First on empty")

    def Count(self):
        return len(self.force())


SEQ_TYPES = (list, tuple, LazySeq)


class Rec(dict):
    """dict whose fields can also be read as attributes (the meaning func_adl gives dict literals)."""

    def __getattr__(self, k):
        try:
            return self[k]
        except KeyError:
            raise AttributeError(k)


class Closure:
    """python's own binding rules: positional, keyword, defaults (evaluated where the lambda is defined), *args, keyword-only"""
    __slots__ = ("params", "body", "env", "ev", "defaults", "vararg", "kwonly")

    def __init__(self, params, body, env, ev, defaults=None, vararg=None, kwonly=()):
        self.params, self.body, self.env, self.ev = params, body, env, ev
        self.defaults, self.vararg, self.kwonly = defaults or {}, vararg, tuple(kwonly)

    def __call__(self, *a, **k):
        b = dict(zip(self.params, a))
        if len(a) > len(self.params):
            if self.vararg is None:
                raise EvalError("too many args")
        if self.vararg is not None:
            b[self.vararg] = tuple(a[len(self.params):])
        for kk, v in k.items():
            if kk in b or (kk not in self.params and kk not in self.kwonly):
                raise EvalError("bad kw")
            b[kk] = v
        for p in list(self.params) + list(self.kwonly):
            if p not in b:
                if p not in self.defaults:
                    raise EvalError("missing args")
                b[p] = self.defaults[p]
        return self.ev.ev(self.body, (b, self.env))


RESULTS = {"ResultTTree", "ResultParquet", "ResultPandasDF", "ResultAwkwardArray"}
OPS = {
    "Select", "Where", "SelectMany", "First", "Count", "Sum", "Max", "Min", "Aggregate",
    "len", "abs", "MetaData", "EventDataset",
} | RESULTS
OPERATOR_FUNCTION_KEYWORD = {"Select": "f", "SelectMany": "func", "Where": "filter"}
SEQ_METHODS = {"Select", "Where", "SelectMany", "First", "Count", "Sum", "Max", "Min", "Aggregate"}

BIN = {
    ast.Add: op.add, ast.Sub: op.sub, ast.Mult: op.mul, ast.Div: op.truediv, ast.Mod: op.mod,
    ast.FloorDiv: op.floordiv, ast.Pow: op.pow,
}
CMP = {
    ast.Lt: op.lt, ast.LtE: op.le, ast.Gt: op.gt, ast.GtE: op.ge, ast.Eq: op.eq, ast.NotEq: op.ne,
    ast.Is: op.is_, ast.IsNot: op.is_not,
    ast.In: lambda a, b: a in b, ast.NotIn: lambda a, b: a not in b,
}
UN = {ast.USub: op.neg, ast.UAdd: op.pos, ast.Not: op.not_, ast.Invert: op.inv}


class Ev:
    def __init__(self, dataset, glob=None):
        self.dataset, self.glob = dataset, glob or {}

    def lookup(self, name, env):
        while env is not None:
            b, env = env
            if name in b:
                return b[name]
        if name in self.glob:
            return self.glob[name]
        raise EvalUnbound(name)

    def _bound(self, name, env):
        while env is not None:
            b, env = env
            if name in b:
                return True
        return name in self.glob

    def _elts(self, elts, env):
        """the values of a list of element / argument expressions, starred ones spread out (python's rule)"""
        out = []
        for e in elts:
            if isinstance(e, ast.Starred):
                v = self.ev(e.value, env)
                if not isinstance(v, (list, tuple, LazySeq)):
                    raise EvalError("* of a non-sequence")
                out.extend(list(v))
            else:
                out.append(self.ev(e, env))
        return out

    def _operator_keywords(self, name, n, env, nseq=1):
        """the function of Select / SelectMany / Where may be given under the name ObjectStream declares for it"""
        if not n.keywords:
            return []
        if len(n.keywords) == 1 and len(n.args) == nseq and n.keywords[0].arg == OPERATOR_FUNCTION_KEYWORD.get(name):
            return [self.ev(n.keywords[0].value, env)]
        raise EvalError("keywords on operator")

    def seqop(self, name, seq, args):
        if name in ("Select", "Where", "SelectMany"):
            if not isinstance(seq, (list, LazySeq)):
                raise EvalError(f"{name} on non-sequence {type(seq).__name__}")
            if len(args) != 1:
                raise EvalError(f"{name} arity")
            f = args[0]
            if name == "Select":
                return LazySeq(f(x) for x in seq)
            if name == "Where":
                return LazySeq(x for x in seq if f(x))
            return LazySeq(y for x in seq for y in _iter_seq(f(x)))
        if not isinstance(seq, SEQ_TYPES):
            raise EvalError(f"{name} on non-sequence {type(seq).__name__}")
        if name == "Aggregate":
            if len(args) != 2:
                raise EvalError("Aggregate arity")
            return functools.reduce(args[1], seq, args[0])
        if args:
            raise EvalError(f"{name} arity")
        if name == "First":
            for v in seq:
                return v
            raise EvalError("First on empty")
        if name in ("Count", "len"):
            return len(seq)
        seq = list(seq)
        if name == "Sum":
            return sum(seq)
        if name == "Max":
            if not seq:
                raise EvalError("Max of empty")
            return max(seq)
        if name == "Min":
            if not seq:
                raise EvalError("Min of empty")
            return min(seq)
        raise EvalError(name)

    def ev(self, n, env):
        t = type(n)
        if t is ast.Constant:
            return n.value
        if t is ast.Name:
            return self.lookup(n.id, env)
        if t is ast.Lambda:
            pos = [a.arg for a in n.args.posonlyargs + n.args.args]
            dflt = {p: self.ev(d, env) for p, d in zip(pos[len(pos) - len(n.args.defaults):], n.args.defaults)} if n.args.defaults else {}
            for a, d in zip(n.args.kwonlyargs, n.args.kw_defaults):
                if d is not None:
                    dflt[a.arg] = self.ev(d, env)
            return Closure(pos, n.body, env, self, dflt, n.args.vararg.arg if n.args.vararg else None, [a.arg for a in n.args.kwonlyargs])
        if t is ast.Attribute:
            v = self.ev(n.value, env)
            if isinstance(v, dict):
                if n.attr in v:
                    return v[n.attr]
                raise EvalError("no key " + n.attr)
            return getattr(v, n.attr)
        if t is ast.Call:
            f = n.func
            if isinstance(f, ast.Name) and f.id in OPS and not self._bound(f.id, env):
                if f.id == "EventDataset":
                    return Seq(self.dataset)
                args = [self.ev(a, env) for a in n.args] + self._operator_keywords(f.id, n, env)
                if f.id == "MetaData":
                    return args[0]
                if f.id == "abs":
                    return abs(args[0])
                if f.id in RESULTS:
                    return ("RESULT", f.id, _tolist(args[0])) + tuple(args[1:])
                if not args:
                    raise EvalError("operator without sequence")
                return self.seqop(f.id, args[0], args[1:])
            if isinstance(f, ast.Attribute) and f.attr in SEQ_METHODS:
                recv = self.ev(f.value, env)
                if isinstance(recv, (list, LazySeq)):
                    return self.seqop(f.attr, recv, [self.ev(a, env) for a in n.args] + self._operator_keywords(f.attr, n, env, 0))
                fn = getattr(recv, f.attr)
            else:
                fn = self.ev(f, env)
            args = self._elts(n.args, env)
            kw = {}
            for k in n.keywords:
                if k.arg is None:
                    m = self.ev(k.value, env)
                    if not isinstance(m, dict) or any(x in kw for x in m):
                        raise EvalError("** mapping")
                    kw.update(m)
                elif k.arg in kw:
                    raise EvalError("keyword given twice")
                else:
                    kw[k.arg] = self.ev(k.value, env)
            return fn(*args, **kw)
        if t is ast.BinOp:
            return BIN[type(n.op)](self.ev(n.left, env), self.ev(n.right, env))
        if t is ast.UnaryOp:
            return UN[type(n.op)](self.ev(n.operand, env))
        if t is ast.BoolOp:
            isand = isinstance(n.op, ast.And)
            v = None
            for x in n.values:
                v = self.ev(x, env)
                if isand and not v:
                    return v
                if not isand and v:
                    return v
            return v
        if t is ast.Compare:
            left = self.ev(n.left, env)
            for o, c in zip(n.ops, n.comparators):
                r = self.ev(c, env)
                if not CMP[type(o)](left, r):
                    return False
                left = r
            return True
        if t is ast.IfExp:
            return self.ev(n.body if self.ev(n.test, env) else n.orelse, env)
        if t is ast.Tuple:
            return tuple(self._elts(n.elts, env))
        if t is ast.List:
            return self._elts(n.elts, env)
        if t is ast.Dict:
            out = Rec()
            for k, v in zip(n.keys, n.values):
                if k is None:  # {**mapping}
                    m = self.ev(v, env)
                    if not isinstance(m, dict):
                        raise EvalError("** of a non-mapping")
                    out.update(m)
                else:
                    out[self.ev(k, env)] = self.ev(v, env)
            return out
        if t is ast.Subscript:
            v = self.ev(n.value, env)
            s = n.slice
            if isinstance(s, ast.Slice):
                idx = slice(*(None if x is None else self.ev(x, env) for x in (s.lower, s.upper, s.step)))
            elif isinstance(s, ast.AST):
                idx = self.ev(s, env)
            else:
                raise EvalError("malformed subscript")
            try:
                return v[idx]
            except (IndexError, KeyError) as e:
                raise EvalError(f"subscript: {e}")
        raise EvalError(f"unsupported node {t.__name__}")


def _tolist(v):
    return list(v) if isinstance(v, SEQ_TYPES) else v


def _iter_seq(v):
    if not isinstance(v, SEQ_TYPES):
        raise EvalError(f"SelectMany over non-sequence {type(v).__name__}")
    return v


def norm(v):
    """Normalise a value for comparison between the query side and the direct-python side."""
    if isinstance(v, Closure) or callable(v) and not isinstance(v, type) and not hasattr(v, "_uid"):
        return "<callable>"
    if isinstance(v, bool) or v is None or isinstance(v, (int, str, bytes)):
        return v
    if isinstance(v, float):
        return ("F", repr(v))
    if hasattr(v, "_uid"):
        return ("O", v._uid)
    # records (dict literals, dataclass / NamedTuple instances) are unordered: fields sorted by name
    if isinstance(v, tuple) and hasattr(v, "_fields"):  # NamedTuple instance
        return ("D",) + tuple(sorted(((k, norm(x)) for k, x in zip(v._fields, v)), key=lambda kv: repr(kv[0])))
    if isinstance(v, tuple):
        return ("T",) + tuple(norm(x) for x in v)
    if isinstance(v, dict):
        return ("D",) + tuple(sorted(((k, norm(x)) for k, x in v.items()), key=lambda kv: repr(kv[0])))
    if dataclasses.is_dataclass(v) and not isinstance(v, type):
        return ("D",) + tuple(sorted(((f.name, norm(getattr(v, f.name))) for f in dataclasses.fields(v)), key=lambda kv: repr(kv[0])))
    if isinstance(v, list):
        return ("L",) + tuple(norm(x) for x in v)
    if hasattr(v, "__iter__"):
        return ("L",) + tuple(norm(x) for x in v)
    return ("?", repr(v))


def norm_eq_num(a, b):
    return a == b


def evaluate(a, dataset, glob=None):
    """-> (class, payload); classes: ok | err | unbound | pyerr | recursion"""
    try:
        return ("ok", norm(Ev(dataset, glob).ev(a, None)))
    except EvalUnbound as e:
        return ("unbound", str(e))
    except EvalError as e:
        return ("err", str(e))
    except RecursionError:
        return ("recursion", "")
    except Exception as e:  # python error from a data operation
        return ("pyerr", f"{type(e).__name__}: {e}"[:120])


def evaluate_raw(a, dataset, glob=None):
    return Ev(dataset, glob).ev(a, None)


# ------------------------------------------------------------------------------------------
# self test


def selftest():
    from .astx import parse_expr

    class O:
        def __init__(self, uid, **kw):
            self._uid = uid
            self.__dict__.update(kw)

        def m(self, a=1, b=2):
            return self.x * a + b

    j1, j2, j3 = O(1, x=2, pt=10), O(2, x=3, pt=40), O(3, x=5, pt=50)
    e1 = O(10, x=7, jets=Seq([j1, j2]))
    e2 = O(11, x=11, jets=Seq([j3]))
    e3 = O(12, x=13, jets=Seq([]))
    ds = [e1, e2, e3]
    T = lambda *a: ("T",) + a
    L = lambda *a: ("L",) + a
    cases = [
        ("Select(EventDataset(), lambda e: e.x)", L(7, 11, 13)),
        ("EventDataset().Select(lambda e: e.x + 1)", L(8, 12, 14)),
        ("Where(EventDataset(), lambda e: e.x > 7).Select(lambda e: e.x)", L(11, 13)),
        ("SelectMany(EventDataset(), lambda e: e.jets).Select(lambda j: j.pt)", L(10, 40, 50)),
        ("Select(EventDataset(), lambda e: Count(e.jets))", L(2, 1, 0)),
        ("Select(EventDataset(), lambda e: len(e.jets.Where(lambda j: j.pt > 20)))", L(1, 1, 0)),
        ("Select(EventDataset(), lambda e: (e.x, 1)[0])", L(7, 11, 13)),
        ("Select(EventDataset(), lambda e: {'a': e.x, 'b': 2}.a)", L(7, 11, 13)),
        ("Select(EventDataset(), lambda e: {'a': e.x, 'b': 2}['b'])", L(2, 2, 2)),
        ("Select(EventDataset(), lambda x: Select(x.jets, lambda x: x.pt))", L(L(10, 40), L(50), L())),
        ("Select(EventDataset(), lambda e: (lambda x, y: x - y)(e.x, y=1))", L(6, 10, 12)),
        ("Select(EventDataset(), lambda e: (lambda x: (lambda x: x + 1)(x * 2))(e.x))", L(15, 23, 27)),
        ("Select(EventDataset(), lambda e: e.m(2, b=0))", L(14, 22, 26)),
        ("Select(EventDataset(), lambda e: e.m())", L(9, 13, 15)),
        ("Select(EventDataset(), lambda e: e.x if e.x > 7 else -e.x)", L(-7, 11, 13)),
        ("Select(EventDataset(), lambda e: e.x > 7 and e.x < 13 or e.x == 7)", L(True, True, False)),
        ("Select(EventDataset(), lambda e: 1 < e.x < 12)", L(True, True, False)),
        ("Aggregate(Select(EventDataset(), lambda e: e.x), 0, lambda acc, v: acc + v)", 31),
        ("Sum(Select(EventDataset(), lambda e: e.x))", 31),
        ("Max(Select(EventDataset(), lambda e: e.x))", 13),
        ("MetaData(EventDataset(), {'a': 1}).Select(lambda e: e.x)", L(7, 11, 13)),
        ("ResultTTree(Select(EventDataset(), lambda e: e.x), ['c'], 't', 'f')", T("RESULT", "ResultTTree", L(7, 11, 13), L("c"), "t", "f")),
        ("Select(EventDataset(), lambda e: (e.x, [e.x]))", L(T(7, L(7)), T(11, L(11)), T(13, L(13)))),
        ("Select(Where(EventDataset(), lambda e: Count(e.jets) > 0), lambda e: First(e.jets).pt)", L(10, 50)),
        ("Select(EventDataset(), lambda e: 2.5 * e.x)", L(("F", "17.5"), ("F", "27.5"), ("F", "32.5"))),
        # deferred execution: First demands only the first element of a Select / Where / SelectMany
        ("First(Select(EventDataset(), lambda e: First(e.jets).pt))", 10),
        ("First(Where(Select(EventDataset(), lambda e: First(e.jets).pt), lambda p: p > 0))", 10),
        ("First(SelectMany(EventDataset(), lambda e: Select(e.jets, lambda j: First(e.jets).pt)))", 10),
        ("Count(Where(EventDataset(), lambda e: Count(e.jets) > 0))", 2),
    ]
    bad = []
    for src, exp in cases:
        got = evaluate(parse_expr(src), ds)
        if got != ("ok", exp):
            bad.append((src, got, exp))
    errs = [
        ("Select(EventDataset(), lambda e: First(e.jets).pt)", "err"),
        ("Select(EventDataset(), lambda e: y)", "unbound"),
        ("Select(EventDataset(), lambda e: e.nope)", "pyerr"),
        ("Select(EventDataset(), lambda e: (e.x, 1)[2])", "err"),
        ("Select(EventDataset(), lambda e: e.jets > 1)", "pyerr"),
        ("Count(Select(EventDataset(), lambda e: First(e.jets).pt))", "err"),
    ]
    for src, cls in errs:
        got = evaluate(parse_expr(src), ds)
        if got[0] != cls:
            bad.append((src, got, cls))
    return len(cases) + len(errs), bad
