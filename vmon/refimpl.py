"""Small independent reference implementations written from the property statements
(C15 extract / remove-empty, C17 method->function form, C19 aggregate lowering)."""
import ast

from .astx import C, N, call, clone, lam, parse_expr

OPERATOR_NAMES = [
    "Select", "SelectMany", "Where", "First", "ResultTTree", "ResultAwkwardArray", "ResultPandasDF",
    "Min", "Max", "Sum", "Aggregate", "Count",
]


def _map(n, f):
    """Functional bottom-up map: children first, then f(node)."""
    if isinstance(n, ast.AST):
        m = type(n)()
        for fld in n._fields:
            if hasattr(n, fld):
                setattr(m, fld, _map(getattr(n, fld), f))
        return f(m)
    if isinstance(n, list):
        return [_map(x, f) for x in n]
    return n


# ---- C17 --------------------------------------------------------------------------------
def to_function_form(a, names=OPERATOR_NAMES):
    def f(n):
        if isinstance(n, ast.Call) and isinstance(n.func, ast.Attribute) and n.func.attr in names:
            return ast.Call(func=N(n.func.attr), args=[n.func.value] + list(n.args), keywords=list(n.keywords))
        return n

    return _map(a, f)


def has_keywords_on_method_operator(a, names=OPERATOR_NAMES):
    return any(
        isinstance(n, ast.Call) and isinstance(n.func, ast.Attribute) and n.func.attr in names and n.keywords
        for n in ast.walk(a)
    )


# ---- C19 --------------------------------------------------------------------------------
FOLDS = {
    "len": "lambda acc, v: acc + 1",
    "Count": "lambda acc, v: acc + 1",
    "Sum": "lambda acc, v: acc + v",
    "Max": "lambda acc, v: acc if acc > v else v",
    "Min": "lambda acc, v: acc if acc < v else v",
}


def lower_aggregates(a):
    def f(n):
        if (
            isinstance(n, ast.Call)
            and isinstance(n.func, ast.Name)
            and n.func.id in FOLDS
            and len(n.args) == 1
            and not n.keywords
            and not isinstance(n.args[0], ast.Starred)
        ):
            return call("Aggregate", n.args[0], C(0), parse_expr(FOLDS[n.func.id]))
        return n

    return _map(a, f)


# ---- C15 --------------------------------------------------------------------------------
def is_metadata(n):
    return isinstance(n, ast.Call) and isinstance(n.func, ast.Name) and n.func.id == "MetaData" and len(n.args) == 2 and not n.keywords


def extract(a):
    """-> (ast without any MetaData wrapper, list of (dict, path) in *pre-order*: a wrapper before
    everything inside its source). The order inside is only used as a partial order by the monitor."""
    found = []

    def go(n):
        if isinstance(n, ast.AST):
            if is_metadata(n):
                found.append(ast.literal_eval(n.args[1]))
                return go(n.args[0])
            m = type(n)()
            for fld in n._fields:
                if hasattr(n, fld):
                    setattr(m, fld, go(getattr(n, fld)))
            return m
        if isinstance(n, list):
            return [go(x) for x in n]
        return n

    return go(a), found


def remove_empty(a):
    def go(n):
        if isinstance(n, ast.AST):
            if is_metadata(n):
                try:
                    d = ast.literal_eval(n.args[1])
                except Exception:
                    d = None
                if isinstance(d, dict) and len(d) == 0:
                    return go(n.args[0])
            m = type(n)()
            for fld in n._fields:
                if hasattr(n, fld):
                    setattr(m, fld, go(getattr(n, fld)))
            return m
        if isinstance(n, list):
            return [go(x) for x in n]
        return n

    return go(a)
