"""Hostile python value generator (C13, also used for C04/C16 values)."""
import math

ALPHABET = list("'\"\\\n\r\t#()[]{},:+*%$ ") + list("abxyzLQ09") + ["é", "ß", "λ", "中", "\U0001F600", "\x00", "\x7f"]
PAYLOADS = [
    "a' + 'b", "'); import os; ('", "\\'", "'''", '"""', "trailing\\", "{x}", "lambda x: (", "')", "'", '"', "\\", "\\n", "\n",
    "a\\'b", "#", "' #", "x'y\"z", "\\x41", "\\u0041", "%s", "$(id)", "a'*2+'", "__import__('os')", "", " ", "\t", "None", "True",
    "1", "[1, 2]", "f'{1}'", "\\N{BULLET}", "a\rb", "'\\''", "\\\\", "\\\\'",
]


def gen_str(rnd):
    if rnd.random() < 0.4:
        return rnd.choice(PAYLOADS)
    return "".join(rnd.choice(ALPHABET) for _ in range(rnd.randint(0, 12)))


def gen_scalar(rnd):
    k = rnd.random()
    if k < 0.45:
        return gen_str(rnd)
    if k < 0.6:
        return rnd.choice([0, 1, -1, 7, -42, 10**40, -(10**40), 2**63, rnd.randint(-1000, 1000)])
    if k < 0.75:
        return rnd.choice([0.0, -0.0, 1.5, -2.25, 1e300, -1e300, 5e-324, 1e-7, 3.141592653589793, 0.1, rnd.uniform(-1e6, 1e6)])
    if k < 0.85:
        return rnd.choice([True, False])
    if k < 0.92:
        return None
    return rnd.choice([b"", b"x", b"a'b", b"\\", b"\n\x00\xff", b'q"r'])


def gen_value(rnd, depth=3):
    if depth > 0 and rnd.random() < 0.35:
        k = rnd.random()
        n = rnd.randint(0, 3)
        if rnd.random() < 0.12 and n >= 2:
            # the SAME list / dict object at several places of one value (a column list used twice): an ordinary value, no cycle
            shared = gen_value(rnd, depth - 1)
            if not isinstance(shared, (list, dict)):
                shared = [shared]
            if k < 0.4:
                return [shared] * n
            if k < 0.7:
                return (shared, {"again": shared})
            return {"first": shared, "second": shared, "third": [shared]}
        if k < 0.4:
            return [gen_value(rnd, depth - 1) for _ in range(n)]
        if k < 0.7:
            return tuple(gen_value(rnd, depth - 1) for _ in range(n))
        return {gen_str(rnd): gen_value(rnd, depth - 1) for _ in range(n)}
    return gen_scalar(rnd)


def deep_equal(a, b):
    """Equal value AND equal type at every level (bool != int, tuple != list, -0.0 != 0.0)."""
    if type(a) is not type(b):
        return False
    if isinstance(a, float):
        return repr(a) == repr(b) or (math.isnan(a) and math.isnan(b))
    if isinstance(a, (list, tuple)):
        return len(a) == len(b) and all(deep_equal(x, y) for x, y in zip(a, b))
    if isinstance(a, dict):
        return list(a.keys()) == list(b.keys()) and all(deep_equal(a[k], b[k]) for k in a) and all(type(x) is type(y) for x, y in zip(a.keys(), b.keys()))
    return a == b


def is_scalar_transportable(v):
    return type(v) in (str, int, float, bool, bytes, complex)
