"""Syntactic variety for the purely structural passes (C15, C17, C19, C20): rare but legitimate python expression syntax spliced into a
generated query.  The transformations do not keep the query's meaning - they are only used where the oracle is an independent
*structural* reference (reference rewriter, reference extractor, structural hash key), which is defined for every expression.

``embellish(rnd, q, snippets=...)`` returns ``(new tree, set of feature names)``; the input is not modified.  ``snippets`` is a
list of callables ``rnd -> ast.expr`` that build the property's own kind of interesting sub-expression (a method-form operator
call, a shortcut call, a MetaData wrapper ...), so that those land in the odd places: lambda defaults, keyword values, `**`
mappings, starred arguments, f-strings, comprehension parts, slices, walrus values, conditional tests, decorators of nothing.
"""
import ast

from . import astx

OP_LIKE = ["Count", "Select", "Where", "First", "Sum", "Max", "Min", "len", "SelectMany", "Aggregate", "MetaData"]


def _is_md(n):
    return isinstance(n, ast.Call) and isinstance(n.func, ast.Name) and n.func.id == "MetaData"


def _exprs(tree):
    """every expression node in Load position with its (parent, field, index); the dictionary argument of a MetaData wrapper is left
    alone (the properties speak of well-formed wrappers with a literal dictionary)"""
    out = []

    def go(n):
        for f in n._fields:
            if _is_md(n) and f in ("args", "keywords"):
                if n.args:
                    a0 = n.args[0]
                    if isinstance(a0, ast.expr):
                        out.append((n, "args", 0, a0))
                    go(a0)
                continue
            v = getattr(n, f, None)
            if isinstance(v, list):
                for i, x in enumerate(v):
                    if isinstance(x, ast.AST):
                        if isinstance(x, ast.expr) and not isinstance(getattr(x, "ctx", None), (ast.Store, ast.Del)) and not isinstance(n, (ast.JoinedStr, ast.FormattedValue)):
                            out.append((n, f, i, x))
                        go(x)
            elif isinstance(v, ast.AST):
                if isinstance(v, ast.expr) and not isinstance(getattr(v, "ctx", None), (ast.Store, ast.Del)) and not (isinstance(n, ast.keyword)) and not isinstance(n, (ast.JoinedStr, ast.FormattedValue)) \
                        and not (isinstance(n, ast.Call) and f == "func") and not (isinstance(n, ast.Attribute) and f == "value" and False):
                    out.append((n, f, None, v))
                go(v)

    go(tree)
    return out


def _put(parent, field, idx, new):
    if idx is None:
        setattr(parent, field, new)
    else:
        getattr(parent, field)[idx] = new


def _names_used(n):
    s = set()
    for x in ast.walk(n):
        if isinstance(x, ast.Name):
            s.add(x.id)
        elif isinstance(x, ast.Attribute):
            s.add(x.attr)
        elif isinstance(x, ast.arg):
            s.add(x.arg)
    return s


def embellish(rnd, q, snippets=(), n_max=4, kinds=None):
    t = astx.clone(q)
    root = ast.Expression(body=t)
    feats = set()

    def snip():
        if snippets and rnd.random() < 0.8:
            return rnd.choice(snippets)(rnd)
        return rnd.choice([astx.C(1), astx.N("cfg"), astx.attr(astx.N("cfg"), "cut"), astx.parse_expr("cfg.jets.pick(1)")])

    def t_call_keywords(slot):
        p, f, i, x = slot
        calls = [c for c in ast.walk(x) if isinstance(c, ast.Call) and not _is_md(c)]
        if not calls:
            return False
        c = rnd.choice(calls)
        k = rnd.random()
        if k < 0.3:
            c.keywords = list(c.keywords) + [ast.keyword(arg=None, value=astx.N("opts")), ast.keyword(arg=None, value=astx.N("more"))]
            feats.add("call:two-mapping-keywords")
        elif k < 0.5:
            c.keywords = list(c.keywords) + [ast.keyword(arg=None, value=ast.Dict(keys=[astx.C("k")], values=[snip()]))]
            feats.add("call:mapping-display-keyword")
        elif k < 0.75:
            c.keywords = list(c.keywords) + [ast.keyword(arg=rnd.choice(["note", "strict", "k", "default"]), value=snip())]
            if rnd.random() < 0.4:
                c.keywords.append(ast.keyword(arg="z", value=snip()))
            feats.add("call:keyword-holding-a-snippet")
        else:
            c.args = list(c.args) + [ast.Starred(value=snip() if rnd.random() < 0.6 else astx.N("rest"), ctx=ast.Load())]
            feats.add("call:starred-argument")
        return True

    def t_lambda_params(slot):
        p, f, i, x = slot
        lams = [c for c in ast.walk(x) if isinstance(c, ast.Lambda)]
        if not lams:
            return False
        la = rnd.choice(lams)
        used = _names_used(la)
        k = rnd.random()
        fresh = [nm for nm in OP_LIKE + ["q", "w_1", "arg_0"] if nm not in used]
        if not fresh:
            return False
        # a parameter named like an operator is only written where the lambda's body does not mention that name at all, so that
        # the parameter hides nothing: its default is evaluated in the enclosing scope (python), where the name means the operator
        name = rnd.choice(fresh)
        if k < 0.45:
            la.args.args = list(la.args.args) + [ast.arg(arg=name)]
            la.args.defaults = list(la.args.defaults) + [snip()]
            feats.add("lambda:defaulted-parameter" + (":operator-named" if name in OP_LIKE else ""))
        elif k < 0.75:
            la.args.kwonlyargs = list(la.args.kwonlyargs) + [ast.arg(arg=name)]
            la.args.kw_defaults = list(la.args.kw_defaults) + [snip() if rnd.random() < 0.8 else None]
            feats.add("lambda:keyword-only-parameter" + (":operator-named" if name in OP_LIKE else ""))
        elif k < 0.88 and la.args.vararg is None:
            la.args.vararg = ast.arg(arg=name)
            feats.add("lambda:star-parameter")
        elif la.args.kwarg is None:
            la.args.kwarg = ast.arg(arg=name)
            feats.add("lambda:double-star-parameter")
        else:
            return False
        return True

    def t_wrap(slot):
        p, f, i, x = slot
        if isinstance(x, ast.Starred) or isinstance(p, ast.Starred):
            return False
        if isinstance(p, ast.Subscript) and f == "slice":
            return False
        if isinstance(p, (ast.Dict,)) and f == "keys":
            return False
        k = rnd.randrange(14)
        if k == 0:
            new, nm = ast.IfExp(test=snip(), body=x, orelse=snip()), "conditional"
        elif k == 1:
            new, nm = ast.NamedExpr(target=ast.Name(id="w", ctx=ast.Store()), value=x), "walrus"
        elif k == 2:
            new, nm = ast.JoinedStr(values=[ast.Constant(value="v="), ast.FormattedValue(value=x, conversion=-1, format_spec=None)]), "f-string"
        elif k == 3:
            gen = ast.comprehension(target=ast.Name(id="c_", ctx=ast.Store()), iter=snip(), ifs=[snip()] if rnd.random() < 0.5 else [], is_async=0)
            new, nm = (ast.ListComp if rnd.random() < 0.5 else ast.GeneratorExp)(elt=x, generators=[gen]), "comprehension-element"
        elif k == 4:
            gen = ast.comprehension(target=ast.Name(id="c_", ctx=ast.Store()), iter=x, ifs=[], is_async=0)
            new, nm = ast.DictComp(key=astx.N("c_"), value=snip(), generators=[gen]), "dict-comprehension-iterable"
        elif k == 5:
            new, nm = ast.Tuple(elts=[ast.Starred(value=x, ctx=ast.Load()), snip()], ctx=ast.Load()), "starred-in-tuple"
        elif k == 6:
            new, nm = ast.Dict(keys=[None, astx.C("k")], values=[x, snip()]), "dict-unpacking"
        elif k == 7:
            new, nm = ast.Set(elts=[x, snip()]), "set-display"
        elif k == 8:
            new, nm = ast.Subscript(value=x, slice=ast.Slice(lower=snip(), upper=None, step=snip() if rnd.random() < 0.3 else None), ctx=ast.Load()), "slice-bounds"
        elif k == 9:
            new, nm = ast.Subscript(value=astx.N("tbl"), slice=ast.Tuple(elts=[x, ast.Slice(lower=None, upper=snip(), step=None)], ctx=ast.Load()), ctx=ast.Load()), "tuple-subscript"
        elif k == 10:
            new, nm = ast.Call(func=ast.Lambda(args=ast.arguments(posonlyargs=[], args=[], vararg=None, kwonlyargs=[], kw_defaults=[], kwarg=None, defaults=[]), body=x), args=[], keywords=[]), "zero-parameter-lambda-called"
        elif k == 11:
            new, nm = ast.Compare(left=snip(), ops=[ast.Lt(), ast.LtE()], comparators=[x, snip()]), "chained-comparison"
        elif k == 12:
            new, nm = ast.Call(func=ast.Attribute(value=x, attr=rnd.choice(["pick", "value", "Filter"]), ctx=ast.Load()), args=[], keywords=[ast.keyword(arg="by", value=snip())]), "receiver-of-a-plain-method"
        else:
            new, nm = ast.BoolOp(op=ast.Or(), values=[ast.UnaryOp(op=ast.Not(), operand=x), snip()]), "boolean-operand"
        _put(p, f, i, new)
        feats.add("wrapped-in:" + nm)
        return True

    table = [t_call_keywords, t_lambda_params, t_wrap, t_wrap]
    for _ in range(rnd.randint(1, n_max)):
        slots = _exprs(root)
        if not slots:
            break
        tr = rnd.choice(table)
        tr(rnd.choice(slots))
    out = root.body
    # an operator-named parameter must hide nothing (a snippet may have landed in the body after the parameter was added)
    for la in [x for x in ast.walk(out) if isinstance(x, ast.Lambda)]:
        for a in la.args.args + la.args.kwonlyargs + [x for x in (la.args.vararg, la.args.kwarg) if x is not None]:
            if a.arg in OP_LIKE and a.arg in _names_used(la.body):
                a.arg = "q_" + a.arg.lower()
    # must be writable python (otherwise the case says nothing about real queries)
    try:
        compile(ast.fix_missing_locations(ast.Expression(body=astx.clone(out))), "<embellished>", "eval")
    except (SyntaxError, ValueError, TypeError):
        return astx.clone(q), set()
    return out, feats
