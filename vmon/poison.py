"""Error-path histories: library calls that are refused deep inside a nested visit, thrown between the cases of a check.

A refusal must leave nothing behind: the case that follows is judged by the same state-independent oracle as always, so any
stack / registry / flag that an exception left half-updated shows up as an ordinary violation of that property.
``throw(rnd)`` performs one such call (chosen by rnd) and returns its name; the exception is swallowed and counted."""
import ast

_state = {}


class _Boom:
    """a captured settings object whose attribute lookup raises something else than AttributeError"""

    @property
    def cut(self):
        raise RuntimeError("settings not loaded")


BOOM = _Boom()


def _setup():
    from typing import Iterable

    from func_adl import EventDataset, func_adl_callable, func_adl_callback
    from func_adl.ast.aggregate_shortcuts import aggregate_node_transformer
    from func_adl.ast.func_adl_ast_utils import change_extension_functions_to_calls
    from func_adl.ast.function_simplifier import simplify_chained_calls
    from func_adl.ast.syntatic_sugar import resolve_syntatic_sugar
    from func_adl.util_ast import parse_as_ast

    class PJet:
        def pt(self, scale: float = 1.0) -> float: ...
        def req(self, a: int, b: int) -> float: ...

    def angry(s, a):
        raise RuntimeError("callback refuses")

    @func_adl_callback(angry)
    class PAngry:
        def x(self) -> float: ...

    class PEvt:
        def jets(self, minpt: float = 0.0) -> Iterable[PJet]: ...
        def angry(self) -> Iterable[PAngry]: ...
        def met(self) -> float: ...

    class UDS(EventDataset):
        async def execute_result_async(self, a, title=None):
            raise RuntimeError("executor refuses")

    @func_adl_callable()
    def poison_fn(x: float, required: int) -> float: ...

    uds, tds = UDS(), UDS(PEvt)
    p = lambda t: ast.parse(t, mode="eval").body  # noqa
    two = [lambda e: e.a, lambda e: e.b]

    def ambiguous():
        return uds.Select(lambda e: e.a), uds.Select(lambda e: e.b)  # two identical-shaped lambdas on one line: told apart or refused

    import dataclasses

    PDC = dataclasses.make_dataclass("PDC", [("a", float), ("b", float)])
    dc_tree = p("lambda e: e.jets.Select(lambda j: e.trks.Select(lambda t: DC(j.pt, nosuch=t.pt)))")
    dc_tree.body.args[0].body.args[0].body.func = ast.Constant(value=PDC)
    # real lambdas (this file is their source): the capture pass is interrupted while the names bound by the enclosing lambdas /
    # comprehensions are on its stack; the parameter names are ones the checks capture as VARIABLES in later cases
    def cap1():
        return uds.Select(lambda G: G.jets.Select(lambda v: v.trks.Select(lambda c0: c0.pt > BOOM.cut)))

    def cap2():
        return uds.Where(lambda G0: [c1 for c1 in G0.jets if [G1 for G1 in c1.trks if G1.pt > BOOM.cut]])

    def cap3():
        return uds.SelectMany(lambda j: j.jets.Select(lambda t: [k for k in t.trks if k.pt > BOOM.cut]))

    def cap4():
        return uds.Select(lambda G2: G2.jets.Select(lambda x: x.trks.Select(lambda y: (lambda s: s > BOOM.cut)(y.pt))))

    calls = {
        "captured-attribute-raises-three-lambdas-deep": cap1,
        "captured-attribute-raises-inside-comprehensions": cap2,
        "captured-attribute-raises-under-lambda-and-comprehension": cap3,
        "captured-attribute-raises-inside-called-lambda": cap4,
        "tuple-target-in-nested-lambda": lambda: uds.Select("lambda e: e.jets.Select(lambda j: j.trks.Select(lambda t: [a for a, b in t.x]))"),
        "missing-required-parameter-three-lambdas-deep": lambda: tds.Select("lambda e: e.jets().Select(lambda j: e.jets().Select(lambda k: k.req(b=j.pt())))"),
        "non-boolean-where-on-typed-stream": lambda: tds.Where("lambda e: e.jets().Select(lambda j: j.pt())"),
        "missing-required-parameter-of-registered-function": lambda: tds.Select("lambda e: e.jets().Select(lambda j: poison_fn(j.pt()))"),
        "user-callback-raises-in-nested-lambda": lambda: tds.Select("lambda e: e.jets().Select(lambda j: e.angry().Select(lambda a: a.x() + j.pt()))"),
        "tuple-index-out-of-range-under-fusion": lambda: simplify_chained_calls().visit(p("Select(Select(Select(ds, lambda e: (e.a, e.b)), lambda t: (t[0], t[1])), lambda u: Select(u[0].js, lambda j: u[7] + j))")),
        "dataclass-unknown-keyword-in-nested-lambda": lambda: resolve_syntatic_sugar(dc_tree),
        "executor-raises": lambda: uds.Select("lambda e: e.x").MetaData({"k": 1}).value(),
        "parse-of-non-lambda-text": lambda: uds.Select("lambda e: e.jets.Select(lambda j: j.pt"),
        "statement-instead-of-lambda": lambda: parse_as_ast("x = 1"),
        "where-given-two-parameter-lambda": lambda: tds.Where("lambda e, f: e.met() > 1"),
    }
    _state["calls"] = sorted(calls.items())
    _state["stats"] = {}


def throw(rnd, ctx=None):
    if "calls" not in _state:
        _setup()
    name, fn = rnd.choice(_state["calls"])
    try:
        fn()
        outcome = "did-not-raise"
    except Exception as e:
        outcome = "raised:" + type(e).__name__
    if ctx is not None:
        ctx.count(f"error-path-history:{name}:{outcome}")
        ctx.count("error-path-history-steps")
    return name, outcome


def selftest():
    import random

    _setup()
    out = {}
    for name, fn in _state["calls"]:
        try:
            fn()
            out[name] = "did-not-raise"
        except Exception as e:
            out[name] = f"{type(e).__name__}: {str(e)[:80]}"
    return out


if __name__ == "__main__":
    for k, v in selftest().items():
        print(k, "->", v)
