"""Random API-history driver over forests of streams with pluggable monitors (C11, C12, C16).

The driver owns the datasets (their executors log every call), keeps a registry of every stream
it ever created, and after *every* API event calls the monitors (online checking)."""
import ast
import asyncio
import copy
import itertools
import threading
from typing import Iterable

from . import astx

_uid = itertools.count(1)


class Sentinel:
    """Unique result object of one executor call."""

    def __init__(self, n):
        self.n = n

    def __repr__(self):
        return f"<result#{self.n}>"


class Deferred:
    """an executor result that is itself awaitable (a job handle): value() hands it to the caller as it is"""

    def __init__(self, n):
        self.n = n

    def __await__(self):
        yield from ()
        return ("payload-of-deferred", self.n)

    def __repr__(self):
        return f"<Deferred#{self.n}>"


def vandalise(a):
    """what a back end may do with the AST it was handed (its own copy): edit it in place, also with the library's own exported
    transformers. Nothing of this may show in any stream."""
    from func_adl.ast.aggregate_shortcuts import aggregate_node_transformer
    from func_adl.ast.func_adl_ast_utils import change_extension_functions_to_calls
    from func_adl.ast.meta_data import extract_metadata

    for n in list(astx.walk_nodes(a)):
        if isinstance(n, ast.Call):
            if not hasattr(n, "keywords"):
                n.keywords = []  # (a hand-made Call node may lack the optional field)
            n.keywords.append(ast.keyword(arg="added_by_backend", value=ast.Constant(value=1)))
            n.args.append(ast.Constant(value="backend"))
        elif isinstance(n, ast.Lambda):
            n.args.defaults.append(ast.Constant(value=0))
            n.args.kwonlyargs.append(ast.arg(arg="backend_kw"))
            n.args.kw_defaults.append(None)
        elif isinstance(n, ast.Name):
            n.id = n.id + "_b"
        elif isinstance(n, ast.Attribute):
            n.attr = n.attr + "_b"
        elif isinstance(n, ast.Constant) and isinstance(n.value, (int, float)) and not isinstance(n.value, bool):
            n.value = n.value + 1000
        elif isinstance(n, (ast.Tuple, ast.List)):
            n.elts.append(ast.Constant(value="backend"))
        elif isinstance(n, ast.Dict):
            n.keys.append(ast.Constant(value="backend"))
            n.values.append(ast.Constant(value=1))
    for f in (extract_metadata, change_extension_functions_to_calls, lambda x: aggregate_node_transformer().visit(x)):
        try:
            f(a)
        except Exception:
            pass


class ExecFailure(Exception):
    """Unique exception object of one executor call."""


# ... of the classes a caller in between might be tempted to catch and translate
class ExecAttributeFailure(ExecFailure, AttributeError):
    pass


class ExecIndexFailure(ExecFailure, IndexError):
    pass


class ExecValueFailure(ExecFailure, ValueError):
    pass


class ExecKeyFailure(ExecFailure, KeyError):
    pass


class ExecTypeFailure(ExecFailure, TypeError):
    pass


class ExecStopFailure(ExecFailure, StopIteration if False else RuntimeError):
    pass


EXEC_FAILURES = [ExecFailure, ExecAttributeFailure, ExecIndexFailure, ExecValueFailure, ExecKeyFailure, ExecTypeFailure, ExecStopFailure]


def build_model():
    """Typed model with defaults (in nested lambdas: the in-place fix-up path) and callbacks adding MetaData."""
    from func_adl import ObjectStream, func_adl_callback

    def cb_event(s, a):
        return s.MetaData({"cb": "event-class"}), a

    def cb_tracks(s, a):
        return s.MetaData({"cb": "tracks-method"}), a

    class Trk:
        def pt(self) -> float: ...
        def charge(self, scale: int = 1) -> int: ...

    class Jet:
        def pt(self, scale: float = 1.0, shift: int = 0) -> float: ...
        def eta(self) -> float: ...
        def trks(self, cut: float = 0.5) -> Iterable[Trk]: ...

    @func_adl_callback(cb_event)
    class Event:
        def Jets(self, bank: str = "d", calib: bool = True) -> Iterable[Jet]: ...
        def met(self) -> float: ...

        @func_adl_callback(cb_tracks)
        def Tracks(self) -> Iterable[Trk]: ...

    class PlainEvent:
        # (the same methods with OTHER declared defaults: one lambda object given to streams of both models is completed differently)
        def Jets(self, bank: str = "plain", calib: bool = False, extra: int = 7) -> Iterable[Jet]: ...
        def met(self) -> float: ...
        def Tracks(self) -> Iterable[Trk]: ...

    return {"Event": Event, "PlainEvent": PlainEvent, "Jet": Jet, "Trk": Trk}


# lambda pools: kind -> op -> [(text, result kind)]
POOL = {
    "Event": {
        "Select": [
            ("lambda e: e.Jets()", "Jets"), ("lambda e: e.met()", "num"), ("lambda e: e.Jets().Select(lambda j: j.pt(shift=2))", "nums"),
            ("lambda e: e.Jets(calib=False).Where(lambda j: j.pt(2.0) > 30).Select(lambda j: j.trks().Select(lambda t: t.charge()))", "other"),
            ("lambda e: (e.met(), e.Jets().Count())", "other"), ("lambda e: {'m': e.met(), 'j': e.Jets()}", "other"), ("lambda e: e", "Event"),
            ("lambda e: {'n': 1, 'm': e.met()}", "rec"), ("lambda e: {'n': e.Jets().Count(), 'm': e.met()}", "rec"),
            ("lambda e: e.Tracks().Select(lambda t: t.pt())", "nums"), ("lambda e: e.Jets().First().pt()", "num"),
            # records with the same ordinary fields and a key that is no identifier, holding another type from literal to literal
            ("lambda e: {'n': 1, 'm': e.met(), 'n-jets': e.Jets().Count()}", "rec"), ("lambda e: {'n': 1, 'm': e.met(), 'n-jets': 'many'}", "rec"),
            ("lambda e: {'n': 1, 'm': e.met(), 'n-jets': e.met(), 0: e.Jets()}", "rec"), ("lambda e: {'n': 1, 'm': e.met(), 0: 'zero', 'class': e.met() > 1}", "rec"),
        ],
        "Where": [("lambda e: e.met() > 10", None), ("lambda e: e.Jets().Count() > 1 and e.met() < 100", None), ("lambda e: e.Jets().Where(lambda j: j.pt() > 1).Count() == 2", None)],
        "SelectMany": [("lambda e: e.Jets()", "Jet"), ("lambda e: e.Tracks()", "Trk"), ("lambda e: e.Jets('x').Select(lambda j: j.pt())", "num")],
    },
    # a stream of records (its item type is a class made for the dictionary): children that hand the record itself on in one branch
    # of a conditional whose other branch is a record with the same fields of other number types
    "rec": {
        "Select": [("lambda d: d if d.n > 0 else {'n': 1.5, 'm': 2}", "other"), ("lambda d: {'m': 1, 'n': 2.5} if d.m > 1 else d", "other"), ("lambda d: d.n", "num"), ("lambda d: d.m * 2", "num"),
                   ("lambda d: d", "rec"), ("lambda d: {'n': d.n, 'm': d.m, 'n-jets': d.m > 1}", "rec"), ("lambda d: {'n': d.n, 'm': d.m, 'n-jets': (d.n, d.m)}", "rec")],
        "Where": [("lambda d: d.n > 0", None), ("lambda d: d.m > 1.5 and d.n < 3", None)],
        "SelectMany": [],
    },
    "Jet": {
        "Select": [("lambda j: j.pt()", "num"), ("lambda j: j.pt(shift=1) * 2", "num"), ("lambda j: j.trks()", "Trks"), ("lambda j: (j.eta(), j.pt(1.5))", "other"),
                   ("lambda j: j.trks(cut=1.0).Select(lambda t: t.pt() + j.pt())", "nums")],
        "Where": [("lambda j: j.pt() > 30", None), ("lambda j: j.eta() < 2.5 or j.pt(2.0, 1) > 10", None)],
        "SelectMany": [("lambda j: j.trks()", "Trk")],
    },
    "Trk": {
        "Select": [("lambda t: t.pt()", "num"), ("lambda t: t.charge()", "num"), ("lambda t: t.charge(scale=3)", "num")],
        "Where": [("lambda t: t.pt() > 1", None), ("lambda t: t.charge() == 1", None)],
        "SelectMany": [],
    },
    "Jets": {
        "Select": [("lambda js: js.Select(lambda j: j.pt())", "nums"), ("lambda js: js.Count()", "num"), ("lambda js: js.Where(lambda j: j.eta() > 0)", "Jets")],
        "Where": [("lambda js: js.Count() > 2", None)],
        "SelectMany": [("lambda js: js", "Jet"), ("lambda js: js.Select(lambda j: j.pt())", "num")],
    },
    "Trks": {
        "Select": [("lambda ts: ts.Select(lambda t: t.pt())", "nums"), ("lambda ts: ts.Count()", "num")],
        "Where": [("lambda ts: ts.Count() > 0", None)],
        "SelectMany": [("lambda ts: ts", "Trk")],
    },
    "num": {
        "Select": [("lambda x: x * 2", "num"), ("lambda x: x + 1.5", "num"), ("lambda x: (x, x)", "other"), ("lambda x: x", "num")],
        "Where": [("lambda x: x > 1", None), ("lambda x: x > 1 and x < 100", None)],
        "SelectMany": [],
    },
    "nums": {
        "Select": [("lambda xs: xs.Count()", "num"), ("lambda xs: xs.Select(lambda x: x * 2)", "nums")],
        "Where": [("lambda xs: xs.Count() > 0", None)],
        "SelectMany": [("lambda xs: xs", "num")],
    },
    "other": {
        "Select": [("lambda o: o", "other"), ("lambda o: (o, 1)", "other")],
        "Where": [("lambda o: o == o", None), ("lambda o: 1 > 0", None)],
        "SelectMany": [],
    },
    # untyped datasets: any attribute goes
    "uEvent": {
        "Select": [("lambda e: MetaData(e.jets, {}).Select(lambda j: j.pt)", "other"), ("lambda e: (MetaData(e.jets, {}), e.met)", "other"),
                   ("lambda e: [MetaData(e.a, {}), MetaData(e.b, {'k': 1})]", "other"), ("lambda e: {'a': MetaData(e.jets, {})}", "other"),
                   ("lambda e: MetaData(e.a, {}) > 1 and MetaData(e.b, {}) < 2", "other"), ("lambda e: f(e.a, k=MetaData(e.b, {}))", "other"),
                   ("lambda e: e.jets", "other"), ("lambda e: e.met", "other"), ("lambda e: (e.a, e.b)", "other"), ("lambda e: e.jets.Select(lambda j: j.pt)", "other"),
                   ("lambda e: {'a': e.x}", "other"), ("lambda e: e.f(1, k=2)", "other")],
        "Where": [("lambda e: e.met > 10", None), ("lambda e: e.a > 1 or e.b < 2", None), ("lambda e: MetaData(e.met, {}) > 10", None)],
        "SelectMany": [("lambda e: MetaData(e.jets, {})", "uEvent"), ("lambda e: e.jets", "uEvent"), ("lambda e: e.jets.Select(lambda j: j.trks)", "other")],
    },
}
TERMINALS = [
    ("AsPandasDF", lambda r: (["a", "b"],)), ("as_pandas", lambda r: ("c",)), ("AsAwkwardArray", lambda r: (["x"],)), ("as_awkward", lambda r: ([],)),
    ("AsROOTTTree", lambda r: ("f.root", "tree", ["c1"])), ("as_ROOT_tree", lambda r: ("g.root", "t2", "c")), ("AsParquetFiles", lambda r: ("f.parquet", ["c"])),
    ("as_parquet", lambda r: ("h.parquet",)),
]


class Stream:
    """Registry entry for one stream the history created."""

    def __init__(self, s, kind, ds, parent, how):
        self.s, self.kind, self.ds, self.parent, self.how = s, kind, ds, parent, how
        self.id = next(_uid)
        self.terminal = False


class History:
    """One history over a forest.  monitors: objects with optional methods
    on_dataset(ds), on_stream(entry), on_event(kind, info), on_execute(call_record)."""

    def __init__(self, rnd, monitors, n_datasets=2, typed_share=0.6):
        from func_adl import EventDataset

        self.rnd = rnd
        self.monitors = monitors
        self.log = []  # executor + client events, appended under lock
        self.lock = threading.Lock()
        self.streams = []
        self.datasets = []
        self.step = 0
        self.model = build_model()
        self.building = 0  # >0 while inside a derive call (U-exec)
        self.shared_asts = {}
        self.callers_dict_modified = []
        self.mode_counts = {}
        hist = self

        class HDS(EventDataset):
            def __init__(self, name, item_type=None, named_root=False):
                if item_type is None:
                    super().__init__()
                else:
                    super().__init__(item_type)
                self.name = name
                if named_root:
                    # the way real dataset classes say which data they stand for: an argument added to their root node
                    import ast as _ast

                    self.query_ast.args.append(_ast.Constant(value="root://site//" + name))
                self.fail_next = False
                self.gate = None

            async def execute_result_async(self, a, title=None):
                n = next(_uid)
                # (when this executor is going to edit the AST it was handed, the monitors get a private copy taken on entry)
                rec = {"ev": "enter", "n": n, "ds": self.name, "self": self, "ast_id": id(a), "dump": astx.dump_fields(a), "title": title, "ast": astx.snapshot(a) if n % 4 == 2 else a,
                       "building": hist.building, "thread": threading.get_ident()}
                with hist.lock:
                    hist.log.append(rec)
                if self.gate is not None:
                    await self.gate(n)
                dump_after = astx.dump_fields(a)
                if self.fail_next:
                    self.fail_next = False
                    exc = EXEC_FAILURES[n % len(EXEC_FAILURES)](f"failure#{n}")
                    with hist.lock:
                        hist.log.append({"ev": "leave", "n": n, "ds": self.name, "exc": exc, "dump_after": dump_after})
                    raise exc
                res = Sentinel(n)
                shape = n % 6  # results of every shape: identity must survive value()
                if shape == 5:
                    res = Deferred(n)
                elif shape == 1:
                    res = [res]
                elif shape == 2:
                    res = {"k": res}
                elif shape == 3:
                    res = (res, n)
                with hist.lock:
                    hist.log.append({"ev": "leave", "n": n, "ds": self.name, "result": res, "dump_after": dump_after})
                if n % 4 == 2:
                    hist.mode_counts["executor-edits-its-ast-in-place"] = hist.mode_counts.get("executor-edits-its-ast-in-place", 0) + 1
                    vandalise(a)
                return res

        class EmptyHDS(HDS):
            "a dataset holding zero files: len() is 0, the object is falsy"

            def __len__(self):
                return 0

        class _Awaitable:
            "an awaitable that is no coroutine object (what a plain function handing on a future / task / wrapper returns)"

            def __init__(self, coro):
                self.coro = coro

            def __await__(self):
                return self.coro.__await__()

        class SyncHDS(HDS):
            "a dataset whose executor is a plain function returning an awaitable"

            def execute_result_async(self, a, title=None):
                if self.fail_next and next(_uid) % 2:
                    # a plain function can fail before it has anything to hand back - with a TypeError of its own, say
                    self.fail_next = False
                    n = next(_uid)
                    exc = ExecTypeFailure(f"failure#{n} (raised by the plain function itself)")
                    with hist.lock:
                        hist.log.append({"ev": "enter", "n": n, "ds": self.name, "self": self, "ast_id": id(a), "dump": astx.dump_fields(a), "title": title, "ast": a, "building": hist.building, "thread": threading.get_ident()})
                        hist.log.append({"ev": "leave", "n": n, "ds": self.name, "exc": exc, "dump_after": astx.dump_fields(a)})
                    raise exc
                return _Awaitable(HDS.execute_result_async(self, a, title))

        class VarHDS(HDS):
            "a dataset whose executor is declared with catch-all parameters (a forwarding wrapper, a decorator without functools.wraps)"

            async def execute_result_async(self, *args, **kwargs):
                return await HDS.execute_result_async(self, *args, **kwargs)

        class RestHDS(HDS):
            "... or takes everything after the query as *rest"

            async def execute_result_async(self, a, *rest, **kw):
                return await HDS.execute_result_async(self, a, *rest, **kw)

        self.HDS = HDS
        for i in range(n_datasets):
            k = rnd.random()
            cls = EmptyHDS if rnd.random() < 0.3 else (SyncHDS if rnd.random() < 0.3 else (VarHDS if rnd.random() < 0.25 else (RestHDS if rnd.random() < 0.2 else HDS)))
            if cls in (VarHDS, RestHDS):
                self.mode_counts["executors-declared-with-catch-all-parameters"] = self.mode_counts.get("executors-declared-with-catch-all-parameters", 0) + 1
            if cls is SyncHDS:
                self.mode_counts["plain-function-executors-returning-awaitables"] = self.mode_counts.get("plain-function-executors-returning-awaitables", 0) + 1
            if cls is EmptyHDS:
                self.mode_counts["falsy-dataset-objects"] = self.mode_counts.get("falsy-dataset-objects", 0) + 1
            named = rnd.random() < 0.5
            if named:
                self.mode_counts["datasets-naming-their-data-in-the-root-node"] = self.mode_counts.get("datasets-naming-their-data-in-the-root-node", 0) + 1
            if k < typed_share * 0.7:
                ds, kind = cls(f"ds{i}", self.model["Event"], named_root=named), "Event"
            elif k < typed_share:
                ds, kind = cls(f"ds{i}", self.model["PlainEvent"], named_root=named), "Event"
            else:
                ds, kind = cls(f"ds{i}", named_root=named), "uEvent"
                ds.untyped = True
            self.datasets.append(ds)
            for m in monitors:
                if hasattr(m, "on_dataset"):
                    m.on_dataset(ds)
            self._register(ds, kind, ds, None, "dataset")

    # -- registry / events
    def _register(self, s, kind, ds, parent, how):
        e = Stream(s, kind, ds, parent, how)
        self.streams.append(e)
        for m in self.monitors:
            if hasattr(m, "on_stream"):
                m.on_stream(self, e)
        return e

    def _event(self, kind, info):
        self.step += 1
        for m in self.monitors:
            if hasattr(m, "on_event"):
                m.on_event(self, kind, info)

    # -- operations
    def derive(self, e, opname, text, rkind, mode):
        if mode == "ast" and self.rnd.random() < 0.5:
            # one AST OBJECT - a bare ast.Lambda, or the Module / Expression ast.parse made of the text - is handed to several operators
            # and streams, typed ones with differing declared defaults among them (shared sub-ASTs in lambdas too)
            import ast as _ast

            form = ("lambda", "module", "expression")[hash(text) % 3]
            made = {"lambda": lambda: astx.parse_expr(text), "module": lambda: _ast.parse(text), "expression": lambda: _ast.parse(text, mode="eval")}[form]
            arg = self.shared_asts.setdefault((text, form), made())
            if form == "expression":
                try:
                    from func_adl.util_ast import lambda_unwrap

                    lambda_unwrap(arg)
                except Exception:
                    arg, form = self.shared_asts.setdefault((text, "lambda"), astx.parse_expr(text)), "lambda"  # (an Expression wrapper is not a documented form)
            mode = "ast-shared-object:" + form
        else:
            arg = text if mode == "string" else astx.parse_expr(text)
        self.mode_counts[mode] = self.mode_counts.get(mode, 0) + 1
        self.building += 1
        try:
            try:
                s = getattr(e.s, opname)(arg)
            except ValueError as ex:
                self._event("derive-refused", {"op": opname, "text": text, "on": e.id, "error": str(ex)[:100]})
                return None
        finally:
            self.building -= 1
        ne = self._register(s, rkind if rkind is not None else e.kind, e.ds, e, f"{opname}({text})")
        self._event("derive", {"op": opname, "text": text, "on": e.id, "new": ne.id, "mode": mode})
        return ne

    def random_derive(self, e):
        r = self.rnd
        pool = POOL.get(e.kind, POOL["other"])
        ops = [o for o in ("Select", "Where", "SelectMany") if pool[o]]
        opname = r.choice(ops)
        text, rkind = r.choice(pool[opname])
        return self.derive(e, opname, text, rkind, r.choice(["string", "ast"]))

    def metadata(self, e, d):
        self.building += 1
        try:
            s = e.s.MetaData(d)
        finally:
            self.building -= 1
        ne = self._register(s, e.kind, e.ds, e, f"MetaData({d!r})")
        self._event("MetaData", {"on": e.id, "new": ne.id, "dict": d})
        return ne

    def qmetadata(self, e, d):
        self.building += 1
        before = dict(d)
        try:
            s = e.s.QMetaData(d)
        finally:
            self.building -= 1
        if d != before or list(d) != list(before):
            self.callers_dict_modified.append((dict(before), dict(d)))
        ne = self._register(s, e.kind, e.ds, e, f"QMetaData({before!r})")
        ne.terminal = e.terminal
        self._event("QMetaData", {"on": e.id, "new": ne.id, "dict": before})
        if self.rnd.random() < 0.5:
            # the caller goes on using its dictionary (a settings dict updated in a loop): the stream must not follow
            if self.rnd.random() < 0.5:
                d["set-after-the-call"] = self.step
                for k in list(before):
                    d[k] = "changed-after-the-call"
            else:
                d.clear()
            self.mode_counts["caller-dict-changed-after-QMetaData"] = self.mode_counts.get("caller-dict-changed-after-QMetaData", 0) + 1
            self._event("caller-changed-its-dict", {"on": ne.id})
        return ne

    def terminal(self, e):
        name, mk = self.rnd.choice(TERMINALS)
        self.building += 1
        try:
            s = getattr(e.s, name)(*mk(self.rnd))
        finally:
            self.building -= 1
        ne = self._register(s, "terminal", e.ds, e, name)
        ne.terminal = True
        self._event("terminal", {"on": e.id, "new": ne.id, "name": name})
        return ne

    def execute(self, e, how=None, override=False, title=None, fail=False):
        """Synchronous execution through value() / asyncio.run(value_async())."""
        r = self.rnd
        how = how or r.choice(["value", "value_async"])
        target = e.ds
        over = None
        if override:
            target = self.HDS("override")
            for m in self.monitors:
                if hasattr(m, "on_dataset"):
                    m.on_dataset(target)
            over = target.execute_result_async
            form = r.random()
            if form < 0.3:
                # an override that python counts as false: a callable recorder that is an (empty) list / has __len__ 0 / __bool__ False
                class _FalsyExecutor(list):
                    def __call__(self_, a, title=None):
                        return target.execute_result_async(a, title)

                over = _FalsyExecutor()
                self.mode_counts["override-executors-that-are-falsy-objects"] = self.mode_counts.get("override-executors-that-are-falsy-objects", 0) + 1
            elif form < 0.45:
                import functools

                over = functools.partial(target.execute_result_async)
                self.mode_counts["override-executors-that-are-partials"] = self.mode_counts.get("override-executors-that-are-partials", 0) + 1
        target.fail_next = fail
        call = {"ev": "call", "c": next(_uid), "stream": e.id, "how": how, "override": override, "title": title, "expect_ds": target.name,
                "expect_target": target, "entry": e, "log_start": len(self.log)}
        with self.lock:
            self.log.append(call)
        kwargs = {}
        if over is not None:
            kwargs["executor"] = over
        if title is not None:
            kwargs["title"] = title
        try:
            if how == "value":
                res = e.s.value(**kwargs)
            else:
                res = asyncio.run(e.s.value_async(**kwargs))
            ret = {"ev": "return", "c": call["c"], "result": res}
        except BaseException as ex:  # noqa
            ret = {"ev": "return", "c": call["c"], "exc": ex}
        with self.lock:
            self.log.append(ret)
        call["log_end"] = len(self.log)
        for m in self.monitors:
            if hasattr(m, "on_execute"):
                m.on_execute(self, call, ret)
        self._event("execute", {"on": e.id, "how": how, "override": override, "title": title})
        return ret

    def live(self, non_terminal=False):
        return [e for e in self.streams if not (non_terminal and e.terminal)]


# ------------------------------------------------------------------------------------------
# monitors


def qmeta_map(a):
    """{path: dict} of _q_metadata annotations in a tree (part of what a stream 'is')."""
    out = []
    for n in astx.walk_nodes(a):
        q = getattr(n, "_q_metadata", None)
        if q is not None:
            out.append(repr(sorted(q.items(), key=repr)))
    return out


class ImmutabilityMonitor:
    """U-imm: snapshot of every stream at creation, re-verified after every API event."""

    def __init__(self, ctx, prop="C11", rate=1.0):
        self.ctx, self.prop, self.rate = ctx, prop, rate
        self.snap = {}
        self.reported = set()

    @staticmethod
    def type_desc(t, depth=0):
        """what an item type IS beyond its identity and printed form: for a record class, its fields and their types"""
        import dataclasses
        import typing

        if depth < 4 and isinstance(t, type) and dataclasses.is_dataclass(t):
            try:
                hints = typing.get_type_hints(t)
            except Exception:
                hints = {}
            return (t.__name__, tuple(sorted(((k, ImmutabilityMonitor.type_desc(v, depth + 1)) for k, v in hints.items()), key=repr)),
                    tuple(sorted(((k, repr(v)) for k, v in getattr(t, "__annotations__", {}).items()), key=repr)),
                    tuple(sorted(((k, repr(f.type)) for k, f in getattr(t, "__dataclass_fields__", {}).items()), key=repr)))
        return repr(t)

    def on_stream(self, hist, e):
        self.snap[e.id] = (astx.dump_fields(e.s.query_ast), (e.s.item_type, self.type_desc(e.s.item_type)), qmeta_map(e.s.query_ast), e)

    def on_event(self, hist, kind, info):
        if self.rate < 1.0 and hist.rnd.random() > self.rate:
            return
        self.ctx.count("imm:verifications")
        for sid, (dump, ity, qm, e) in self.snap.items():
            self.ctx.count("imm:stream-checks")
            if sid in self.reported:
                continue
            now = astx.dump_fields(e.s.query_ast)
            what = None
            if now != dump:
                what = "query_ast"
            elif (e.s.item_type is not ity[0] and e.s.item_type != ity[0]) or self.type_desc(e.s.item_type) != ity[1]:
                what = "item_type"
            elif qmeta_map(e.s.query_ast) != qm:
                what = "query-metadata"
            if what:
                self.reported.add(sid)
                self.violated(hist, e, what, kind, info, dump, now)

    def violated(self, hist, e, what, kind, info, dump, now):
        self.ctx.violation(
            f"stream-changed:{what}:by-{kind}",
            f"stream #{e.id} ({e.how}) changed its {what} after step {hist.step} ({kind} {str(info)[:160]}); before={dump[:160]} now={now[:160]}",
            {"history": [str(x)[:200] for x in getattr(hist, 'trace', [])][-40:], "stream": e.how, "what": what},
        )


def without_empty_keywords(tree):
    """the tree as a program assembles it by hand: ast.Call(func=.., args=[..]) with the `keywords` field simply not given (python 3.12
    leaves it absent; ast.dump, generic_visit and compile tolerate that). Returns a deep copy"""
    import ast as _ast
    import copy as _copy

    t = _copy.deepcopy(tree)
    n = 0
    for c in _ast.walk(t):
        if isinstance(c, _ast.Call) and getattr(c, "keywords", None) == []:
            del c.keywords
            n += 1
        if isinstance(c, _ast.Call) and getattr(c, "args", None) == []:
            del c.args  # (a call without arguments, built as ast.Call(func=..))
            n += 1
    return t, n


def with_keywords_again(tree):
    import ast as _ast

    for c in _ast.walk(tree):
        if isinstance(c, _ast.Call) and not hasattr(c, "keywords"):
            c.keywords = []
        if isinstance(c, _ast.Call) and not hasattr(c, "args"):
            c.args = []
    return tree


def half_built_calls(ctx, transform, texts, label):
    """transform(tree) on trees whose calls were built without a keywords field gives what it gives for the same trees built in full"""
    import ast as _ast

    from . import astx as _astx

    for text in texts:
        full = _astx.parse_expr(text)
        bare, n = without_empty_keywords(full)
        if not n:
            continue
        ctx.case(f"half-built-calls:{label}:{text}", True)
        ctx.count("trees-with-calls-built-without-a-keywords-field")
        want = transform(full)
        try:
            got = with_keywords_again(transform(bare))
        except Exception as e:
            ctx.violation(f"exc-on-calls-built-without-keywords:{type(e).__name__}", f"{label}: {text} with its {n} keyword-less calls built without the field: {type(e).__name__}: {str(e)[:120]}", {"half_built": True})
            continue
        if _ast.dump(got) != _ast.dump(want):
            ctx.violation("calls-built-without-keywords-transformed-differently", f"{label}: {text}: {_ast.unparse(got)[:160]} instead of {_ast.unparse(want)[:160]}", {"half_built": True})


def handler_named_functions():
    """the transformers built on FuncADLNodeTransformer hand a call of a plain name X to their method call_X, whatever X is: every
    attribute of those classes whose name starts with call_ is, to them, a function of the query language. The documented ones are
    the operators; any OTHER such attribute (a helper method somebody called call_something) turns a user function of that name
    into something the transformer rewrites. Returns the names that are no documented operator (none, on a tree that is right)"""
    from func_adl.ast.func_adl_ast_utils import FuncADLNodeTransformer, FuncADLNodeVisitor
    from func_adl.ast.function_simplifier import simplify_chained_calls
    from func_adl.ast.meta_data import _extract_metadata

    documented = {"Select", "SelectMany", "Where", "First", "Count", "MetaData", "Aggregate", "Zip", "Min", "Max", "Sum", "len"}
    names = set()
    for cls in (FuncADLNodeTransformer, FuncADLNodeVisitor, simplify_chained_calls, _extract_metadata):
        for n in dir(cls):
            if n.startswith("call_") and n[5:] and n[5:] not in documented:
                names.add(n[5:])
    return sorted(names)


HANDLER_NAME_TEMPLATES = [
    "Select(EventDataset(), lambda e: {X}(e.x, e.y))", "Select(EventDataset(), lambda e: {X}(e.x, k=e.y))", "Select(EventDataset(), lambda e: {X}(e.x))",
    "Select(EventDataset(), lambda e: g({X}(MetaData(e.jets, {{'k': 1}})), e.n))", "Select(EventDataset(), lambda e: {X}(e.x, lambda j: j.pt))", "Select(EventDataset(), lambda e: {X}())",
]
