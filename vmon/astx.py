"""Structural helpers over python ``ast`` trees, independent of the code under test.

Everything here looks at ``_fields`` only, so non-field annotations the library hangs on
nodes (``_func_adl_executor``, ``_eds_object``, ``_q_metadata``, ``_old_ast``, ``_ignore``)
never influence a comparison.
"""
import ast


def clone(a):
    """Fields-only deep copy (turns a DAG into a tree, drops non-field attributes)."""
    if isinstance(a, ast.AST):
        n = type(a)()
        for f in a._fields:
            if hasattr(a, f):
                setattr(n, f, clone(getattr(a, f)))
        return n
    if isinstance(a, list):
        return [clone(x) for x in a]
    return a


_CTX_NODES = (ast.Name, ast.Attribute, ast.Subscript, ast.List, ast.Tuple, ast.Starred)


def dump_fields(a, ctx=False):
    """Own serializer: node type + fields; a missing optional field is the same as None;
    constants are rendered with their type so 1, 1.0 and True differ.  Load/Store contexts are
    ignored unless ``ctx`` is set."""
    out = []
    _dump(a, out, ctx)
    return "".join(out)


def _dump(a, out, ctx):
    if isinstance(a, ast.AST):
        out.append(type(a).__name__)
        out.append("(")
        first = True
        for f in a._fields:
            v = getattr(a, f, None)
            if v is None:
                continue
            if f == "ctx" and not ctx and isinstance(a, _CTX_NODES):
                continue
            if not first:
                out.append(",")
            first = False
            out.append(f)
            out.append("=")
            _dump(v, out, ctx)
        out.append(")")
    elif isinstance(a, list):
        out.append("[")
        for i, x in enumerate(a):
            if i:
                out.append(",")
            _dump(x, out, ctx)
        out.append("]")
    else:
        out.append(type(a).__name__)
        out.append(":")
        out.append(repr(a))


def struct_eq(a, b):
    return dump_fields(a) == dump_fields(b)


def first_diff(a, b, path="root"):
    """Path of the first structural difference between two trees (or None)."""
    if isinstance(a, ast.AST) and isinstance(b, ast.AST):
        if type(a) is not type(b):
            return f"{path}: {type(a).__name__} != {type(b).__name__}"
        for f in a._fields:
            if isinstance(a, (ast.Name, ast.Attribute, ast.Subscript, ast.List, ast.Tuple, ast.Starred)) and f == "ctx":
                continue
            d = first_diff(getattr(a, f, None), getattr(b, f, None), f"{path}.{f}")
            if d:
                return d
        return None
    if isinstance(a, list) and isinstance(b, list):
        if len(a) != len(b):
            return f"{path}: len {len(a)} != {len(b)}"
        for i, (x, y) in enumerate(zip(a, b)):
            d = first_diff(x, y, f"{path}[{i}]")
            if d:
                return d
        return None
    if isinstance(a, list) and not a and b is None or isinstance(b, list) and not b and a is None:
        return None
    if type(a) is not type(b) or a != b:
        if isinstance(a, float) and isinstance(b, float) and repr(a) == repr(b):
            return None
        return f"{path}: {a!r} != {b!r}"
    return None


def walk_nodes(a):
    """ast.walk that tolerates raw non-node values in node fields and DAGs."""
    todo = [a]
    while todo:
        n = todo.pop()
        if isinstance(n, ast.AST):
            yield n
            for f in n._fields:
                v = getattr(n, f, None)
                if isinstance(v, list):
                    todo.extend(v)
                elif isinstance(v, ast.AST):
                    todo.append(v)


def node_kinds(a):
    k = {}
    for n in walk_nodes(a):
        k[type(n).__name__] = k.get(type(n).__name__, 0) + 1
    return k


def size(a):
    return sum(1 for _ in walk_nodes(a))


def free_names(a, bound=frozenset()):
    """Names read in ``a`` that are not bound by an enclosing lambda / comprehension in ``a``."""
    out = set()
    _free(a, frozenset(bound), out)
    return out


def _free(n, bound, out):
    if isinstance(n, ast.Name):
        if n.id not in bound:
            out.add(n.id)
    elif isinstance(n, ast.Lambda):
        a = n.args
        for d in list(a.defaults) + [x for x in a.kw_defaults if x is not None]:
            _free(d, bound, out)
        names = [x.arg for x in a.posonlyargs + a.args + a.kwonlyargs]
        if a.vararg:
            names.append(a.vararg.arg)
        if a.kwarg:
            names.append(a.kwarg.arg)
        _free(n.body, bound | set(names), out)
    elif isinstance(n, (ast.ListComp, ast.GeneratorExp, ast.SetComp, ast.DictComp)):
        b = bound
        for i, g in enumerate(n.generators):
            _free(g.iter, b, out)
            tn = {x.id for x in walk_nodes(g.target) if isinstance(x, ast.Name)}
            b = b | tn
            for c in g.ifs:
                _free(c, b, out)
        if isinstance(n, ast.DictComp):
            _free(n.key, b, out)
            _free(n.value, b, out)
        else:
            _free(n.elt, b, out)
    elif isinstance(n, ast.AST):
        for f in n._fields:
            v = getattr(n, f, None)
            if isinstance(v, list):
                for x in v:
                    _free(x, bound, out)
            elif isinstance(v, ast.AST):
                _free(v, bound, out)


_EXPR_FIELDS_OK = {
    # field -> predicate on value; only the fields the harness's grammars use
}


def well_formed(a, path="root"):
    """Return None if every field of every node holds what the python grammar demands for
    expression trees (node / list of nodes / proper scalars), else a description."""
    if isinstance(a, ast.AST):
        for f in a._fields:
            if not hasattr(a, f):
                if f in ("kind", "type_comment", "annotation", "ctx", "vararg", "kwarg", "lower", "upper", "step", "returns"):
                    continue
                if f in ("keywords", "posonlyargs", "kwonlyargs", "kw_defaults", "defaults", "decorator_list", "ifs", "type_params"):
                    continue  # optional lists default to empty in 3.12 constructors? (they do not) - tolerated
                return f"{path}: missing field {f} on {type(a).__name__}"
            v = getattr(a, f)
            p = f"{path}.{f}"
            if isinstance(a, ast.Constant) and f == "value":
                continue
            if f in ("id", "attr", "arg") and not (isinstance(a, ast.keyword) and v is None):
                if isinstance(a, ast.keyword) and f == "arg":
                    if not isinstance(v, str):
                        return f"{p}: keyword.arg {v!r}"
                    continue
                if isinstance(a, ast.arg) or isinstance(a, (ast.Name, ast.Attribute)):
                    if not isinstance(v, str):
                        return f"{p}: {type(a).__name__}.{f} is {type(v).__name__}"
                    continue
            if f in ("kind", "type_comment", "is_async", "lineno", "col_offset"):
                continue
            if isinstance(v, list):
                for i, x in enumerate(v):
                    if x is None and f in ("keys", "kw_defaults"):
                        continue
                    if not isinstance(x, ast.AST):
                        return f"{p}[{i}]: raw {type(x).__name__} {x!r}"
                    r = well_formed(x, f"{p}[{i}]")
                    if r:
                        return r
            elif isinstance(v, ast.AST):
                r = well_formed(v, p)
                if r:
                    return r
            elif v is None:
                if f in ("annotation", "vararg", "kwarg", "lower", "upper", "step", "arg", "returns", "ctx"):
                    continue
                return f"{p}: None in required field of {type(a).__name__}"
            else:
                return f"{p}: raw {type(v).__name__} {v!r} in {type(a).__name__}"
        return None
    return f"{path}: not a node ({type(a).__name__})"


def N(id):
    return ast.Name(id=id, ctx=ast.Load())


def C(v):
    return ast.Constant(value=v)


def call(fn, *args):
    return ast.Call(func=N(fn), args=list(args), keywords=[])


def mcall(obj, name, *args, **kw):
    return ast.Call(
        func=ast.Attribute(value=obj, attr=name, ctx=ast.Load()),
        args=list(args),
        keywords=[ast.keyword(arg=k, value=v) for k, v in kw.items()],
    )


def lam(params, body):
    if isinstance(params, str):
        params = [params]
    return ast.Lambda(
        args=ast.arguments(
            posonlyargs=[], args=[ast.arg(arg=p) for p in params], kwonlyargs=[], kw_defaults=[], defaults=[]
        ),
        body=body,
    )


def attr(v, name):
    return ast.Attribute(value=v, attr=name, ctx=ast.Load())


def sub(v, s):
    return ast.Subscript(value=v, slice=s, ctx=ast.Load())


def unparse(a):
    """Text of a *tree copy* of ``a`` (never unparse a DAG: CPython caches precedence per object)."""
    try:
        return ast.unparse(clone(a))
    except Exception as e:  # malformed trees
        return f"<unparse failed: {type(e).__name__}: {e}> {dump_fields(a)[:300]}"


def parse_expr(text):
    return ast.parse(text.strip(), mode="eval").body


def alpha_rename(a, prefix="_r"):
    """Semantics-preserving copy in which every lambda parameter has a globally unique name."""
    counter = [0]

    def go(n, env):
        if isinstance(n, ast.Name):
            return ast.Name(id=env.get(n.id, n.id), ctx=ast.Load())
        if isinstance(n, ast.Lambda):
            new_env = dict(env)
            new_args = []
            for x in n.args.args:
                counter[0] += 1
                nm = f"{prefix}{counter[0]}"
                new_env[x.arg] = nm
                new_args.append(nm)
            return lam(new_args, go(n.body, new_env))
        if isinstance(n, ast.Call) and isinstance(n.func, ast.Lambda) and n.keywords:
            # keyword names must follow the renamed parameters
            f = go(n.func, env)
            ren = {x.arg: y.arg for x, y in zip(n.func.args.args, f.args.args)}
            return ast.Call(
                func=f,
                args=[go(x, env) for x in n.args],
                keywords=[ast.keyword(arg=ren.get(k.arg, k.arg), value=go(k.value, env)) for k in n.keywords],
            )
        if isinstance(n, ast.AST):
            m = type(n)()
            for f in n._fields:
                if hasattr(n, f):
                    setattr(m, f, go(getattr(n, f), env))
            return m
        if isinstance(n, list):
            return [go(x, env) for x in n]
        return n

    return go(a, {})


def called_kw_to_positional(a):
    """Copy in which every explicitly called lambda receives its keyword arguments positionally
    (only when that is possible without changing the binding)."""

    def go(n):
        if isinstance(n, ast.Call) and isinstance(n.func, ast.Lambda) and n.keywords:
            params = [x.arg for x in n.func.args.args]
            args = [go(x) for x in n.args]
            kw = {k.arg: go(k.value) for k in n.keywords}
            rest = params[len(args):]
            if set(rest) == set(kw):
                return ast.Call(func=go(n.func), args=args + [kw[p] for p in rest], keywords=[])
        if isinstance(n, ast.AST):
            m = type(n)()
            for f in n._fields:
                if hasattr(n, f):
                    setattr(m, f, go(getattr(n, f)))
            return m
        if isinstance(n, list):
            return [go(x) for x in n]
        return n

    return go(a)


def repo_frame(exc, repo):
    """Qualified name of the innermost frame of ``exc``'s traceback that lies in the repository."""
    import traceback

    best = None
    for fs in traceback.extract_tb(exc.__traceback__):
        if fs.filename.startswith(repo):
            best = fs
    if best is None:
        return "<outside-repo>"
    import os

    return f"{os.path.basename(best.filename)}:{best.name}"


def _slots(root):
    """All (parent, field, index|None) positions that hold an expression node (tree assumed)."""
    out = []
    todo = [root]
    while todo:
        n = todo.pop()
        for f in n._fields:
            v = getattr(n, f, None)
            if isinstance(v, ast.expr):
                out.append((n, f, None))
                todo.append(v)
            elif isinstance(v, list):
                for i, x in enumerate(v):
                    if isinstance(x, ast.expr):
                        out.append((n, f, i))
                        todo.append(x)
                    elif isinstance(x, ast.AST):
                        todo.append(x)
            elif isinstance(v, ast.AST):
                todo.append(v)
    return out


def shrink(root, still_bad, max_tests=600):
    """Greedy sub-tree replacement while ``still_bad(tree)`` holds. ``root`` must be an expr.
    Candidates for a position: each of its descendants, then small constants."""
    import copy

    class Holder(ast.AST):
        _fields = ("body",)

    best = clone(root)
    tests = [0]

    def try_replace(tree, path, new):
        h = Holder()
        h.body = clone(tree)
        slots = _slots(h)
        p, f, i = slots[path]
        if i is None:
            setattr(p, f, clone(new))
        else:
            getattr(p, f)[i] = clone(new)
        return h.body

    progress = True
    while progress and tests[0] < max_tests:
        progress = False
        h = Holder()
        h.body = best
        slots = _slots(h)
        cur_size = size(best)
        for idx, (p, f, i) in enumerate(slots):
            node = getattr(p, f) if i is None else getattr(p, f)[i]
            cands = [d for d in walk_nodes(node) if isinstance(d, ast.expr) and d is not node and not isinstance(d, ast.Lambda)]
            if isinstance(node, ast.Lambda):
                continue
            cands.sort(key=size)
            cands = cands[:6] + [C(1), C(True)]
            for c in cands:
                if size(c) >= size(node):
                    continue
                tests[0] += 1
                if tests[0] > max_tests:
                    break
                cand = try_replace(best, idx, c)
                try:
                    ok = still_bad(cand)
                except Exception:
                    ok = False
                if ok:
                    best = cand
                    progress = True
                    break
            if progress or tests[0] > max_tests:
                break
    return best


def snapshot(a):
    """Deep copy of the node structure (nodes and field lists are new objects); annotations that are not fields (executor
    references, query metadata) are carried over by reference, constants by value."""
    if isinstance(a, ast.AST):
        new = type(a).__new__(type(a))
        for k, v in a.__dict__.items():
            if k in a._fields:
                new.__dict__[k] = snapshot(v)
            else:
                new.__dict__[k] = v
        return new
    if isinstance(a, list):
        return [snapshot(x) for x in a]
    return a


class Uncopyable:
    """what real query nodes carry as attributes: the dataset object (with its locks, files, sessions) and its bound executor - an
    object that must travel with the node by reference: it can be neither deep-copied nor pickled, and its identity matters"""

    def __init__(self):
        import threading

        self.lock = threading.Lock()
        self.copied = 0

    def __deepcopy__(self, memo):
        self.copied += 1
        raise TypeError("cannot pickle '_thread.lock' object")

    def __reduce__(self):
        raise TypeError("cannot pickle '_thread.lock' object")


def attach_object(tree, rnd=None):
    """hang an Uncopyable on a Call node of the tree (the EventDataset() call if there is one) the way EventDataset hangs itself
    on its node; -> the object, or None if the tree has no call"""
    # (function-form calls only: a method-form operator call is what a conversion legitimately replaces by a new node)
    calls = [n for n in walk_nodes(tree) if isinstance(n, ast.Call) and isinstance(n.func, ast.Name)]
    if not calls:
        return None
    roots = [n for n in calls if isinstance(n.func, ast.Name) and n.func.id == "EventDataset"]
    node = roots[0] if roots else (rnd.choice(calls) if rnd else calls[0])
    obj = Uncopyable()
    node._eds_object = obj
    return obj


def find_object(tree, obj):
    return any(getattr(n, "_eds_object", None) is obj for n in walk_nodes(tree))
