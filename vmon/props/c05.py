"""C05 - captured one-line helper functions are inlined faithfully (DESIGN.md section 4, C05)."""
import ast
import random

from .. import astx, modgen, probe
from ..core import REPO

N_FILES = {"quick": 24, "thorough": 10000}
TIME_BUDGET = {"quick": 60, "thorough": 270}
META = {
    "rule": "generated modules (real files) with 8-12 single-return helpers (def with/without docstring, name = lambda ..., nested in a "
    "factory = captured through a closure) over a body grammar: bare parameter, constant, attribute / method chains, tuples, arithmetic, "
    "nested lambdas (one and two deep, curried) whose parameters re-use helper parameter names, the conventional 'j' or the names the "
    "call arguments use, helpers calling leaf helpers (depth <= 3), "
    "1-3 parameters with defaults; 20-30 call sites per file inside passed lambdas with positional / keyword / re-ordered / mixed call "
    "shapes, argument expressions that mention names also bound inside the helper (capture trap), call sites inside nested lambdas; "
    "two-statement helpers that cannot be inlined; monitor: behaviour(callable) - python really calling the helpers - vs "
    "behaviour(recorded lambda) compiled in an environment holding only the helper functions by name; an inlinable helper called "
    "positionally must not survive as a call by name; distinct by (helper body, call shape, argument form); non-trivial = the helper "
    "body has a nested lambda or calls another helper or is a bare parameter / constant, or the call uses keywords",
    "assumptions": [
        "free names inside a helper body (other helpers) are resolved in the helper's defining scope as of call time",
        "helper bodies use only their parameters, constants and other helpers",
    ],
    "floor_evaluations": {"quick": 1500, "thorough": 50000},
    "floor_nontrivial": {"quick": 500, "thorough": 15000},
    "threads": 3,
    "anchors": ["func_adl/util_ast.py"],
}


class HGen:
    def __init__(self, rnd):
        self.r = rnd
        self.k = 0
        self.helpers = []  # dict(name, params, defaults, body, kind, leaf, inlinable, feats)
        self.stay_names = []  # leaf helpers that cannot be inlined: they stay calls by name (a name other binders may carry too)

    def body(self, params, depth, leafs, feats):
        r = self.r
        self.k += 1
        m = self.k
        p = r.choice(params)
        k = r.random()
        if depth <= 0 or k < 0.25:
            c = r.random()
            if c < 0.15:
                feats.add("bare-parameter")
                return p
            if c < 0.25:
                feats.add("constant")
                return str(m)
            if c < 0.6:
                return f"{p}.a{m}"
            if c < 0.72:
                # a name of the helper's OWN surroundings (module global / variable of the enclosing factory): frozen where the helper
                # was defined
                feats.add("helper-body-uses-captured-name")
                return f"{p}.m{m}({r.choice(['HCUT0', 'HCUT1', 'HNAME'])}, {m})"
            return f"{p}.m{m}({r.choice(params)}.b, {m})"
        if k < 0.45:
            return f"({self.body(params, depth - 1, leafs, feats)} + {self.body(params, depth - 1, leafs, feats)})"
        if k < 0.55:
            return f"({self.body(params, depth - 1, leafs, feats)}, {self.body(params, depth - 1, leafs, feats)})"
        if k < 0.62 and depth >= 2:
            # curried form: two nested non-called lambdas, the helper parameter used in the innermost one
            v1 = r.choice(["y", "j", "e", "w"])
            # (the inner binder may literally carry a name a renaming scheme would generate for the outer one)
            v2 = r.choice(["z", "j", "e", "x", "evt", f"{v1}_1", f"{v1}_1", f"{v1}_2", f"{v1}_0", "arg_0"])
            if v1 != v2:
                feats.add("two-deep-nested-lambdas")
                return f"{p}.c{m}.Select(lambda {v1}: {v1}.d{m}.Select(lambda {v2}: {v2}.q + {v1}.r + {self.body([x for x in params if x not in (v1, v2)] or [v1], 0, [], feats)}))"
        if k < 0.8:
            v = r.choice([p, "j", "j", f"v{m}", r.choice(params), "e", "x", "w", "evt", f"{p}_1", f"{r.choice(params)}_1", "j_1", "e_1", "y_1"] + self.stay_names)
            if v in self.stay_names:
                feats.add("binder-named-like-a-helper-that-stays-a-call")
            feats.add("nested-lambda-reusing-parameter" if v in params else ("nested-lambda-j" if v == "j" else "nested-lambda"))
            inner = [x for x in params if x != v] + [v]
            return f"{p}.c{m}.Select(lambda {v}: {self.body(inner, depth - 1, leafs, feats)})"
        leafs = [h for h in leafs if h["name"] not in params]
        if leafs:
            h = r.choice(leafs)
            feats.add("calls-helper")
            if not h["inlinable"] or "calls-helper-that-stays" in h["feats"]:
                feats.add("calls-helper-that-stays")
            args = [self.body(params, depth - 1, [], feats) for _ in h["params"][: len(h["params"]) - len(h["defaults"]) + r.randint(0, len(h["defaults"]))]]
            return f"{h['name']}({', '.join(args)})"
        return f"{p}.z{m}"

    def helper(self, i, leaf, leafs):
        r = self.r
        np = r.randint(1, 3)
        params = r.sample(["x", "y", "s", "j", "e"] + (self.stay_names if not leaf else []), np)
        if set(params) & set(self.stay_names):
            pass
        ndef = r.randint(0, np - 1) if r.random() < 0.3 else 0
        defaults = [r.choice(["2", "0.5", "'d'"]) for _ in range(ndef)]
        feats = set()
        body = self.body(params, r.randint(0, 3), leafs if not leaf else [], feats)
        kind = r.choice(["def", "def", "def-doc", "lambda", "lambda-ml", "multi"]) if not leaf else r.choice(["def", "def", "lambda", "lambda-ml", "multi"])
        sig = ", ".join(p if j < np - ndef else f"{p}={defaults[j - (np - ndef)]}" for j, p in enumerate(params))
        name = f"h{i}"
        if kind == "def":
            text = f"def {name}({sig}): return {body}\n" if r.random() < 0.5 else f"def {name}({sig}):\n    return {body}\n"
        elif kind == "def-doc":
            text = f"def {name}({sig}):\n    'lambda {params[0]}: ({params[0]}'\n    return {body}\n"
        elif kind == "lambda":
            text = f"{name} = lambda {sig}: {body}\n"
        elif kind == "lambda-ml":
            # an assigned lambda inside brackets whose body goes on on the next line without brackets of its own (the first line
            # alone is a complete expression too)
            feats.add("assigned-lambda-over-several-lines")
            text = f"{name} = (\n    lambda {sig}: {body}\n    .tail{i}\n)\n"
        else:
            # more than a single return: a second statement that is part of what calling the function does
            text = r.choice([
                f"def {name}({sig}):\n    tmp = {body}\n    return tmp\n",
                f"def {name}({sig}):\n    assert {params[0]} is not None, 'precondition'\n    return {body}\n",
                f"def {name}({sig}):\n    if {params[0]} is None:\n        raise ValueError('precondition')\n    return {body}\n",
                f"def {name}({sig}):\n    'doc'\n    assert {params[0]} is not None\n    return {body}\n",
            ])
        h = {"name": name, "params": params, "defaults": defaults, "body": body, "kind": kind, "leaf": leaf, "inlinable": kind != "multi", "feats": feats, "text": text}
        self.helpers.append(h)
        if leaf and kind == "multi":
            self.stay_names.append(name)
        if set(params) & set(self.stay_names):
            feats.add("binder-named-like-a-helper-that-stays-a-call")
        return h

    def call(self, h, argsrc, feats):
        """call expression for helper h with argument sources; -> (text, positional?)"""
        r = self.r
        np, nd = len(h["params"]), len(h["defaults"])
        nreq = np - nd
        ngive = r.randint(nreq, np)
        args = [argsrc() for _ in range(ngive)]
        shape = r.choice(["pos", "pos", "kw", "mixed", "reordered"])
        if shape == "pos" or ngive == 0:
            return f"{h['name']}({', '.join(args)})", ngive == np
        if shape == "kw":
            feats.add("keyword-call")
            return f"{h['name']}({', '.join(f'{p}={a}' for p, a in zip(h['params'], args))})", False
        if shape == "reordered":
            feats.add("reordered-keywords")
            pairs = list(zip(h["params"], args))
            r.shuffle(pairs)
            return f"{h['name']}({', '.join(f'{p}={a}' for p, a in pairs)})", False
        feats.add("mixed-call")
        kpos = r.randint(0, ngive - 1)
        return f"{h['name']}({', '.join(args[:kpos] + [f'{p}={a}' for p, a in list(zip(h['params'], args))[kpos:]])})", False


def gen_file(rnd, registry_history=True):
    g = HGen(rnd)
    leafs = [g.helper(i, True, []) for i in range(rnd.randint(2, 4))]
    # (a middle level: helpers calling leaf helpers, called by the top ones)
    mids = [g.helper(len(leafs) + i, False, leafs) for i in range(rnd.randint(1, 3))]
    tops = mids + [g.helper(len(leafs) + len(mids) + i, False, leafs + mids) for i in range(rnd.randint(4, 6))]
    cases = []
    for ci in range(rnd.randint(20, 30)):
        P = rnd.choice(["e", "j", "x", "evt", "y", "w", "e_1", "j_1", "HCUT1", "HNAME"] + g.stay_names)
        h = rnd.choice(tops)
        feats = set(h["feats"])
        if P in g.stay_names:
            feats.add("binder-named-like-a-helper-that-stays-a-call")
        g.k += 1
        m = g.k

        def argsrc(P=P, m=m):
            c = rnd.random()
            if c < 0.3:
                return P
            if c < 0.6:
                return f"{P}.a{m}"
            if c < 0.8:
                return f"{P}.f{m}({P}.b)"
            return f"({P}.a{m} + {P}.j)"

        form = rnd.random()
        if form < 0.6:
            ctext, positional = g.call(h, argsrc, feats)
            body = ctext if rnd.random() < 0.5 else f"({ctext}, {P}.q{m})"
        elif form < 0.85:
            # call site inside a nested lambda; arguments mention the nested parameter and the outer one
            v = rnd.choice(["j", "w", P] + g.stay_names[:1])
            feats.add("call-site-in-nested-lambda")
            if v in g.stay_names:
                feats.add("binder-named-like-a-helper-that-stays-a-call")

            def argsrc2(v=v, P=P, m=m):
                return rnd.choice([v, f"{v}.pt", f"{P}.w{m}" if v != P else f"{v}.w{m}", f"({v}.a + {m})"])

            ctext, positional = g.call(h, argsrc2, feats)
            body = f"{P}.jets.Select(lambda {v}: {ctext})"
        else:
            h2 = rnd.choice(tops)
            feats |= h2["feats"]
            c1, p1 = g.call(h, argsrc, feats)
            c2, p2 = g.call(h2, argsrc, feats)
            body = f"({c1}, {c2})"
            positional = p1 and p2 and h2["inlinable"]
        is_def = h["kind"] in ("def", "def-doc") and (form < 0.85 or h2["kind"] in ("def", "def-doc"))
        cases.append({"text": f"lambda {P}: {body}", "helpers": [h["name"]], "positional": positional and h["inlinable"] and is_def, "feats": sorted(feats), "multi": not h["inlinable"]})
    closure = rnd.random() < 0.5
    src = modgen.DS_HEADER
    if closure:
        # helpers captured through a closure instead of module globals
        src += "HCUT0 = 'decoy-global'\ndef factory():\n    HCUT0, HCUT1, HNAME = 30, -2.5, \"q'x\"\n"
        for h in leafs + tops:
            src += "".join("    " + ln + "\n" for ln in h["text"].rstrip("\n").split("\n"))
        for i, c in enumerate(cases):
            src += f"    def case{i}(ds):\n        return ds.Select({c['text']})\n"
            src += f"    def py{i}():\n        return ({c['text']})\n"
        src += "    return locals()\n_ns = factory()\nglobals().update({k: v for k, v in _ns.items() if k.startswith(('case', 'py', 'h'))})\n"
    else:
        src += "HCUT0, HCUT1, HNAME = 30, -2.5, \"q'x\"\n"
        if registry_history and rnd.random() < 0.4:
            # history: ANOTHER function was registered for use in queries under the name one of the helpers carries (the registry
            # goes by name; the helper defined below is not that function)
            decoy = rnd.choice([h for h in tops if h["inlinable"]] or tops)["name"]
            src += f"from func_adl import func_adl_callable as _reg\n@_reg()\ndef {decoy}(x: float) -> float: ...\n"
            for c in cases:
                if decoy + "(" in c["text"]:
                    c["feats"] = sorted(set(c["feats"]) | {"helper-named-like-a-registered-function"})
        for h in leafs + tops:
            src += h["text"]
        # history: a function whose LOCAL helpers carry the names of module-level helpers (other bodies); queries built there run
        # first, the module-level queries calling the module-level helpers of the same names afterwards
        shadowed = [h for h in tops if h["kind"] in ("def", "def-doc")][:2] if rnd.random() < 0.6 else []
        local_cases = []
        if shadowed:
            src += "def scope():\n"
            for h in shadowed:
                src += f"    def {h['name']}({', '.join(h['params'])}): return {h['params'][0]}.local_{h['name']}\n"
                args = ", ".join(f"q.a{k}" for k in range(len(h["params"])))
                local_cases.append({"text": f"lambda q: {h['name']}({args})", "helpers": [h["name"]], "positional": True, "feats": ["local-helper-shadows-module-helper"], "multi": False, "local": True})
            for i, c in enumerate(local_cases):
                src += f"    def lcase{i}(ds):\n        return ds.Select({c['text']})\n"
                src += f"    def lpy{i}():\n        return ({c['text']})\n"
            src += "    return {k: v for k, v in locals().items() if k.startswith(('lcase', 'lpy'))}\nglobals().update(scope())\n"
        for i, c in enumerate(cases):
            src += f"def case{i}(ds):\n    return ds.Select({c['text']})\n"
            src += f"def py{i}():\n    return ({c['text']})\n"
        for i, c in enumerate(cases):
            c["fn"] = (f"case{i}", f"py{i}")
        for i, c in enumerate(local_cases):
            c["fn"] = (f"lcase{i}", f"lpy{i}")
        # module-level users of the shadowed names right after the local ones
        return src, local_cases + sorted(cases, key=lambda c: 0 if any(h["name"] + "(" in c["text"] for h in shadowed) else 1), leafs + tops
    for i, c in enumerate(cases):
        c["fn"] = (f"case{i}", f"py{i}")
    return src, cases, leafs + tops


def run_file(ctx, rnd):
    # (the registry of functions is one per process and goes by name: with several threads each loading a file of helpers h0, h1 ...
    # a registration made by one file would be in force for the others, which no real program looks like)
    src, cases, helpers = gen_file(rnd, registry_history=not ctx.threads)
    try:
        m = modgen.load(src, "c05")
    except SyntaxError as e:
        ctx.count("harness:generated-module-syntax-error")
        ctx.notes.setdefault("syntax_errors", []).append(str(e))
        return
    env = {h["name"]: getattr(m, h["name"]) for h in helpers}
    top_inlinable = {h["name"] for h in helpers if not h["leaf"] and h["inlinable"]}
    # python's own answers are all taken before the library sees any of the lambdas
    for c in cases:
        try:
            c["expected"] = probe.behaviour(getattr(m, c["fn"][1])())
        except Exception as e:
            c["expected"] = e
    for i, c in enumerate(cases):
        key = f"{c['text']}|{[h['text'] for h in helpers if h['name'] in c['text']]}"
        nt = bool(set(c["feats"]) & {"two-deep-nested-lambdas", "bare-parameter", "constant", "nested-lambda-reusing-parameter", "nested-lambda-j", "nested-lambda", "calls-helper", "keyword-call", "reordered-keywords", "mixed-call", "call-site-in-nested-lambda"})
        witness = {"lambda": c["text"], "helpers": [h["text"] for h in helpers if h["name"] + "(" in c["text"] or any(h["name"] + "(" in x["text"] for x in helpers if x["name"] + "(" in c["text"])], "features": c["feats"]}
        expected = c["expected"]
        if isinstance(expected, Exception):
            ctx.count("harness:python-side-failed:" + type(expected).__name__)
            continue
        ds = m.DS()
        try:
            s = getattr(m, c["fn"][0])(ds)
        except Exception as e:
            ctx.case(key, nt)
            import re as _re

            if isinstance(e, ValueError) and "helper-named-like-a-registered-function" in c["feats"] and _re.search(r"Error processing function call .* on function h\d+ ", str(e)):
                # (as below: the helper could not be pasted, stays a call by name, and that name is registered for ANOTHER function -
                # the call is checked against the registered signature, here with a refusal; the registry's business)
                ctx.count("not-judged:left-by-name-under-a-name-registered-for-another-function")
                continue
            ctx.violation(f"exc:{type(e).__name__}@{astx.repo_frame(e, REPO)}", f"{c['text']}: {type(e).__name__}: {str(e)[:160]} | helpers: {witness['helpers']}", witness)
            continue
        lam = s.query_ast.args[1]
        ctx.case(key, nt)
        for f in c["feats"]:
            ctx.count("feature:" + f)
        try:
            got = probe.behaviour(probe.compile_lambda(lam, env))
        except Exception as e:
            got = frozenset([((), f"<compile/eval failed: {type(e).__name__}: {e}>")])
        if got != expected and "helper-named-like-a-registered-function" in c["feats"]:
            from func_adl import type_based_replacement as _tbr0

            by_name = [n.func.id for n in astx.walk_nodes(lam) if isinstance(n, ast.Call) and isinstance(n.func, ast.Name) and n.func.id in _tbr0._global_functions and n.func.id[:1] == "h" and n.func.id[1:].isdigit()]
            if by_name:
                # the helper could not be pasted and is left as a call by name - under a name ANOTHER function is registered for
                # (the registry goes by name, by design): the call is then laid out for the registered signature. What such a call
                # means is the registry's business, not this property's (the inlined cases of this family are judged as ever)
                ctx.count("not-judged:left-by-name-under-a-name-registered-for-another-function")
                continue
        if got != expected and any("<raises" in r for _, r in expected):
            # python itself raises for this call (a string default used as an object): there is no value to preserve, and which of
            # several failing sub-expressions is reached first is not part of the property
            ctx.count("not-judged:python-side-raises")
            continue
        if got != expected:
            why = "unbound-name" if any("NameError" in r for _, r in got) else "different-value"
            ctx.violation(f"inlined-helper-misbehaves:{why}", f"{c['text']}: python calling the helpers gives {probe.describe(expected, 2)}, the recorded lambda {astx.unparse(lam)[:250]} gives {probe.describe(got, 2)} | helpers: {witness['helpers']}", witness)
            continue
        ctx.count("behaviour-equal")
        if c["positional"] and {"binder-named-like-a-helper-that-stays-a-call", "calls-helper-that-stays"} <= set(c["feats"]):
            # a helper whose body (after inlining) calls a function by a name that is bound where the helper is used cannot be
            # pasted there: leaving it a call by name is the promised fall-back
            ctx.count("left-by-name-is-legitimate:free-name-bound-at-the-call-site")
        elif c["positional"]:
            left = [n.func.id for n in astx.walk_nodes(lam) if isinstance(n, ast.Call) and isinstance(n.func, ast.Name) and n.func.id in top_inlinable]
            if left:
                ctx.violation("inlinable-helper-left-as-call", f"{c['text']}: helper(s) {left} called positionally were not replaced by their body: {astx.unparse(lam)[:250]}", witness)
                continue
            ctx.count("inlined-positional-calls-checked")
        if c["multi"]:
            names = [n.func.id for n in astx.walk_nodes(lam) if isinstance(n, ast.Call) and isinstance(n.func, ast.Name)]
            if not any(h in names for h in c["helpers"]):
                ctx.violation("non-inlinable-helper-not-left-by-name", f"{c['text']}: two-statement helper {c['helpers']} is not called by name in {astx.unparse(lam)[:250]}", witness)
                continue
            ctx.count("non-inlinable-left-by-name")
        if len(ctx.samples) < 4 and nt and rnd.random() < 0.02:
            ctx.sample({"lambda": c["text"], "helpers": witness["helpers"][:3], "recorded": astx.unparse(lam)[:300]})
    modgen.unload(m)
    # (registrations made by the generated file do not outlive it)
    from func_adl import type_based_replacement as _tbr

    for name in [n for n in list(_tbr._global_functions) if n[:1] == "h" and n[1:].isdigit()]:
        _tbr._global_functions.pop(name, None)


DIRECTED = modgen.DS_HEADER + '''
def ident(x): return x
def const(x): return 7
def sh(x): return x.jets.Select(lambda x: x.pt)
def addy(x): return x.jets.Select(lambda y: x.w + y.pt)
def two(x, y): return x.f(y)
def outer(x): return two(x.a, x.b)
def add3(a): return lambda y: lambda z: a * 100 + y * 10 + z
def d7(ds): return ds.Select(lambda z: add3(z)(2)(3))
def p7(): return lambda z: add3(z)(2)(3)
def deep(a): return a.c.Select(lambda y: y.d.Select(lambda z: z.q + y.r + a.s))
def d8(ds): return ds.Select(lambda z: deep(z.k))
def p8(): return lambda z: deep(z.k)
# --- round 5: parameter kinds, defaults, new names, what must not be inlined
def inner_kw(x, *, k=1): return x.f(k)
def outer_kw(k): return inner_kw(k, k=k.n)
def add_to_all(x): return x.vals.Select(lambda q, y=x: q.g(y.off))
def table(a): return a.rows.Select(lambda x_2: a.cols.Select(lambda x: x.h(x_2)))
def five_plus(a): return (lambda x, *rest: a.f(x, rest))(x=5)
SHIFT = 1
def shifted(x, by=SHIFT, *, kby=SHIFT): return x.f(by, kby)
SHIFT = 2
class Calib:
    def corrected(self, x): return x.c(1)
corrected = Calib().corrected
import functools
def doubled(fn):
    @functools.wraps(fn)
    def w(*a): return fn(*a).twice
    return w
@doubled
def next_one(x): return x.nxt
def registered(f): return lambda g: g
@registered(lambda x: x.decoy)
def after_deco(x): return x.real
def nothing(x): return
def make_shift(fn, k):
    def shift_helper(x): return fn(x).plus(k)
    return shift_helper
plus_1 = make_shift(ident, 1)
plus_1_then_10 = make_shift(plus_1, 10)
def recursive_helper(x): return recursive_helper(x.next) if x.more else x.last
def d18(ds): return ds.Select(lambda e: (plus_1_then_10(e.v), plus_1(e.w)))
def p18(): return lambda e: (plus_1_then_10(e.v), plus_1(e.w))
def d9(ds): return ds.Select(lambda e: outer_kw(e))
def d10(ds): return ds.Select(lambda e: add_to_all(e))
def d11(ds): return ds.Select(lambda x: table(x))
def d12(ds): return ds.Select(lambda x: five_plus(x))
def d13(ds): return ds.Select(lambda e: shifted(e.v))
def d14(ds): return ds.Select(lambda e: corrected(e.v))
def d15(ds): return ds.Select(lambda e: next_one(e.v))
def d16(ds): return ds.Select(lambda e: after_deco(e))
def d17(ds): return ds.Select(lambda e: (nothing(e), e.v))
def p9(): return lambda e: outer_kw(e)
def p10(): return lambda e: add_to_all(e)
def p11(): return lambda x: table(x)
def p12(): return lambda x: five_plus(x)
def p13(): return lambda e: shifted(e.v)
def p14(): return lambda e: corrected(e.v)
def p15(): return lambda e: next_one(e.v)
def p16(): return lambda e: after_deco(e)
def p17(): return lambda e: (nothing(e), e.v)
# a helper that stays a call by name (two statements), reached through a helper, where the call site binds that very name
def scale2(v):
    w = v.scaled
    return w
def inner_s(v): return scale2(v)
def outer_s(scale2): return (inner_s(scale2.a), scale2.b)
def d19(ds): return ds.Select(lambda e: outer_s(e))
def p19(): return lambda e: outer_s(e)
def d20(ds): return ds.Select(lambda scale2: inner_s(scale2))
def p20(): return lambda scale2: inner_s(scale2)
def d21(ds): return ds.Select(lambda e: e.jets.Select(lambda scale2: (inner_s(e), scale2.pt)))
def p21(): return lambda e: e.jets.Select(lambda scale2: (inner_s(e), scale2.pt))
# defaults that are no plain literals: the value python kept when the helper was defined
K_T = (100, 200)
def make_k():
    K_T = (10, 20)
    def helper_k(x, k=K_T): return x.f(k[0])
    return helper_k
helper_k = make_k()
def d22(ds): return ds.Select(lambda e: helper_k(e))
def p22(): return lambda e: helper_k(e)
T_B = (1, 2)
def h_b(x, k=T_B): return x.f(k[1])
T_B = (50, 60)
def d23(ds): return ds.Select(lambda e: h_b(e))
def p23(): return lambda e: h_b(e)
def make_lim():
    limits = (3, 4)
    def h_c(x, k=limits): return x.f(k[1])
    return h_c
h_c = make_lim()
def d24(ds): return ds.Select(lambda e: h_c(e))
def p24(): return lambda e: h_c(e)
# a default that is itself a function, its name given to another function afterwards
def to_gev(x): return x.gev
def calibrated(pt, scale=to_gev, *, kscale=to_gev): return (scale(pt), kscale(pt))
def to_gev(x): return x.something_else
def d26(ds): return ds.Select(lambda e: calibrated(e.v))
def p26(): return lambda e: calibrated(e.v)
# a helper whose own body captures something that cannot be sent: refused, or left by name - never pasted half-rewritten
TABLE5 = {"a": 5}
K1000 = 1000
def offset(x): return x.f(TABLE5.get("a"), K1000)
def d27(ds):
    K1000 = 7
    return ds.Select(lambda e: (offset(e), K1000))
def p27():
    K1000 = 7
    return lambda e: (offset(e), K1000)
# a lambda that a helper returns / hands on, called by keyword, its parameter named like a name in use at the call site
def adder(n): return lambda x: x.plus(n)
def d28(ds): return ds.Select(lambda x: adder(x)(x=x.v))
def p28(): return lambda x: adder(x)(x=x.v)
def call_with_y(f, v): return f(y=v)
def plus_one(x): return call_with_y(lambda y: y.one, x)
def d29(ds): return ds.Select(lambda y: plus_one(y))
def p29(): return lambda y: plus_one(y)
# helpers that are handed a function and call it, or call what another helper returns; the call site's variable carries the name of
# one of their parameters
def inc_h(x): return x.inc
def apply_h(f, v): return f(v)
def bump_h(x): return adder(x)(x)
def twice_h(f, v): return f(f(v))
def compose_h(f, g, v): return f(g(v))
def d30(ds): return ds.Select(lambda v: apply_h(inc_h, v.ten))
def p30(): return lambda v: apply_h(inc_h, v.ten)
def d31(ds): return ds.Select(lambda v: apply_h(lambda q: q.add(v), v.five))
def p31(): return lambda v: apply_h(lambda q: q.add(v), v.five)
def d32(ds): return ds.Select(lambda x: bump_h(x.one))
def p32(): return lambda x: bump_h(x.one)
def d33(ds): return ds.Select(lambda f: apply_h(inc_h, f.w))
def p33(): return lambda f: apply_h(inc_h, f.w)
def d34(ds): return ds.Select(lambda v: twice_h(inc_h, v.a))
def p34(): return lambda v: twice_h(inc_h, v.a)
def d35(ds): return ds.Select(lambda g: compose_h(inc_h, lambda f: f.sq(g), g.v))
def p35(): return lambda g: compose_h(inc_h, lambda f: f.sq(g), g.v)
# functions that share ONE code object and differ in their defaults only: siblings made by a comprehension, closures of one factory
cut10, cut20 = [lambda pt, c=c: pt.gt(c) for c in (10, 20)]
def d36(ds): return ds.Select(lambda e: (cut10(e.a), cut20(e.b), cut10(e.c)))
def p36(): return lambda e: (cut10(e.a), cut20(e.b), cut10(e.c))
def make_inside(lo, hi):
    def inside(x, lo=lo, *, hi=hi): return x.between(lo, hi)
    return inside
in_a, in_b = make_inside(1, 2), make_inside(3, 4)
def d37(ds): return ds.Select(lambda e: (in_a(e.v), in_b(e.w), in_a(e.u)))
def p37(): return lambda e: (in_a(e.v), in_b(e.w), in_a(e.u))
# a default that is a function, written with a name that means nothing where the helper lives: a loop variable, a parameter of the
# factory that made the helper, a global deleted since
up2, down2 = [lambda x, f=f: f(x).two for f in (inc_h, ident)]
def d38(ds): return ds.Select(lambda e: (up2(e.a), down2(e.b)))
def p38(): return lambda e: (up2(e.a), down2(e.b))
def make_hh(g):
    def hh(x, f=g, *, kf=g): return (f(x).two, kf(x))
    return hh
made_hh = make_hh(inc_h)
def d39(ds): return ds.Select(lambda e: made_hh(e.v))
def p39(): return lambda e: made_hh(e.v)
def step_h(x): return x.step
def stepped_h(x, f=step_h): return f(x).two
del step_h
def d40(ds): return ds.Select(lambda e: stepped_h(e.v))
def p40(): return lambda e: stepped_h(e.v)
# the name=name early-binding idiom for a function that cannot be pasted (it stays a call by its name), used where that very name is
# bound by the passed lambda / an outer helper
def root_c05(x):
    y = x.sq
    return y
def dist_h(x, y, root_c05=root_c05): return root_c05(x.plus(y))
def d41(ds): return ds.Select(lambda root_c05: dist_h(root_c05, root_c05.four))
def p41(): return lambda root_c05: dist_h(root_c05, root_c05.four)
def hyp_h(root_c05): return dist_h(root_c05, root_c05.four)
def d42(ds): return ds.Select(lambda e: hyp_h(e.v))
def p42(): return lambda e: hyp_h(e.v)
# defaults on positional-only parameters, on ordinary ones behind the slash and on keyword-only ones, calls that fill some of them
def corrected_h(pt, scale=1.5, /, offset=0.25, flag=True, *, k="s"): return pt.f(scale, offset, flag, k)
def d43(ds): return ds.Select(lambda e: (corrected_h(e.a, 2.0), corrected_h(e.b), corrected_h(e.c, 2.0, 3.0, k="t"), corrected_h(e.d, flag=False)))
def p43(): return lambda e: (corrected_h(e.a, 2.0), corrected_h(e.b), corrected_h(e.c, 2.0, 3.0, k="t"), corrected_h(e.d, flag=False))
# defaults written as plain constants and REPLACED after the def (a configuration step tuning a library's helper): python calls the
# helper with what __defaults__ / __kwdefaults__ hold now
def rescaled_h(x, k=1.0, *, u="GeV"): return x.f(k, u)
rescaled_h.__defaults__ = (1.05,)
rescaled_h.__kwdefaults__["u"] = "MeV"
def d44(ds): return ds.Select(lambda e: (rescaled_h(e.a), rescaled_h(e.b, 2.0, u="keV")))
def p44(): return lambda e: (rescaled_h(e.a), rescaled_h(e.b, 2.0, u="keV"))
# a container default holding floats python does not write as literals (inf, nan)
def band_h(x, edges=(20.0, float("inf")), *, also=[float("-inf"), 1.5]): return x.between(edges[0], edges[1], also[1])
def d45(ds): return ds.Select(lambda e: band_h(e.a))
def p45(): return lambda e: band_h(e.a)
# a function that stays a call by name, called inside the CONDITION of a comprehension of the helper, under a name the passed lambda binds
def root46(k):
    y = k + 1
    return y
def pick_h(x): return x.f({k: k for k in (4, 5) if root46(k) > 5 if k < 9})
def d46(ds): return ds.Select(lambda root46: pick_h(root46.v))
def p46(): return lambda root46: pick_h(root46.v)
# defaults that are functions written as something else than a name: lambdas on the spot
def via_h(x, f=lambda v: v.two, *, g=(lambda v: v.half)): return (f(x).three, g(x))
def d47(ds): return ds.Select(lambda e: via_h(e.a))
def p47(): return lambda e: via_h(e.a)
# defaults REPLACED after the def by a tuple of another length: python gives them to the last parameters
def longer_h(x, k=2.0): return x.f(k)
longer_h.__defaults__ = (7.5, 4.0)
def shorter_h(x, a=1.0, b=2.0): return x.g(a, b)
shorter_h.__defaults__ = (9.0,)
def d48(ds): return ds.Select(lambda e: (longer_h(e.a), shorter_h(e.b, e.c)))
def p48(): return lambda e: (longer_h(e.a), shorter_h(e.b, e.c))
# a captured lambda assigned the ordinary way
add_one = lambda x: x.plus1
def d25(ds): return ds.Select(lambda e: add_one(e.v))
def p25(): return lambda e: add_one(e.v)
def d0(ds): return ds.Select(lambda e: ident(e.x))
def d1(ds): return ds.Select(lambda e: const(e.x))
def d2(ds): return ds.Select(lambda e: sh(e))
def d3(ds): return ds.Select(lambda y: addy(y.q))
def d4(ds): return ds.Select(lambda e: two(y=e.b, x=e.a))
def d5(ds): return ds.Select(lambda e: outer(e))
def d6(ds): return ds.Select(lambda e: e.jets.Select(lambda j: two(j, e)))
def p0(): return lambda e: ident(e.x)
def p1(): return lambda e: const(e.x)
def p2(): return lambda e: sh(e)
def p3(): return lambda y: addy(y.q)
def p4(): return lambda e: two(y=e.b, x=e.a)
def p5(): return lambda e: outer(e)
def p6(): return lambda e: e.jets.Select(lambda j: two(j, e))
'''


def directed(ctx):
    m = modgen.load(DIRECTED, "c05d")
    env = {n: getattr(m, n) for n in ("ident", "const", "sh", "addy", "two", "outer", "add3", "deep", "inner_kw", "outer_kw", "add_to_all", "table", "five_plus", "shifted", "corrected", "next_one", "after_deco", "nothing", "plus_1", "plus_1_then_10", "scale2", "inner_s", "outer_s", "helper_k", "h_b", "h_c", "add_one", "calibrated", "to_gev", "offset", "adder", "call_with_y", "plus_one", "inc_h", "apply_h", "bump_h", "twice_h", "compose_h", "cut10", "cut20", "in_a", "in_b", "up2", "down2", "made_hh", "stepped_h", "root_c05", "dist_h", "hyp_h", "corrected_h", "rescaled_h", "band_h", "pick_h", "root46", "via_h", "longer_h", "shorter_h")}
    tags = ["bare-parameter", "constant-body", "nested-lambda-shadows-parameter", "argument-captured-by-inner-binder", "reordered-keywords", "helper-calls-helper", "call-in-nested-lambda", "curried-two-deep-lambdas-argument-names-innermost", "two-deep-nested-lambdas-argument-names-innermost",
            "keyword-only-parameter-hides-argument", "default-of-a-lambda-that-stays", "new-name-already-bound-in-scope", "keyword-of-a-call-that-stays", "default-bound-at-definition",
            "bound-method", "functools-wraps-wrapper", "lambda-on-the-decorator-line", "bare-return", "closures-of-one-factory-calling-each-other",
            "free-name-of-inner-helper-vs-outer-helper-parameter", "free-name-of-helper-vs-lambda-parameter", "free-name-of-helper-vs-nested-lambda-parameter",
            "tuple-default-shadowing-a-global", "tuple-default-global-rebound-later", "tuple-default-from-enclosing-function", "assigned-lambda", "function-default-name-rebound-later",
            "helper-captures-something-unsendable", "returned-lambda-called-by-keyword", "handed-on-lambda-called-by-keyword",
            "handed-a-helper-argument-names-its-parameter", "handed-a-lambda-that-mentions-the-call-site-variable", "calls-what-a-helper-returns-with-its-own-parameter",
            "call-site-variable-named-like-the-function-parameter", "function-parameter-called-twice", "two-function-parameters-composed",
            "sibling-lambdas-of-one-comprehension-differing-in-defaults", "closures-of-one-factory-differing-in-defaults",
            "function-default-written-with-a-loop-variable", "function-default-written-with-a-factory-parameter", "function-default-whose-name-was-deleted",
            "early-bound-function-name-bound-by-the-passed-lambda", "early-bound-function-name-bound-by-an-outer-helper",
            "defaults-on-positional-only-ordinary-and-keyword-only-parameters", "constant-defaults-replaced-after-the-def", "tuple-default-holding-inf", "function-called-in-a-comprehension-condition-named-like-the-lambda-parameter", "function-defaults-written-as-lambdas-on-the-spot", "defaults-replaced-by-a-tuple-of-another-length"]
    for i, tag in enumerate(tags):
        ctx.case("directed:" + tag, True)
        expected = probe.behaviour(getattr(m, f"p{i}")())
        try:
            s = getattr(m, f"d{i}")(m.DS())
        except ValueError as e:
            if tag == "helper-captures-something-unsendable":
                ctx.count("refused-unsendable-capture-of-a-helper")
                continue
            if tag.startswith("tuple-default") and "Invalid constant type" in str(e):
                # the value python kept for the default is no transportable literal: refused like a captured variable holding it (C04)
                ctx.count("refused-non-transportable-default")
                continue
            ctx.violation("exc:ValueError@directed", f"directed {tag}: ValueError: {e}", {"directed": tag})
            continue
        except Exception as e:
            ctx.violation(f"exc:{type(e).__name__}@directed", f"directed {tag}: {type(e).__name__}: {e}", {"directed": tag})
            continue
        lam = s.query_ast.args[1]
        try:
            got = probe.behaviour(probe.compile_lambda(lam, env))
        except Exception as e:
            got = frozenset([((), f"<compile/eval failed: {type(e).__name__}: {e}>")])
        if got != expected:
            why = "unbound-name" if any("NameError" in r for _, r in got) else "different-value"
            ctx.violation(f"inlined-helper-misbehaves:{why}", f"directed {tag}: expected {probe.describe(expected, 2)}, recorded {astx.unparse(lam)} gives {probe.describe(got, 2)}", {"directed": tag})
    modgen.unload(m)


def shard_main(ctx):
    if ctx.shard == 0:
        directed(ctx)
    for f in range(N_FILES[ctx.tier]):
        if ctx.out_of_time():
            ctx.count("stopped-by-time-budget")
            break
        run_file(ctx, random.Random((ctx.seed * 1000 + ctx.shard) * 7919 + f + 5))
        ctx.count("files")
    modgen.cleanup()


def replay(ctx, witness):
    if "directed" in witness:
        directed(ctx)
        modgen.cleanup()
        return
    helpers = witness["helpers"]
    src = modgen.DS_HEADER + "".join(helpers) + f"def case0(ds):\n    return ds.Select({witness['lambda']})\ndef py0():\n    return ({witness['lambda']})\n"
    try:
        m = modgen.load(src, "c05r")
    except Exception as e:
        ctx.count("replay-module-failed:" + type(e).__name__)
        return
    names = [h.split("(")[0].split()[-1] if h.startswith("def") else h.split("=")[0].strip() for h in helpers]
    env = {n: getattr(m, n) for n in names if hasattr(m, n)}
    expected = probe.behaviour(m.py0())
    try:
        lam = m.case0(m.DS()).query_ast.args[1]
        got = probe.behaviour(probe.compile_lambda(lam, env))
    except Exception as e:
        got = frozenset([((), f"<{type(e).__name__}: {e}>")])
    if got != expected:
        ctx.violation("inlined-helper-misbehaves:replay", f"{witness['lambda']}: expected {probe.describe(expected, 2)} got {probe.describe(got, 2)}", witness)
    modgen.cleanup()
