"""C08 - type following yields the declared types (DESIGN.md section 4, C08)."""
import ast
import collections.abc
import random
import typing
from typing import Any

from .. import astx
from ..core import REPO

N_CASES = {"quick": 2000, "thorough": 500000}
TIME_BUDGET = {"quick": 60, "thorough": 270}
META = {
    "rule": "a class model with inheritance (methods found on a base class), Generic[T] and Generic[K, V] classes used parameterised as "
    "return types, generic subclasses that fix or re-order parameters, Iterable[T] subclasses (generic, generic-of-generic, concrete), a "
    "registered collection class, a dataclass, methods without return annotation; random well-typed expressions of depth <= 4 built "
    "type-directed (method chains, First, [0], Count, len, comparisons, and/or, + - * /, dict and dataclass field access, nested "
    "Select/Where on collections) through Select / SelectMany / Where sequences of 1-4 stages, nested lambda parameters re-using the names of enclosing ones (of other types); oracle: the harness's own type derivation "
    "(own MRO / type-variable substitution walk, rules taken from the property statement) vs stream.item_type and the third result of "
    "remap_by_types; sequences are accepted as any type whose element type (own walk) equals the expected element type; a non-boolean "
    "Where must raise ValueError; distinct by lambda text; non-trivial = the expected type involves a substituted type variable, an "
    "inherited method, a promotion or a nested collection operator",
    "assumptions": [
        "types of tuple / list literals and plain attribute access on non-dataclass objects are not promised and not generated",
        "unary operators, abs() of int and conditionals are not part of the statement and not judged",
    ],
    "floor_evaluations": {"quick": 5000, "thorough": 100000},
    "floor_nontrivial": {"quick": 1500, "thorough": 30000},
    "anchors": ["func_adl/type_based_replacement.py", "func_adl/util_types.py", "func_adl/object_stream.py"],
}

MODEL_SRC = '''
from dataclasses import dataclass
from typing import Iterable, TypeVar, Generic, Any, Protocol, Self
import ast as _ast
import collections.abc as _abc
from func_adl import register_func_adl_os_collection, func_adl_callback
from func_adl.type_based_replacement import ObjectStreamInternalMethods
def _cb_new_node(s, a):
    # a callback that returns a NEW call node (same content) instead of the one it was handed
    return s, _ast.Call(func=a.func, args=list(a.args), keywords=list(a.keywords))
T = TypeVar('T'); U = TypeVar('U'); K = TypeVar('K'); V = TypeVar('V')
# functions registered for use in queries under names a lambda may well give its parameter (the parameter is what the name means there)
from func_adl import func_adl_callable
@func_adl_callable()
def j(a: float = 1.0) -> float: ...
@func_adl_callable()
def x(a: float = 1.0) -> float: ...
class MyIter(Iterable[T]):
    def own_first(self) -> T: ...
    def size(self) -> int: ...
class MyIter2(MyIter[U]):
    def second(self) -> U: ...
@register_func_adl_os_collection
class RegColl(ObjectStreamInternalMethods[T]):
    def __init__(self, a, item_type=Any):
        super().__init__(a, item_type)
    def Last(self) -> T: ...
    def Take(self, n: int = 5) -> 'RegColl[T]': ...
class Box(Generic[T]):
    def get(self) -> T: ...
    def n(self) -> int: ...
    def same_box(self) -> Self: ...
class Pair(Generic[K, V]):
    def key(self) -> K: ...
    def val(self) -> V: ...
class Swap(Pair[V, K]):
    def first_of_swap(self) -> K: ...
# explicit Generic[...] next to the real base: the class declares its variables in another order / more of them than the base uses
class Keyed(Iterable[V], Generic[K, V]):
    def keyof(self) -> K: ...
    def lead_v(self) -> V: ...
class Flip(Pair[U, T], Generic[T, U]):
    def mine(self) -> T: ...
# user classes that happen to be named like names in the typing module
class Container(Iterable[T]):
    def c_first(self) -> T: ...
class JetContainer(Container[T]):
    def jc_n(self) -> int: ...
class Collection(Generic[T]):
    def get(self) -> T: ...
class SubCollection(Collection[T]):
    def sub_get(self) -> T: ...
class Plain0:
    def tag(self) -> int: ...
class GenFirst(Generic[T], Plain0):
    def gf(self) -> T: ...
# a structural (Protocol) class declares its type variables the way Generic does
class HasLead(Protocol[T]):
    def plead(self) -> T: ...
    def pcount(self) -> int: ...
# a collection class whose type parameter is NOT its item type: a sequence of sequences of T
class Jagged(ObjectStreamInternalMethods[Iterable[T]]):
    def flat(self) -> Iterable[T]: ...
# the abstract base class spelled the collections.abc way
import collections.abc as _abc
class AbcColl(_abc.Iterable[T]):
    def abc_first(self) -> T: ...
    def abc_size(self) -> int: ...
class Node:
    # self-referential model: quoted forward references, also nested inside generic annotations
    def parent(self) -> "Node": ...
    def children(self) -> Iterable["Node"]: ...
    def kids(self) -> MyIter["Node"]: ...
    def link(self) -> Pair["Node", float]: ...
    def weight(self) -> float: ...
    def depth(self) -> int: ...
class Base:
    def base_pt(self) -> float: ...
    def base_n(self) -> int: ...
    def noann(self): ...
    # the object's own type, whatever subclass it is (typing.Self)
    def me(self) -> Self: ...
    def peers(self) -> Iterable[Self]: ...
    def groups(self) -> Iterable[Iterable[Self]]: ...
    def abc_peers(self) -> _abc.Iterable[Self]: ...
class Trk(Base):
    def pt(self) -> float: ...
    def charge(self) -> int: ...
    def good(self) -> bool: ...
class IntBox(Box[int]):
    def inc(self) -> int: ...
class TrkVec(MyIter[Trk]):
    def special(self) -> Trk: ...
@dataclass
class Info:
    n: int
    x: float
    t: Trk
    # a dataclass can have methods too
    def twice(self) -> int: ...
    def best(self, k: int = 2) -> Trk: ...
    def all_t(self) -> Iterable[Trk]: ...
class Jet(Base):
    def pt(self) -> float: ...
    def ntrk(self) -> int: ...
    def tagged(self) -> bool: ...
    def trks(self) -> Iterable[Trk]: ...
    def trks_my(self) -> MyIter[Trk]: ...
    def trks2(self) -> MyIter2[Trk]: ...
    def trks_vec(self) -> TrkVec: ...
    def trks_reg(self) -> RegColl[Trk]: ...
    def lead(self) -> Trk: ...
    def box(self) -> Box[Trk]: ...
    def pair(self) -> Pair[Trk, float]: ...
@func_adl_callback(_cb_new_node)
class Vtx(Base):
    def z(self) -> float: ...
    def ntrk(self) -> int: ...
    def lead(self) -> Trk: ...
    def trks(self) -> Iterable[Trk]: ...
    def trks_my(self) -> MyIter[Trk]: ...
    def box(self) -> Box[Trk]: ...
    @func_adl_callback(_cb_new_node)
    def best(self) -> Trk: ...
# several bases, the one that matters not the first
class Named:
    def name_len(self) -> int: ...
class Other(Generic[T]):
    def it(self) -> T: ...
class NamedBox(Named, Box[U]):
    def nb(self) -> U: ...
class TwoBases(Box[Jet], Other[Trk]):
    pass
class NamedColl(Named, Iterable[Jet]):
    pass
@dataclass
class W(Generic[T]):
    value: T
    n: int
    vals: Iterable[T]
@dataclass
class WJ(W[Jet]):
    extra: float
# classes whose bases are all written as plain names (python hands them the first base's __orig_bases__)
class JetBox(Box[Jet]):
    pass
class TrkHolder(Other[Trk]):
    pass
class Both(JetBox, TrkHolder):
    pass
class TrkIter2(MyIter[Trk]):
    pass
class BoxAndIter(JetBox, TrkIter2):
    pass
# a generic collection named without its argument
class SubBare(MyIter):
    def sb(self) -> int: ...
# a dataclass that is a sequence as well
@dataclass
class JetGroup(Iterable[Jet]):
    gname: str
    radius: float
# a class and its generic base that carry the SAME name (this experiment's Jets built on a generic package's Jets)
_generic_pkg = {}
exec(chr(10).join(["from typing import Generic, Iterable, TypeVar", "T = TypeVar('T')", "class NJets(Generic[T]):", "    def leading(self) -> T: ...", "    def every(self) -> Iterable[T]: ...", "    def nj(self) -> int: ..."]), _generic_pkg)
class NJets(_generic_pkg["NJets"][Jet]):
    def n_b(self) -> int: ...
class Event(Base):
    def njets(self) -> NJets: ...
    def both(self) -> Both: ...
    def boxiter(self) -> BoxAndIter: ...
    def bare(self) -> MyIter: ...
    def subbare(self) -> SubBare: ...
    def jgroup(self) -> JetGroup: ...
    def jag(self) -> Jagged[Trk]: ...
    def haslead(self) -> HasLead[Jet]: ...
    def jets_abc(self) -> AbcColl[Jet]: ...
    def rawbox(self) -> Box: ...
    def things(self) -> Iterable: ...
    def nbox(self) -> NamedBox[Jet]: ...
    def two(self) -> TwoBases: ...
    def ncoll(self) -> NamedColl: ...
    def w(self) -> W[Jet]: ...
    def wj(self) -> WJ: ...
    def jc(self) -> JetContainer[Jet]: ...
    def sc(self) -> SubCollection[Trk]: ...
    def keyed(self) -> Keyed[float, Jet]: ...
    def keyed_t(self) -> Keyed[Jet, Trk]: ...
    def flip(self) -> Flip[Jet, Trk]: ...
    def genfirst(self) -> GenFirst[Jet]: ...
    def vtx(self) -> Vtx: ...
    def vtxs(self) -> Iterable[Vtx]: ...
    def jets_boxed(self) -> Box[Iterable[Jet]]: ...
    def jets(self) -> Iterable[Jet]: ...
    def jets_my(self) -> MyIter[Jet]: ...
    def jets2(self) -> MyIter2[Jet]: ...
    def jets_reg(self) -> RegColl[Jet]: ...
    def met(self) -> float: ...
    def nvtx(self) -> int: ...
    def ok(self) -> bool: ...
    def info(self) -> Info: ...
    def pair(self) -> Pair[Jet, Trk]: ...
    def swap(self) -> Swap[Jet, Trk]: ...
    def ibox(self) -> IntBox: ...
    def lead(self) -> Jet: ...
    def nested(self) -> Iterable[Iterable[Trk]]: ...
    def tree(self) -> Node: ...
    def forest(self) -> Iterable["Node"]: ...
'''

# history: a second collection class, registered only after the shard has already followed types through many queries
LATE_SRC = '''
@register_func_adl_os_collection
class LateColl(ObjectStreamInternalMethods[T]):
    def __init__(self, a, item_type=Any):
        super().__init__(a, item_type)
    def Leading(self) -> T: ...
    def SumPt(self) -> float: ...
    def Pairs(self) -> Iterable[Pair[T, T]]: ...
'''
LATE = [False]

# ---- the harness's own type machinery (independent of func_adl.util_types) ------------------


def _subst(t, mapping):
    if isinstance(t, typing.TypeVar):
        return mapping.get(t, t)
    args = typing.get_args(t)
    if args:
        origin = typing.get_origin(t)
        new = tuple(_subst(a, mapping) for a in args)
        if origin is collections.abc.Iterable:
            return typing.Iterable[new[0]]
        return origin[new]
    return t


def _params(origin):
    """type variables of a class in declaration order (a class deriving from collections.abc.Iterable[T] carries no
    __parameters__ of its own: they are the variables of its bases in order of first appearance)"""
    p = getattr(origin, "__parameters__", None)
    if p is not None:
        return tuple(p)
    found = []
    for b in getattr(origin, "__orig_bases__", ()):
        for x in getattr(b, "__parameters__", ()):
            if x not in found:
                found.append(x)
    return tuple(found)


def bases_of(t):
    """parameterised bases of (possibly parameterised) type t"""
    origin = typing.get_origin(t) or t
    if not isinstance(origin, type):
        return []
    params = _params(origin)
    mapping = dict(zip(params, typing.get_args(t)))
    # (the class's OWN statement of its bases: `__orig_bases__` is inherited like any attribute, a class written with plain base
    # names only would show the first base's)
    raw = [b for b in vars(origin).get("__orig_bases__", origin.__bases__) if typing.get_origin(b) not in (typing.Generic, typing.Protocol) and b not in (typing.Generic, typing.Protocol)]
    return [_subst(b, mapping) for b in raw]


def elem_of(t):
    """element type if t is (a subtype of) Iterable[X], else None"""
    if t is typing.Iterable or t is collections.abc.Iterable:
        return Any  # written without an item type
    if typing.get_origin(t) is collections.abc.Iterable:
        return typing.get_args(t)[0]
    o = typing.get_origin(t)
    if isinstance(o, type) and o.__name__ == "ObjectStream" and o.__module__ == "func_adl.object_stream":
        # the library's own stream class: a sequence of its item type. (A collection class derived from it - RegColl[Trk],
        # Jagged[Trk] - is whatever its bases say: Jagged[Trk] is a sequence of Iterable[Trk])
        return typing.get_args(t)[0]
    for b in bases_of(t):
        if b is object or typing.get_origin(b) is typing.Generic:
            continue
        e = elem_of(b)
        if e is not None:
            # (a generic collection named without its argument: its items can be anything)
            return Any if _has_typevar(e) else e
    return None


def _self_is(ann, recv):
    """typing.Self in a method's annotation is the type of the object the method is called on"""
    if ann is typing.Self:
        return recv
    args = typing.get_args(ann)
    if args:
        new = tuple(_self_is(a, recv) for a in args)
        if any(n is not a for n, a in zip(new, args)):
            origin = typing.get_origin(ann)
            return typing.Iterable[new[0]] if origin is collections.abc.Iterable else origin[new]
    return ann


def method_ret(t, name, recv=None):
    """declared return type of method ``name`` on type t with type variables substituted, or KeyError"""
    origin = typing.get_origin(t) or t
    if isinstance(origin, type) and name in origin.__dict__:
        f = origin.__dict__[name]
        if "return" not in f.__annotations__:
            return Any
        ann = typing.get_type_hints(f, globalns=NS)["return"]  # resolves quoted / nested forward references
        params = _params(origin)
        return _self_is(_subst(ann, dict(zip(params, typing.get_args(t)))), recv if recv is not None else t)
    for b in bases_of(t):
        if b is object or typing.get_origin(b) is typing.Generic:
            continue
        try:
            return method_ret(b, name, recv if recv is not None else t)
        except KeyError:
            continue
    raise KeyError(name)


def _has_typevar(t):
    return isinstance(t, typing.TypeVar) or any(_has_typevar(a) for a in typing.get_args(t))


def field_types(t):
    """fields of a (generic, inherited) dataclass type with type variables substituted; {} if t is no dataclass"""
    import dataclasses

    origin = typing.get_origin(t) or t
    if not (isinstance(origin, type) and dataclasses.is_dataclass(origin)):
        return {}
    out = {}
    for b in bases_of(t):
        out.update(field_types(b))
    own = origin.__dict__.get("__annotations__", {})
    hints = typing.get_type_hints(origin, globalns=NS)
    mapping = dict(zip(_params(origin), typing.get_args(t)))
    for name in own:
        out[name] = _subst(hints[name], mapping)
    return out


def same_type(got, exp):
    if exp is Any:
        return got is Any
    e = elem_of(exp) if not isinstance(exp, type) or exp not in (int, float, bool, str) else None
    if e is not None:
        g = elem_of(got) if got is not Any else None
        return g is not None and same_type(g, e)
    if got == exp:
        return True
    # generic aliases: the same class with arguments that are the same types (typing.Iterable[X] and collections.abc.Iterable[X] are
    # two spellings of one type, also as an argument of another alias)
    go, eo = typing.get_origin(got), typing.get_origin(exp)
    ga, ea = typing.get_args(got), typing.get_args(exp)
    if go is not None and go is eo and len(ga) == len(ea) and ga:
        return all(same_type(x, y) if y is not Any else x is Any for x, y in zip(ga, ea))
    return False


NS = {}
SCALARS = (int, float, bool)


class TGen:
    """type-directed expression generator: every production returns (text, type, interesting)"""

    def __init__(self, rnd):
        self.r = rnd
        self.k = 0
        self.interesting = False

    def methods(self, t):
        out = []
        seen = set()
        todo = [t]
        while todo:
            x = todo.pop(0)
            origin = typing.get_origin(x) or x
            if not isinstance(origin, type) or origin is object or origin.__module__.startswith("func_adl"):
                continue
            for name, f in origin.__dict__.items():
                if callable(f) and not name.startswith("_") and name not in seen and name not in ("Select", "Where", "SelectMany", "First", "Count", "Take"):
                    seen.add(name)
                    out.append((name, origin is not (typing.get_origin(t) or t)))
            todo.extend(b for b in bases_of(x) if typing.get_origin(b) is not typing.Generic and typing.get_origin(b) is not collections.abc.Iterable)
        return out

    def var(self):
        self.k += 1
        if self.r.random() < 0.35:
            self.interesting = True
            return self.r.choice(["e", "x", "j"])  # may shadow the enclosing lambda's parameter (of another type)
        return f"v{self.k}"

    def expr(self, text, t, d, want=None):
        """extend an expression of type t by up to d steps; returns (text, type)"""
        r = self.r
        for _ in range(d):
            if t in SCALARS or t is Any or t is str:
                break
            e = elem_of(t)
            choices = []
            if e is not None:
                choices += ["First", "Count", "len", "sub0", "Where", "Select", "own", "regop", "slice"]
            fields = {k: ft for k, ft in field_types(t).items() if not _has_typevar(ft)}
            if fields:
                choices += ["field", "fieldsub"] * (1 if t is NS["Info"] else 3)
            ms = [m for m in self.methods(t) if m[0] not in ("Last",) or True]
            if ms:
                choices += ["method"] * 3
            if not choices:
                break
            c = r.choice(choices)
            if c == "own" and not ms:
                continue
            if c == "method" or c == "own":
                name, inherited = r.choice(ms)
                try:
                    rt = method_ret(t, name)
                except KeyError:
                    break
                if _has_typevar(rt):
                    break  # (a class written without its arguments, `-> Box`: nothing is promised for `get() -> T`)
                if typing.get_args(t) or inherited:
                    self.interesting = True
                text, t = f"{text}.{name}()", rt
            elif c == "regop":
                # operators that registered collection classes add to every sequence (RegColl from the start, LateColl later)
                ops = [("Last", e)] + ([("Leading", e), ("SumPt", float), ("Pairs", typing.Iterable[NS["Pair"][e, e]])] if LATE[0] else [])
                name, rt = r.choice(ops)
                self.interesting = True
                self.regops = getattr(self, "regops", 0) + (1 if name != "Last" else 0)
                text, t = f"{text}.{name}()", rt
            elif c == "First":
                text, t = f"{text}.First()", e
            elif c == "sub0":
                text, t = f"{text}[0]", e
            elif c == "slice":
                # a part of a sequence is a sequence of the same kind (a slice of a list is a list, of a str a str)
                self.slices = getattr(self, "slices", 0) + 1
                self.interesting = True
                text, t = f"{text}[{r.choice(['0:2', '1:', ':3', '::2', ':'])}]", t
            elif c == "Count":
                text, t = f"{text}.Count()", int
            elif c == "len":
                text, t = f"len({text})", int
            elif c == "Where":
                v = self.var()
                b = self.boolean(v, e, 1)
                if b is None:
                    continue
                self.interesting = True
                text, t = f"{text}.Where(lambda {v}: {b})", typing.Iterable[e]
            elif c == "Select":
                v = self.var()
                bt, btype = self.expr(v, e, r.randint(1, 2))
                if btype is Any:
                    continue
                self.interesting = True
                text, t = f"{text}.Select(lambda {v}: {bt})", typing.Iterable[btype]
            elif c == "field":
                f, ft = r.choice(sorted(fields.items()))
                if typing.get_args(t) or t is not NS["Info"]:
                    self.interesting = True
                text, t = f"{text}.{f}", ft
            elif c == "fieldsub":
                f, ft = r.choice(sorted(fields.items()))
                text, t = f"{text}['{f}']", ft
        return text, t

    def scalar(self, v, vt, d):
        """a numeric expression over variable v: vt -> (text, type) or None"""
        r = self.r
        if r.random() < 0.1:
            # arithmetic on two truth values is a number (True + True == 2): int, float for /
            b1, b2 = self.boolean(v, vt, 0), self.boolean(v, vt, 0)
            if b1 is not None and b2 is not None:
                op = r.choice(["+", "-", "*", "/"])
                self.interesting = True
                self.bool_arith = getattr(self, "bool_arith", 0) + 1
                return f"(({b1}) {op} ({b2}))", (float if op == "/" else int)
        for _ in range(6):
            text, t = self.expr(v, vt, r.randint(1, 3))
            if t in (int, float):
                break
        else:
            return None
        if r.random() < 0.12:
            # a sign in front keeps the type of a number (and makes a number of a truth value: -True == -1)
            self.unary = getattr(self, "unary", 0) + 1
            self.interesting = True
            if r.random() < 0.3:
                b1 = self.boolean(v, vt, 0)
                if b1 is not None:
                    # (~True is -2: a number, like -True)
                    return f"({r.choice(['-', '~', '+'])}({b1}))", int
            if t is int and r.random() < 0.3:
                return f"(~{text})", int
            text = f"({r.choice(['-', '+'])}{text})"
        if d > 0 and r.random() < 0.5:
            o = self.scalar(v, vt, d - 1)
            other, ot = o if o is not None and r.random() < 0.7 else r.choice([("1", int), ("2.5", float), ("3", int)])
            op = r.choice(["+", "-", "*", "/"])
            rt = float if (op == "/" or float in (t, ot)) else int
            self.interesting = True
            return f"({text} {op} {other})", rt
        return text, t

    def boolean(self, v, vt, d):
        r = self.r
        k = r.random()
        if k < 0.25:
            for _ in range(4):
                text, t = self.expr(v, vt, r.randint(1, 3))
                if t is bool:
                    return text
        s = self.scalar(v, vt, 1)
        if s is None:
            return None
        b = f"{s[0]} {r.choice(['>', '<', '==', '>='])} {r.choice(['1', '2.5'])}"
        if r.random() < 0.1:
            self.unary = getattr(self, "unary", 0) + 1
            b = f"(not {s[0]})" if r.random() < 0.5 else f"(not ({b}))"
        if d > 0 and r.random() < 0.4:
            o = self.boolean(v, vt, d - 1)
            if o is not None:
                if r.random() < 0.3:
                    # the numpy-style cut: & | ^ of two truth values is a truth value
                    self.bitops = getattr(self, "bitops", 0) + 1
                    self.interesting = True
                    return f"(({b}) {r.choice(['&', '|', '^'])} ({o}))"
                return f"({b} {r.choice(['and', 'or'])} {o})"
        return b

    def dict_expr(self, v, vt):
        """{'a': X, 'b': Y}.a / ['b']  -> field's type"""
        parts = []
        for key in ("a", "b"):
            text, t = self.expr(v, vt, self.r.randint(1, 3))
            parts.append((key, text, t))
        if self.r.random() < 0.35:
            # a key that is no identifier next to the ordinary ones; which type it holds varies from literal to literal in one process
            text, t = self.expr(v, vt, self.r.randint(1, 2))
            parts.append((self.r.choice(["n-jets", "class", "jet pt", "2nd"]), text, t))
            self.odd_keys = getattr(self, "odd_keys", 0) + 1
        key, _, t = self.r.choice(parts)
        if self.r.random() < 0.2:
            # a key written twice holds its last value
            parts.insert(0, (key, "1.5" if t is not float else "True", None))
        body = "{" + ", ".join(f"'{k}': {x}" for k, x, _ in parts) + "}"
        if len(parts) == 2 and self.r.random() < 0.25:
            c = self.boolean(v, vt, 0)
            if c is not None:
                body = f"({body} if {c} else {{" + ", ".join(f"'{k}': {x}" for k, x, _ in reversed(parts)) + "})"
                self.records_cond = getattr(self, "records_cond", 0) + 1
        self.interesting = True
        return (f"{body}.{key}" if self.r.random() < 0.5 and key.isidentifier() and key != "class" else f"{body}['{key}']"), t


def judge_stage(ctx, stream, cur_t, rnd):
    """one operator on a stream whose item type is cur_t; returns (new stream, new type) or None"""
    from func_adl.type_based_replacement import remap_by_types

    g = TGen(rnd)
    cond_case = False
    v = rnd.choice(["e", "x", "j"])
    op = rnd.choice(["Select", "Select", "SelectMany", "Where", "Where-nonbool", "remap"])
    exp_t = None
    if op in ("Select", "remap"):
        k = rnd.random()
        if k < 0.2 and cur_t not in SCALARS:
            body, bt = g.dict_expr(v, cur_t)
        elif k < 0.45:
            s = g.scalar(v, cur_t, 2) if cur_t not in SCALARS else (f"({v} * 2)", cur_t) if cur_t is not bool else None
            if s is None:
                return None
            body, bt = s
        elif k < 0.6:
            b = g.boolean(v, cur_t, 1) if cur_t not in SCALARS else f"{v} > 1"
            if b is None:
                return None
            body, bt = b, bool
        else:
            if cur_t in SCALARS:
                return None
            body, bt = g.expr(v, cur_t, rnd.randint(1, 4))
            if rnd.random() < 0.25 and bt is not Any:
                # a conditional whose two branches reach the SAME type along different routes (e.g. once through a substituted
                # type variable, once through a literal annotation): the type of the conditional is that type
                for _ in range(8):
                    b2, bt2 = g.expr(v, cur_t, rnd.randint(1, 4))
                    if b2 != body and bt2 is not Any and (bt2 == bt) and same_type(bt2, bt):
                        c = g.boolean(v, cur_t, 0)
                        if c is not None:
                            body = f"({body} if {c} else {b2})"
                            g.interesting = True
                            cond_case = True
                        break
        exp_t = bt
    elif op == "SelectMany":
        if cur_t in SCALARS:
            return None
        for _ in range(6):
            body, bt = g.expr(v, cur_t, rnd.randint(1, 3))
            if bt is not Any and elem_of(bt) is not None:
                break
        else:
            return None
        exp_t = elem_of(bt)
    elif op == "Where":
        b = g.boolean(v, cur_t, 1) if cur_t not in SCALARS else f"{v} > 1"
        if b is None:
            return None
        body, exp_t = b, cur_t
    else:
        s = g.scalar(v, cur_t, 0) if cur_t not in SCALARS else (f"{v} + 1", cur_t)
        if s is None or s[1] is bool:
            return None
        body = s[0]
        # filters that are no numbers either: a collection, a collection annotated without its item type, a lambda, a function
        other = ["(lambda q_: q_ > 1)", "abs"] + ([f"{v}.things()", f"{v}.jets()", f"{v}.bare()", f"{v}.rawbox()"] if cur_t is NS["Event"] else [])
        if rnd.random() < 0.4:
            body = rnd.choice(other)
            ctx.count("non-boolean-filter-that-is-no-number")
    text = f"lambda {v}: {body}"
    key = f"{cur_t}|{op}|{text}"
    witness = {"op": op, "lambda": text, "stream_type": str(cur_t), "expected": str(exp_t)}
    nt = g.interesting or op in ("SelectMany",)
    try:
        if op == "remap":
            _, _, got = remap_by_types(stream, {v: cur_t}, astx.parse_expr(body))
            new = None
        elif op == "Where-nonbool":
            new = stream.Where(text)
            ctx.case(key, nt)
            ctx.violation("non-boolean-Where-accepted", f"Where({text}) on a stream of {cur_t} was accepted", witness)
            return None
        else:
            new = getattr(stream, op)(text if rnd.random() < 0.7 else astx.parse_expr(text))
            got = new.item_type
    except ValueError as e:
        ctx.case(key, nt)
        if op == "Where-nonbool":
            ctx.count("non-boolean-Where-refused")
            return None
        ctx.violation(f"undesigned-ValueError:{op}", f"{op}({text}) on {cur_t}: ValueError {str(e)[:160]}", witness)
        return None
    except Exception as e:
        ctx.case(key, nt)
        ctx.violation(f"exc:{type(e).__name__}@{astx.repo_frame(e, REPO)}", f"{op}({text}) on {cur_t}: {type(e).__name__}: {str(e)[:160]}", witness)
        return None
    ctx.case(key, nt)
    ctx.count("op:" + op)
    if cond_case:
        ctx.count("conditionals-with-equal-branch-types")
    if getattr(g, "records_cond", 0):
        ctx.count("conditionals-of-records-with-permuted-fields", g.records_cond)
    if getattr(g, "slices", 0):
        ctx.count("slices-of-sequences", g.slices)
    if getattr(g, "bitops", 0):
        ctx.count("bit-operators-on-two-truth-values", g.bitops)
    if getattr(g, "unary", 0):
        ctx.count("unary-operators", g.unary)
    if getattr(g, "bool_arith", 0):
        ctx.count("arithmetic-on-two-truth-values", g.bool_arith)
    if getattr(g, "odd_keys", 0):
        ctx.count("dictionaries-with-a-key-that-is-no-identifier", g.odd_keys)
    if getattr(g, "regops", 0):
        ctx.count("late-registered-operator-uses", g.regops)
    if not same_type(got, exp_t):
        how = "Any" if got is Any else "other"
        ctx.violation(f"wrong-type:{op}:{how}", f"{op}({text}) on a stream of {cur_t}: got {got}, annotations imply {exp_t}", witness)
        return None
    if len(ctx.samples) < 5 and nt and rnd.random() < 0.01:
        ctx.sample({"op": op, "lambda": text, "item_type_before": str(cur_t), "type_after": str(got)})
    if new is None:
        return None
    return new, exp_t


def shard_main(ctx):
    from func_adl import EventDataset

    exec(compile(MODEL_SRC, "<c08model>", "exec"), NS)

    class DS(EventDataset):
        async def execute_result_async(self, a, title=None):
            return a

    if ctx.shard in (0, 3):
        # a default value of a nested stage lambda is written OUTSIDE it: its own item parameter, named like the enclosing one, means
        # nothing there - the type of the default is what the enclosing variable gives
        for text, want in (("lambda e: e.jets().Select(lambda e, *, m=e.met(): m)", typing.Iterable[float]),
                           ("lambda e: e.jets().Select(lambda e, *, v=e.vtx(): v)", typing.Iterable[NS["Vtx"]]),
                           ("lambda e: e.jets().Select(lambda e, *, n=e.jets().Count(): e.pt() / n)", typing.Iterable[float]),
                           ("lambda e: e.jets().Select(lambda j: ~j.tagged())", typing.Iterable[int]),
                           ("lambda e: e.jets().Select(lambda j: ~j.ntrk() + 1)", typing.Iterable[int])):
            ctx.case("directed-type:" + text, True)
            ctx.count("directed-type-cases")
            try:
                got = DS(NS["Event"]).Select(text).item_type
            except Exception as e:
                ctx.violation(f"exc:{type(e).__name__}:directed-type", f"{text}: {type(e).__name__}: {str(e)[:160]}", {"text": text})
                continue
            if not same_type(got, want):
                ctx.violation("wrong-type:directed", f"Select({text}) on a stream of Event: got {got}, annotations imply {want}", {"text": text})
        for text in ("lambda e: e.jets().Where(lambda j: ~j.tagged()).Count()", "lambda e: e.jets().Where(lambda j: -j.tagged()).Count()"):
            ctx.case("where-nonbool-unary:" + text, True)
            try:
                DS(NS["Event"]).Select(text)
                ctx.violation("non-boolean-Where-accepted:unary", f"{text}: ~True is the number -2; the Where was accepted", {"text": text})
            except ValueError:
                ctx.count("non-boolean-Where-refused")
            except Exception as e:
                ctx.violation(f"exc:{type(e).__name__}:where-unary", f"{text}: {type(e).__name__}: {str(e)[:160]}", {"text": text})
        # a filter that is no truth value is refused wherever the Where is written - also inside the DEFAULT value of a parameter of a
        # nested / stage lambda (followed since the defaults are followed at all)
        for text in ("lambda e: e.jets().Select(lambda j, *, n=e.jets().Where(lambda k: k.pt()).Count(): j.pt() / n)",
                     "lambda e: e.jets().Where(lambda j, n=e.jets().Where(lambda k: k.ntrk()).Count(): j.pt() > n).Count()"):
            ctx.case("where-nonbool-in-default:" + text, True)
            ctx.count("non-boolean-Where-inside-a-default")
            try:
                DS(NS["Event"]).Select(text)
                ctx.violation("non-boolean-Where-accepted:inside-a-default", f"{text}: a Where whose filter is a number was accepted inside a default value", {"text": text})
            except ValueError:
                pass
            except Exception as e:
                ctx.violation(f"exc:{type(e).__name__}:where-in-default", f"{text}: {type(e).__name__}: {str(e)[:160]}", {"text": text})
    late_at = 150 if ctx.tier != "thorough" else 3000
    for i in range(N_CASES[ctx.tier]):
        if ctx.out_of_time():
            ctx.count("stopped-by-time-budget")
            break
        if i == late_at and not LATE[0]:
            exec(compile(LATE_SRC, "<c08late>", "exec"), NS)
            LATE[0] = True
            ctx.count("collection-class-registered-after-queries")
        rnd = random.Random((ctx.seed * 1000 + ctx.shard) * 100003 + i + 8)
        stream, t = DS(NS["Event"]), NS["Event"]
        for stage in range(rnd.randint(1, 4)):
            r = judge_stage(ctx, stream, t, rnd)
            if r is None:
                break
            stream, t = r
            if t is Any:
                break


def replay(ctx, witness):
    ctx.count("replay-not-deterministic-by-witness; re-running the quick workload of shard 0")
    N_CASES["replay"] = 400
    TIME_BUDGET["replay"] = 60
    shard_main(ctx)
