"""C14 - intermediate tuples / lists / dictionaries are compiled away (DESIGN.md section 4, C14)."""
import ast
import random

from .. import astx
from ..astx import C, N, attr, call, lam, sub
from ..core import REPO, CaseTimeout, case_timeout
from ..gen_expr import BOOL, NUM, Gen, GenFail

N_CASES = {"quick": 300, "thorough": 300000}
TIME_BUDGET = {"quick": 60, "thorough": 270}
META = {
    "rule": "linear chains of 2-6 Select/Where/SelectMany stages; intermediate Select stages package values into "
    "tuples/lists/dicts nested <=3 (never under a conditional), later stages only take them apart with constant "
    "index / key / attribute paths; scalar-final chains must come out with NO Tuple/List/Dict/Subscript node, "
    "packaged-final chains may keep constructors only in result position and never under a projection; distinct by "
    "dump of the input; non-trivial = producer and consumer >= 2 stages apart or separated by a Where/SelectMany",
    "assumptions": [
        "node-kind scan only; equality of results is C02",
        "the generator uses Subscript only to take packages apart, so any surviving Subscript is an un-eliminated projection",
    ],
    "floor_evaluations": {"quick": 2000, "thorough": 20000},
    "floor_nontrivial": {"quick": 500, "thorough": 5000},
    "threads": 3,
    "anchors": ["func_adl/ast/function_simplifier.py"],
}


class PGen(Gen):
    """Gen restricted to the C14 shape: packaging never under IfExp, no immediate literal projection,
    no called lambdas (C02 covers those)."""

    def __init__(self, rnd, naming):
        super().__init__(rnd, naming=naming, method_form=0.0, called=0.0, pack=0.0)
        # (operators nested in stage lambdas written with their keyword now and then - more often than elsewhere: whether a
        # packaged value gets through to them is exactly the shape question)
        self.keyword_operators = 0.25 if rnd.random() < 0.5 else 0.04

    def num(self, env, d):
        r = self.r
        src = [e for e, s in self.sources(env, NUM)]
        ch = r.random()
        if d <= 0 or ch < 0.45 or not src:
            return r.choice(src) if src and r.random() < 0.9 else C(r.choice([1, 2, 3]))
        if ch < 0.7:
            return ast.BinOp(left=self.num(env, d - 1), op=r.choice([ast.Add(), ast.Mult()]), right=self.num(env, d - 1))
        if ch < 0.8:
            seqs = self.sources(env, ("seq_any",))
            if seqs:
                return self.op("Count", self.seq(env, r.choice(seqs)[1], d - 1))
        if ch < 0.9:
            return ast.IfExp(test=self.boolean(env, d - 1), body=self.num(env, d - 1), orelse=self.num(env, d - 1))
        if len(src) >= 2:
            return ast.Call(func=N("fadd"), args=[r.choice(src)], keywords=[ast.keyword(arg=r.choice(["b", "k"]), value=r.choice(src))])
        return r.choice(src)

    def pack_shape(self, env, d):
        """A packaging shape over what is reachable from env."""
        r = self.r
        leafs = [NUM, NUM]
        leafs += [s for e, s in self.sources(env, ("obj_any",))][:3]
        leafs += [s for e, s in self.sources(env, ("seq_any",))][:3]

        def go(depth):
            if depth > 0 and r.random() < 0.45:
                k = r.random()
                n = r.randint(1, 3)
                if k < 0.4:
                    return ("tup", [go(depth - 1) for _ in range(n)])
                if k < 0.6:
                    return ("lst", [go(depth - 1) for _ in range(n)])
                return ("dic", {key: go(depth - 1) for key in r.sample(["a", "b", "c", "pt"], n)})
            return r.choice(leafs)

        k = r.random()
        n = r.randint(1, 3)
        wide = r.random() < 0.15  # wide records / tuples (9-16 columns), as real ntuple-style queries have
        if wide:
            n = r.randint(9, 16)
            self.feat.add("wide-packaging")
        if k < 0.45:
            return ("tup", [go(0 if wide else d) for _ in range(n)])
        if k < 0.6:
            return ("lst", [go(0 if wide else d) for _ in range(n)])
        return ("dic", {key: go(0 if wide else d) for key in r.sample(["a", "b", "c", "pt", "values", "items", "keys", "copy", "get", "update", "pop"] + [f"k{i}" for i in range(14)], n)})


def has_pack(shape):
    return shape[0] in ("tup", "lst", "dic")


def make_chain(rnd, naming):
    g = PGen(rnd, naming)
    cur = call("EventDataset")
    shape = ("obj", "Event")
    n = rnd.randint(2, 6)
    kinds = []
    last_pack_stage = None
    gap_ok = False
    final_packaged = rnd.random() < 0.35
    for i in range(n):
        v = g.fresh({})
        env = {v: shape}
        last = i == n - 1
        opts = ["Select", "Select", "Where"]
        if g.sources(env, ("seq_any",)):
            opts.append("SelectMany")
        kind = "Select" if last else rnd.choice(opts)
        try:
            if kind == "Where":
                cur = call("Where", cur, lam([v], g.boolean(env, 2)))
            elif kind == "SelectMany":
                tgt = rnd.choice(g.sources(env, ("seq_any",)))[1]
                # nested Select over a packaged sequence referring to other packaged fields
                if has_pack(shape) and tgt[1][0] == "obj" and rnd.random() < 0.5:
                    e = rnd.choice([e for e, s in g.sources(env, tgt)])
                    w = g.fresh(env)
                    inner = dict(env)
                    inner[w] = tgt[1]
                    elem = ("tup", [tgt[1], NUM])
                    body = call("Select", e, lam([w], ast.Tuple(elts=[N(w), g.num(inner, 1)], ctx=ast.Load())))
                    cur = call("SelectMany", cur, lam([v], body))
                    shape = elem
                    last_pack_stage = i
                else:
                    cur = call("SelectMany", cur, lam([v], g.seq(env, tgt, 1)))
                    shape = tgt[1]
            elif not last and rnd.random() < 0.15 and [x for x in g.sources(env, ("seq_any",)) if x[1][1][0] == "obj"]:
                # package through First(): First(Select(seq, lambda w: PACK(w, v)))
                e, s = rnd.choice([x for x in g.sources(env, ("seq_any",)) if x[1][1][0] == "obj"])
                w = g.fresh(env)
                inner = dict(env)
                inner[w] = s[1]
                tgt = g.pack_shape(inner, 1)
                packed_seq = call("Select", e, lam([w], g.expr(inner, tgt, 2)))
                if rnd.random() < 0.3:
                    # ... with a filter between the packaging Select and the First (First does not sit on the Select itself)
                    z = g.fresh(inner)
                    packed_seq = call("Where", packed_seq, lam([z], ast.Compare(left=C(1), ops=[ast.Lt()], comparators=[C(2)])))
                    g.feat.add("packaged-through-First-of-Where")
                cur = call("Select", cur, lam([v], call("First", packed_seq)))
                last_pack_stage = i
                shape = tgt
                g.feat.add("packaged-through-First")
            else:
                if last and not final_packaged:
                    tgt = NUM
                elif last:
                    tgt = g.pack_shape(env, 1)
                else:
                    tgt = g.pack_shape(env, 2) if rnd.random() < 0.75 else rnd.choice([NUM] + [s for e, s in g.sources(env, ("obj_any",))][:2])
                cur = call("Select", cur, lam([v], g.expr(env, tgt, 2)))
                if has_pack(tgt) and not last:
                    last_pack_stage = i
                shape = tgt
        except GenFail:
            continue
        kinds.append(kind)
        if last_pack_stage is not None and (i - last_pack_stage >= 2 or (kind in ("Where", "SelectMany") and i > last_pack_stage)):
            gap_ok = True
    return cur, kinds, final_packaged and has_pack(shape), gap_ok, last_pack_stage is not None


CONSTRUCTORS = (ast.Tuple, ast.List, ast.Dict)


def scan_scalar_final(out):
    bad = []
    for n in astx.walk_nodes(out):
        if isinstance(n, CONSTRUCTORS):
            bad.append("constructor " + type(n).__name__)
        elif isinstance(n, ast.Subscript):
            bad.append("projection Subscript")
    return bad


def scan_packaged_final(out):
    """Constructors only in result position; never as the value of a projection."""
    bad = []
    for n in astx.walk_nodes(out):
        if isinstance(n, (ast.Subscript, ast.Attribute)) and isinstance(n.value, CONSTRUCTORS):
            bad.append(f"projection of a {type(n.value).__name__} literal survives")
    allowed = set()

    def result_positions(e):
        """mark constructor nodes reachable from the result expression e"""
        if isinstance(e, CONSTRUCTORS):
            allowed.add(id(e))
            for c in (e.elts if not isinstance(e, ast.Dict) else e.values):
                result_positions(c)
        elif isinstance(e, ast.Call):
            # nested operator producing (part of) the result: its lambda body is result position
            args = list(e.args)
            if isinstance(e.func, ast.Name) and e.func.id in ("Select", "SelectMany", "Where", "First") and args:
                result_positions(args[0])
                if len(args) > 1 and isinstance(args[1], ast.Lambda) and e.func.id != "Where":
                    result_positions(args[1].body)
        elif isinstance(e, ast.IfExp):
            result_positions(e.body)
            result_positions(e.orelse)

    # the outermost remaining operator lambda
    top = out
    if isinstance(top, ast.Call) and len(top.args) > 1 and isinstance(top.args[1], ast.Lambda) and isinstance(top.func, ast.Name) and top.func.id in ("Select", "SelectMany"):
        result_positions(top.args[1].body)
    for n in astx.walk_nodes(out):
        if isinstance(n, CONSTRUCTORS) and id(n) not in allowed:
            bad.append(f"{type(n).__name__} constructed outside result position")
    return bad


def parameter_layouts(rnd, q):
    """stage lambdas as python lets one write them: a further parameter with a default the operator never fills - positional-only,
    ordinary, keyword-only - next to the stage variable (the chain means the same)"""
    n = 0
    node = q
    while isinstance(node, ast.Call) and isinstance(node.func, ast.Name) and node.func.id in ("Select", "Where", "SelectMany") and len(node.args) == 2:
        la = node.args[1]
        if isinstance(la, ast.Lambda) and len(la.args.args) == 1 and not la.args.posonlyargs and rnd.random() < 0.4:
            form = rnd.randrange(4)
            extra, dflt = ast.arg(arg="scale_"), C(rnd.choice([2, 1.5, 0]))
            if form == 0:
                la.args.posonlyargs, la.args.args, la.args.defaults = la.args.args + [extra], [], [dflt]
            elif form == 1:
                la.args.posonlyargs, la.args.args, la.args.defaults = la.args.args, [extra], [dflt]
            elif form == 2:
                la.args.args, la.args.defaults = la.args.args + [extra], [dflt]
            else:
                la.args.kwonlyargs, la.args.kw_defaults = [extra], [dflt]
            n += 1
        node = node.args[0]
    return n


def judge(ctx, q, final_packaged, gap_ok, info):
    from func_adl.ast.function_simplifier import simplify_chained_calls

    key = astx.dump_fields(q)
    try:
        # (every third case: ONE simplifier object is used for query after query, as a back end that keeps its transformer does)
        import threading as _thr

        _keep = _thr.current_thread().__dict__.setdefault("_verif_kept_simplifier", {})
        if ctx.evaluations % 3 == 1:
            _simp = _keep.setdefault("s", simplify_chained_calls())
            ctx.count("cases-simplified-by-a-reused-simplifier-object")
        else:
            _simp = simplify_chained_calls()
        out = _simp.visit(astx.clone(q))
    except Exception as e:
        ctx.count("skipped:simplifier-raised:" + type(e).__name__)  # totality is C18's
        return
    out = astx.clone(out)
    bad = scan_packaged_final(out) if final_packaged else scan_scalar_final(out)
    ctx.case(key, nontrivial=gap_ok)
    ctx.count("class:packaged-final" if final_packaged else "class:scalar-final")
    if bad:
        kind = bad[0].split(" ")[0] + ("-packaged-final" if final_packaged else "-scalar-final")
        ctx.violation(
            "survives:" + kind,
            f"{bad[:3]} | in: {astx.unparse(q)[:500]} | out: {astx.unparse(out)[:500]}",
            {"query": astx.unparse(q), "final_packaged": final_packaged, "info": info},
        )
    elif len(ctx.samples) < 4 and gap_ok and ctx.rnd.random() < 0.03:
        ctx.sample({"in": astx.unparse(q), "out": astx.unparse(out), "final_packaged": final_packaged})


DIRECTED = [
    # packaged through First() in one stage, taken apart by attribute / key / index in the next
    ("Select(Select(Where(EventDataset(), lambda e: Count(e.jets) > 0), lambda e: First(Select(e.jets, lambda j: {'j': j, 'm': e.met}))), lambda d: d.j.pt + d.m)", False),
    ("Select(Select(Where(EventDataset(), lambda e: Count(e.jets) > 0), lambda e: First(Select(e.jets, lambda j: {'j': j, 'm': e.met}))), lambda d: d['j'].pt + d['m'])", False),
    ("Select(Select(Where(EventDataset(), lambda e: Count(e.jets) > 0), lambda e: First(Select(e.jets, lambda j: (j, e.met)))), lambda d: d[0].pt + d[1])", False),
    ("Select(Select(Where(EventDataset(), lambda e: Count(e.jets) > 0), lambda e: First(Select(e.jets, lambda j: {'p': (j.pt, j.eta)}))), lambda d: d.p[1])", False),
    ("Select(Select(EventDataset(), lambda e: (e.x, e.y)), lambda t: t[0] + t[1])", False),
    ("Select(Where(Select(EventDataset(), lambda e: {'a': e.x, 'j': e.jets}), lambda t: t.a > 1), lambda t: Count(t.j))", False),
    ("Select(SelectMany(Select(EventDataset(), lambda e: (e.jets, e.met)), lambda t: Select(t[0], lambda j: (j, t[1]))), lambda u: u[0].pt + u[1])", False),
    ("Select(Select(Select(EventDataset(), lambda e: [e.x, (e.y, {'k': e.met})]), lambda t: t[1]), lambda u: u[1].k + u[0])", False),
    ("Select(Select(EventDataset(), lambda e: (e.x, e.y)), lambda t: (t[1], t[0]))", True),
    ("Select(Select(EventDataset(), lambda e: {'a': e.jets, 'b': e.met}), lambda t: Select(t.a, lambda j: (j.pt, t.b)))", True),
    ("Select(Select(Select(EventDataset(), lambda e: (e.jets, e.trks)), lambda t: {'n': Count(t[0]), 't': t[1]}), lambda d: Select(d.t, lambda k: k.pt * d['n']))", False),
    # a packaged field that is CALLED in a later stage (attribute name, key, through Where, nested)
    ("Select(Select(EventDataset(), lambda e: {'pt': e.m, 'x': e.x}), lambda d: d.pt() + d.x)", False),
    ("Select(Select(EventDataset(), lambda e: {'pt': e.m, 'x': e.x}), lambda d: d['pt']() + d.x)", False),
    ("Select(Where(Select(EventDataset(), lambda e: {'calc': e.m, 'x': e.x}), lambda d: d.calc() > d.x), lambda d: d.x)", False),
    ("Select(Select(EventDataset(), lambda e: (e.m, e.jets)), lambda t: Select(t[1], lambda j: j.pt + t[0]()))", False),
    # ... behind a variable that stands for a First(...)
    ("Select(Select(Where(EventDataset(), lambda e: Count(e.jets) > 0), lambda e: First(Select(e.jets, lambda j: {'p': j.m, 'q': j.eta}))), lambda d: d.p())", False),
    ("Select(Select(Where(EventDataset(), lambda e: Count(e.jets) > 0), lambda e: First(Select(e.jets, lambda j: {'p': j.m, 'q': j.eta}))), lambda d: d.p(1) + d.q)", False),
    ("Select(Select(Where(EventDataset(), lambda e: Count(e.jets) > 0), lambda e: (First(Select(e.jets, lambda j: {'p': j.m, 'q': j.eta})), e.met)), lambda t: t[0].p() + t[1])", False),
    # a packaged dictionary reached through First() of something else than the packaging Select itself
    ("Select(Select(Where(EventDataset(), lambda e: Count(e.jets) > 0), lambda e: First(SelectMany(e.jets, lambda j: Select(j.trks, lambda k: {'trk': k, 'jet': j})))), lambda d: d.trk.pt + d.jet.pt)", False),
    ("Select(Where(EventDataset(), lambda e: Count(e.jets) > 0), lambda e: First(SelectMany(e.jets, lambda j: Select(j.trks, lambda k: {'trk': k, 'jet': j}))).trk.pt)", False),
    ("Select(Where(EventDataset(), lambda e: Count(e.jets) > 0), lambda e: First(Where(Select(e.jets, lambda j: {'j': j, 'm': e.met}), lambda d: d.m > 1)).j.pt)", False),
    ("Select(Where(EventDataset(), lambda e: Count(e.jets) > 0), lambda e: First(Where(Select(e.jets, lambda j: (j, e.met)), lambda d: d[1] > 1))[0].pt)", False),
    # ... a CALLED field behind a variable that stands for such a First(..), and behind a First held by a field of another First's record
    ("Select(Select(Where(EventDataset(), lambda e: Count(e.jets) > 0), lambda e: First(SelectMany(e.jets, lambda j: Select(j.trks, lambda k: {'p': k.m, 'j': j})))), lambda d: d.p())", False),
    ("Select(Select(Where(EventDataset(), lambda e: Count(e.jets) > 0), lambda e: First(Where(Select(e.jets, lambda j: {'p': j.m, 'q': j.eta}), lambda r: r.q > 0))), lambda d: d.p(1) + d.q)", False),
    ("Select(Select(Where(EventDataset(), lambda e: Count(e.jets) > 0), lambda e: First(Select(e.jets, lambda j: {'pt': j.m, 'trk': First(Select(j.trks, lambda k: {'z': k.m, 'j': j}))}))), lambda d: d.trk.z() + d.pt())", False),
    # a star somewhere INSIDE an element of the packaged display (a starred call argument, a nested display with a spread element):
    # the display itself still has as many elements as are written
    ("Select(Select(EventDataset(), lambda e: (e.jets, fadd(*e.vals))), lambda t: Count(t[0]))", False),
    ("Select(Select(EventDataset(), lambda e: (e.met, [*e.a, e.b])), lambda t: t[0] + 1)", False),
    ("Select(Select(EventDataset(), lambda e: [e.x, e.jets.Select(lambda j: fadd(*j.v, k=1))]), lambda t: t[0] * 2)", False),
    # the packaged record passed WHOLE through a called lambda that has no parameters, or is given its arguments by keyword in another
    # order than declared
    ("Select(Select(EventDataset(), lambda e: (e.x, e.y)), lambda t: (lambda: t)()[1] + (lambda: t[0])())", False),
    ("Select(Select(EventDataset(), lambda e: {'pt': e.x, 'eta': e.y}), lambda d: (lambda: d)()['pt'] + (lambda: d)().eta)", False),
    ("Select(Select(EventDataset(), lambda e: (e.jets, e.met)), lambda t: (lambda: t[0])().Select(lambda p: p.pt + t[1]))", False),
    ("Select(Select(EventDataset(), lambda e: (e.x, e.y)), lambda t: (lambda u, k: u[0] * k)(k=2, u=t) + (lambda u, k, m: u[1] * k + m)(m=1, k=3, u=t))", False),
    # the early-binding idiom in a nested stage lambda: the packaged value goes through a default named like the enclosing binder
    ("Select(Select(EventDataset(), lambda e: (e.jets, e.met)), lambda t: Select(t[0], lambda j, t=t[1]: j.pt + t))", False),
    ("Select(Select(EventDataset(), lambda e: {'j': e.jets, 'm': e.met}), lambda t: Count(Where(t.j, lambda j, *, t=t['m']: j.pt > t)))", False),
    # stage lambdas with a defaulted parameter the operator never fills
    ("Select(Select(EventDataset(), lambda e, scale=2, /: (e.jets, e.met * scale)), lambda t: Count(t[0]) + t[1])", False),
    ("Select(Select(EventDataset(), lambda e, /, scale=2: {'j': e.jets, 'm': e.met * scale}), lambda t, *, k=1: Count(t.j) + t.m + k)", False),
    # keys that are falsy values: 0, False, the empty string
    ("Select(Select(EventDataset(), lambda e: {0: e.x, 1: e.y}), lambda d: d[0] + d[1])", False),
    ("Select(Select(EventDataset(), lambda e: {'': e.x, 'a': e.jets}), lambda d: Count(d['a']) + d[''])", False),
    ("Select(Where(Select(EventDataset(), lambda e: {False: e.x, True: e.y}), lambda d: d[False] > 1), lambda d: d[True])", False),
    # constant indices counted from the end
    ("Select(Select(EventDataset(), lambda e: (e.x, e.y)), lambda t: t[-1] + t[-2])", False),
    ("Select(Where(Select(EventDataset(), lambda e: [e.x, e.jets]), lambda t: t[-2] > 1), lambda t: Count(t[-1]))", False),
]


def shard_main(ctx):
    if ctx.shard == 0:
        for t, fp in DIRECTED:
            judge(ctx, astx.parse_expr(t), fp, True, {"directed": t})
    for i in range(N_CASES[ctx.tier]):
        if ctx.out_of_time():
            ctx.count("stopped-by-time-budget")
            break
        rnd = random.Random((ctx.seed * 1000 + ctx.shard) * 100003 + i + 14)
        naming = ["distinct", "identical", "reuse"][i % 3]
        try:
            q, kinds, fp, gap_ok, packed = make_chain(rnd, naming)
        except Exception as e:
            ctx.count("generator-failed:" + type(e).__name__)
            continue
        if not packed:
            ctx.count("trivial:no-packaging-stage")
        if astx.size(q) > 400:
            ctx.count("skipped:input-too-large")
            continue
        ctx.count("naming:" + naming)
        if rnd.random() < 0.2:
            ctx.count("stage-lambdas-given-a-defaulted-parameter", parameter_layouts(rnd, q))
        try:
            with case_timeout(4.0):
                judge(ctx, q, fp, gap_ok and packed, {"naming": naming, "stages": kinds})
        except CaseTimeout:
            ctx.count("inconclusive:case-timeout")


def replay(ctx, witness):
    judge(ctx, astx.parse_expr(witness["query"]), witness["final_packaged"], True, witness.get("info", {}))
