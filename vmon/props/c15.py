"""C15 - MetaData extraction and empty-metadata removal are exact (DESIGN.md section 4, C15)."""
import ast
import random

from .. import astx, refimpl
from ..astx import C, N, call
from ..core import CaseTimeout, case_timeout
from ..embellish import embellish
from ..gen_expr import Gen

N_CASES = {"quick": 700, "thorough": 300000}
TIME_BUDGET = {"quick": 60, "thorough": 270}
META = {
    "rule": "generated queries (C02 generator, function/method/mixed form) with 0-8 MetaData wrappers inserted at random: "
    "around the dataset, between operators, adjacent stacks of 2-4, inside lambda bodies around nested sequences and inside "
    "operator arguments; dictionaries empty / non-empty (unique token per wrapper, hostile strings), occasionally a non-dict "
    "literal, half of the inputs with _q_metadata annotations on call nodes; monitors on extract_metadata and remove_empty_metadata: independent reference result (struct_eq), metadata list "
    "as multiset + outer-before-inner partial order, argument-unchanged snapshot for remove_empty_metadata; distinct by dump; "
    "non-trivial = >= 2 wrappers of which one is empty and one sits inside a lambda body or an adjacent stack",
    "assumptions": ["MetaData wrappers are well-formed two-argument calls with a literal second argument"],
    "floor_evaluations": {"quick": 4000, "thorough": 40000},
    "floor_nontrivial": {"quick": 500, "thorough": 5000},
    "threads": 3,
    "anchors": ["func_adl/ast/meta_data.py"],
}
HOSTILE = ["a'b", 'q"r', "back\\slash", "line\nbreak", "{x}", "lambda x: (", "'); import os; ('", "", "ünï", "\U0001F600"]


class Inserter:
    def __init__(self, rnd, p):
        self.r, self.p = rnd, p
        self.uid = 0
        self.n = 0
        self.empty = 0
        self.in_lambda = 0
        self.stacked = 0
        self.nondict = 0

    def md(self):
        r = self.r
        k = r.random()
        if k < 0.35:
            self.empty += 1
            return ast.Dict(keys=[], values=[])
        if k < 0.40:
            self.nondict += 1
            return r.choice([C(1), ast.List(elts=[], ctx=ast.Load()), C("x")])
        self.uid += 1
        keys = [C("t")]
        vals = [C(self.uid)]
        if r.random() < 0.5:
            keys.append(C(r.choice(HOSTILE + ["m"])))
            vals.append(r.choice([C(r.choice(HOSTILE)), ast.List(elts=[C(1), C("x")], ctx=ast.Load()), C(2.5), C(True)]))
        return ast.Dict(keys=keys, values=vals)

    def wrap(self, n, in_lambda):
        k = 1
        if self.r.random() < 0.3:
            k = self.r.randint(2, 4)
            self.stacked += 1
        # adjacent wrappers whose dictionaries compare equal (1 == True == 1.0, 0.0 == -0.0) but are different values
        twins = self.r.choice([[C(1), C(True), C(1.0)], [C(0.0), C(-0.0), C(0)], [C("a"), C("a"), C(b"a")]]) if (k >= 2 and self.r.random() < 0.4) else None
        if twins:
            self.twins = getattr(self, "twins", 0) + 1
        for i in range(k):
            n = call("MetaData", n, ast.Dict(keys=[C("tw")], values=[twins[i % 3]]) if twins else self.md())
            self.n += 1
            if in_lambda:
                self.in_lambda += 1
        return n

    def is_seq(self, n):
        if isinstance(n, ast.Call):
            f = n.func
            name = f.id if isinstance(f, ast.Name) else f.attr if isinstance(f, ast.Attribute) else None
            return name in ("Select", "Where", "SelectMany", "EventDataset")
        return isinstance(n, ast.Attribute) and n.attr in ("jets", "trks")

    def go(self, n, in_lambda=False):
        if isinstance(n, ast.AST):
            m = type(n)()
            for f in n._fields:
                if hasattr(n, f):
                    setattr(m, f, self.go(getattr(n, f), in_lambda or isinstance(n, ast.Lambda)))
            if self.is_seq(m) and self.n < 8 and self.r.random() < self.p:
                m = self.wrap(m, in_lambda)
                if self.r.random() < 0.15:
                    # the wrapped sequence as one of several ** / * arguments of a plain call
                    self.multi_star = getattr(self, "multi_star", 0) + 1
                    return ast.Call(func=N("plain"), args=[ast.Starred(value=N("pa"), ctx=ast.Load()), ast.Starred(value=m, ctx=ast.Load())],
                                    keywords=[ast.keyword(arg=None, value=N("kw1")), ast.keyword(arg="k", value=C(1)), ast.keyword(arg=None, value=N("kw2"))])
                return m
            return m
        if isinstance(n, list):
            return [self.go(x, in_lambda) for x in n]
        return n


def pairs_outer_inner(a):
    """(outer dict, inner dict) literal pairs: inner wrapper lies inside the *source* of outer."""
    out = []

    def inner_of(n, acc):
        for x in astx.walk_nodes(n):
            if refimpl.is_metadata(x):
                acc.append(x)

    for n in astx.walk_nodes(a):
        if refimpl.is_metadata(n):
            acc = []
            inner_of(n.args[0], acc)
            for x in acc:
                out.append((ast.literal_eval(n.args[1]), ast.literal_eval(x.args[1])))
    return out


def canon(d):
    return repr(d) + type(d).__name__


def judge(ctx, q, stats, info):
    from func_adl.ast.meta_data import extract_metadata, remove_empty_metadata

    if ctx.rnd.random() < 0.1:
        # a call that fails part-way (a wrapper whose second argument is not a literal) must leave nothing behind
        bad = astx.parse_expr("MetaData(Select(MetaData(jets, not_a_literal), lambda j: j), {'stale': 'entry'})")
        for fn in (extract_metadata, remove_empty_metadata):
            try:
                fn(astx.clone(bad))
            except Exception:
                ctx.count("failing-calls-in-between")

    key = astx.dump_fields(q)
    witness = {"query": astx.unparse(q), "info": info}
    nt = stats.get("n", 0) >= 2 and stats.get("empty", 0) >= 1 and (stats.get("in_lambda", 0) or stats.get("stacked", 0))
    # --- extract_metadata
    arg = astx.clone(q)
    try:
        got_ast, got_md = extract_metadata(arg)
    except Exception as e:
        ctx.case(key, True)
        ctx.violation(f"extract:exc:{type(e).__name__}", f"{type(e).__name__}: {e} | in: {witness['query'][:400]}", witness)
        got_ast = None
    if got_ast is not None:
        ctx.case("x" + key, nontrivial=bool(nt))
        exp_ast, exp_md = refimpl.extract(q)
        if not astx.struct_eq(got_ast, exp_ast):
            ctx.violation("extract:ast-differs", f"{astx.first_diff(got_ast, exp_ast)} | in: {witness['query'][:400]} | out: {astx.unparse(got_ast)[:300]}", witness)
        elif sorted(map(canon, got_md)) != sorted(map(canon, exp_md)):
            ctx.violation("extract:metadata-multiset-differs", f"got {got_md!r:.300} expected {exp_md!r:.300} | in: {witness['query'][:300]}", witness)
        else:
            pos = {}
            for i, d in enumerate(got_md):
                pos.setdefault(canon(d), []).append(i)
            for outer, inner in pairs_outer_inner(q):
                co, ci = canon(outer), canon(inner)
                if co == ci:
                    continue
                # unique tokens make non-empty dicts unique; for repeated (empty / non-dict) ones use the weakest reading
                if min(pos[co]) > max(pos[ci]):
                    ctx.violation("extract:order-outer-after-inner", f"outer {outer!r} comes after inner {inner!r} in {got_md!r:.300} | in: {witness['query'][:300]}", witness)
                    break
            ctx.count("obligation:extract-checked")
            # the dictionaries handed back are the caller's: no two are one object, and editing them leaves a later extraction alone
            if len({id(d) for d in got_md if isinstance(d, dict)}) != len([d for d in got_md if isinstance(d, dict)]):
                ctx.violation("extract:one-dictionary-object-returned-twice", f"{got_md!r:.200} | in: {witness['query'][:300]}", witness)
            for d in got_md:
                if isinstance(d, dict):
                    d["edited-by-the-caller"] = True
                    for k in list(d):
                        if isinstance(d[k], list):
                            d[k].append("edited")
            try:
                _, again = extract_metadata(astx.clone(q))
                if sorted(map(canon, again)) != sorted(map(canon, exp_md)):
                    ctx.violation("extract:earlier-result-edited-changes-later-result", f"after the caller edited the returned dictionaries a fresh extraction gives {again!r:.200}, expected {exp_md!r:.200}", witness)
            except Exception as e:
                ctx.violation(f"extract:exc-second:{type(e).__name__}", str(e)[:200], witness)
    # --- remove_empty_metadata
    arg = astx.clone(q)
    if stats.get("n", 0) and ctx.rnd.random() < 0.5:
        # query-level metadata annotations, as QMetaData leaves them on (shallow copies of) query nodes
        for n in astx.walk_nodes(arg):
            if isinstance(n, ast.Call) and ctx.rnd.random() < 0.3:
                n._q_metadata = {"k": 1}
        ctx.count("inputs-with-q-metadata-annotations")
    snap = astx.dump_fields(arg)
    # what a real query carries on its nodes besides syntax: the dataset object (uncopyable, identity matters)
    carried = astx.attach_object(arg, ctx.rnd) if ctx.rnd.random() < 0.5 else None
    try:
        got = remove_empty_metadata(arg)
    except Exception as e:
        ctx.case("r" + key, True)
        ctx.violation(f"remove:exc:{type(e).__name__}", f"{type(e).__name__}: {e} | in: {witness['query'][:400]}", witness)
        return
    ctx.case("r" + key, nontrivial=bool(nt))
    exp = refimpl.remove_empty(q)
    if carried is not None:
        ctx.count("inputs-carrying-an-object-on-a-node")
        holder_removed = any(getattr(n, "_eds_object", None) is carried and refimpl.is_metadata(n) and isinstance(n.args[1], ast.Dict) and not n.args[1].keys for n in astx.walk_nodes(arg))
        if not holder_removed and not astx.find_object(got, carried):
            ctx.violation("remove:object-on-a-node-not-carried-over", f"the node attribute object of the input is not on the result (copied {carried.copied}x) | in: {witness['query'][:300]}", witness)
            return
    if not astx.struct_eq(got, exp):
        ctx.violation("remove:ast-differs", f"{astx.first_diff(got, exp)} | in: {witness['query'][:400]} | out: {astx.unparse(got)[:300]}", witness)
    if astx.dump_fields(arg) != snap:
        ctx.violation("remove:argument-modified", f"the AST passed in changed: {astx.first_diff(arg, q)} | in: {witness['query'][:400]}", witness)
    else:
        # ... and stays unmodified when the caller goes on to edit what it got back (what back ends do with it)
        from ..history import vandalise

        vandalise(got)
        if astx.dump_fields(arg) != snap:
            ctx.violation("remove:editing-the-result-changes-the-argument", f"after editing the returned AST in place the AST that was passed in reads {astx.unparse(arg)[:200]} | in: {witness['query'][:300]}", witness)
        ctx.count("obligation:result-edited-argument-rechecked")
        # the same query object cleaned again, and a query derived from it the way streams derive (the old query is the new one's
        # first argument, shared not copied), after the earlier result was edited by its consumer: the answers are the same
        try:
            again = remove_empty_metadata(arg)
            if not astx.struct_eq(again, exp):
                ctx.violation("remove:second-cleaning-of-the-same-object-differs", f"{astx.first_diff(again, exp)} | in: {witness['query'][:300]} | second: {astx.unparse(again)[:300]}", witness)
                return
            derived = call("Select", arg, astx.parse_expr("lambda z_: z_"))
            d_exp = call("Select", astx.clone(exp), astx.parse_expr("lambda z_: z_"))
            d_got = remove_empty_metadata(derived)
            if not astx.struct_eq(d_got, d_exp):
                ctx.violation("remove:query-derived-from-a-cleaned-one-differs", f"{astx.first_diff(d_got, d_exp)} | in: Select(<{witness['query'][:300]}>, lambda z_: z_) | out: {astx.unparse(d_got)[:300]}", witness)
                return
            x_ast, x_md = extract_metadata(arg)  # (works in place on arg, which is ours)
            x_exp, x_exp_md = refimpl.extract(q)
            if not astx.struct_eq(x_ast, x_exp) or sorted(map(canon, x_md)) != sorted(map(canon, x_exp_md)):
                ctx.violation("extract:after-cleaning-the-same-object-differs", f"got {x_md!r:.200} expected {x_exp_md!r:.200} | in: {witness['query'][:300]}", witness)
                return
            ctx.count("obligation:history-on-one-object-checked")
        except Exception as e:
            ctx.violation(f"remove:exc-on-repeat:{type(e).__name__}", f"{type(e).__name__}: {str(e)[:200]} | in: {witness['query'][:300]}", witness)
            return
    ctx.count("obligation:remove-checked")
    if len(ctx.samples) < 4 and nt and ctx.rnd.random() < 0.03:
        ctx.sample({"in": witness["query"], "extracted": astx.unparse(got_ast) if got_ast is not None else None, "cleaned": astx.unparse(got)})


_tok = [900000]


def _md_snippet(rnd):
    _tok[0] += 1
    src = rnd.choice(["cfg.jets", "Select(cfg.jets, lambda j: j.pt)", "cfg.trks.Where(lambda t: t.ok)", "MetaData(cfg.jets, {})"])
    d = "{}" if rnd.random() < 0.3 else "{'t': %d}" % _tok[0]
    return astx.parse_expr(f"MetaData({src}, {d})")


SNIPPETS = [_md_snippet]


DIRECTED = [
    "Select(EventDataset(), lambda e, *, cut=MetaData(cuts.pt, {'t': 71}): e.jets.Where(lambda j: j.pt > cut))",
    "Select(EventDataset(), lambda e, c=MetaData(a, {}), *r, k=MetaData(MetaData(b, {'t': 72}), {}), **kw: f'{MetaData(e.x, {'t': 73})!r:>{MetaData(e.w, {})}}')",
    "[MetaData(j, {'t': 74}) for j in MetaData(e.jets, {}) if MetaData(j.ok, {'t': 75})]",
    "{**MetaData(a, {'t': 76}), 'k': (w := MetaData(b, {}))}[MetaData(c, {'t': 77}):MetaData(d, {})]",
    "Select(EventDataset(), lambda e: calib(e.x, **MetaData(e.defaults, {'t': 1}), **e.overrides))",
    "f(MetaData(a, {}), **b, **MetaData(c, {'t': 2}), **d)",
    "Select(MetaData(EventDataset(), {'t': 5}), lambda e: g(*e.a, *MetaData(e.b, {}), k=1, **e.c, **e.d))",
    "MetaData(MetaData(EventDataset(), {}), {'t': 1})",
    "Select(MetaData(EventDataset(), {}), lambda e: MetaData(e.jets, {}).Select(lambda j: j.pt))",
    "MetaData(Select(MetaData(MetaData(EventDataset(), {'t': 1}), {}), lambda e: Count(MetaData(MetaData(e.jets, {'t': 2}), {'t': 3}))), {'t': 4})",
    "Select(EventDataset(), lambda e: f(MetaData(e.jets, {}), k=MetaData(e.trks, {'t': 1})))",
    "MetaData(EventDataset(), [])",
    "MetaData(EventDataset(), 0)",
    "MetaData(MetaData(EventDataset(), {'a': \"q'r\"}), {})",
    "EventDataset()",
]


def shard_main(ctx):
    if ctx.shard == 1 % ctx.nshards and ctx.tier == "thorough":
        from ..core import repo_tests_under_monitors

        repo_tests_under_monitors(ctx, "C15")
    if ctx.shard == 0:
        for t in DIRECTED:
            judge(ctx, astx.parse_expr(t), {"n": 2, "empty": 1, "stacked": 1}, {"directed": t})
        # user functions named like a call_ attribute of the transformer classes that is no documented operator (none on a right tree)
        from ..history import HANDLER_NAME_TEMPLATES, handler_named_functions

        for x in handler_named_functions():
            for t in HANDLER_NAME_TEMPLATES:
                ctx.count("queries-calling-a-function-named-like-an-undocumented-handler")
                judge(ctx, astx.parse_expr(t.format(X=x)), {"n": 1}, {"directed": t.format(X=x)})
    for i in range(N_CASES[ctx.tier]):
        if ctx.out_of_time():
            ctx.count("stopped-by-time-budget")
            break
        rnd = random.Random((ctx.seed * 1000 + ctx.shard) * 100003 + i + 15)
        g = Gen(rnd, naming="distinct", method_form=[0.0, 1.0, 0.5][i % 3], called=0.05)
        try:
            q, stages = g.chain(rnd.randint(1, 5), rnd.randint(1, 3))
        except Exception as e:
            ctx.count("generator-failed:" + type(e).__name__)
            continue
        if astx.size(q) > 500:
            ctx.count("skipped:input-too-large")
            continue
        ins = Inserter(rnd, rnd.choice([0.0, 0.2, 0.4, 0.7]))
        q2 = ins.go(q)
        st = {"n": ins.n, "empty": ins.empty, "in_lambda": ins.in_lambda, "stacked": ins.stacked, "nondict": ins.nondict}
        if rnd.random() < 0.3:
            # rare but legitimate python syntax with wrappers in the odd places: defaults, keyword-only defaults, ** mappings, f-strings,
            # comprehension parts, slices, walrus values (vmon/embellish.py)
            q2, feats = embellish(rnd, q2, SNIPPETS)
            for f in feats:
                ctx.count("feature:syntax:" + f)
            st = dict(st, n=st["n"] + 1, syntax=sorted(feats))
        ctx.count("wrappers", ins.n)
        ctx.count("wrappers-empty", ins.empty)
        ctx.count("wrappers-in-lambda", ins.in_lambda)
        ctx.count("stacks", ins.stacked)
        judge(ctx, q2, st, st)


def replay(ctx, witness):
    judge(ctx, astx.parse_expr(witness["query"]), {"n": 2, "empty": 1, "stacked": 1}, witness.get("info", {}))
