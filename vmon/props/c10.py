"""C10 - untyped queries pass through unchanged; refusals are explicit (DESIGN.md section 4, C10)."""
import ast
import itertools
import random

from .. import astx, modgen
from ..core import REPO

TIME_BUDGET = {"quick": 170, "thorough": 1100}
META = {
    "rule": "expression grammar {Name, Attribute, Call (positional/keyword), Subscript (index, key, slice), UnaryOp(-,+,~,not), BinOp (all 13 operators), "
    "BoolOp, Compare (all 10 operators, chained), IfExp, Tuple, List, Dict (string keys incl. 'jet-pt', 'class', '', 'a b'), nested Lambda} over "
    "names {e,f,value}, attributes {x,value,attr,id,func,args,ctx,elts,slice,lineno}, constants {1,2.5,'a',True,None}: all depth-1 "
    "expressions, all depth-2 expressions with one depth-1 operand (every root form x every operand form x every operand position; "
    "quick = a 1/40 slice, thorough = all => exhaustive), random depth 3-5 beyond; each through Select, SelectMany and Where of an "
    "untyped stream as source string and as ast, a slice also as capture-free callables from generated files; oracle: syntactic "
    "refusal classes r1-r4; outside them the call must succeed with the emitted lambda struct-equal to the parsed input; any "
    "exception other than ValueError is a violation everywhere; a directed set of clear-cut instances of each designed refusal must be refused; distinct by (operator, mode, text); non-trivial = depth >= 2",
    "assumptions": [
        "inside a refusal class (non-transportable constant, bad tuple index, absent dict key, conditional whose branches are not both "
        "numeric/unknown or of the same obvious kind) both ValueError and unchanged pass-through are accepted",
        "expressions python itself could never evaluate ((a, b)['k']) are not generated",
        "Load/Store ctx fields are ignored in the structural comparison",
    ],
    "floor_evaluations": {"quick": 20000, "thorough": 300000},
    "floor_nontrivial": {"quick": 10000, "thorough": 200000},
    "exhaustive": {"quick": False, "thorough": True},
    "watchdog_s": {"quick": 240, "thorough": 1500},
    "anchors": ["func_adl/type_based_replacement.py", "func_adl/object_stream.py", "func_adl/util_ast.py"],
}

NAMES = ["e", "f", "value"]
ATTRS = ["x", "value", "attr", "id", "func", "args", "ctx", "elts", "slice", "lineno", "real", "upper"]
CONSTS = ["1", "2.5", "'a'", "True", "None"]
L0 = [(n, "Name") for n in NAMES] + [(c, "Const") for c in CONSTS]


def unary_forms(a):
    t = a
    out = [(f"({t}).{at}", "Attribute") for at in ATTRS]
    out += [
        (f"-({t})", "USub"), (f"+({t})", "UAdd"), (f"~({t})", "Invert"), (f"not ({t})", "Not"),
        (f"({t})()", "Call0"), (f"({t})(k=1)", "CallKw"), (f"({t})[0]", "SubIdx"), (f"({t})['k']", "SubKey"),
        (f"({t})[1:2]", "SubSlice"), (f"lambda q: ({t})", "Lambda"), (f"lambda q, r=(1, 2), *s, k=3, **kw: ({t})", "LambdaManyParams"), (f"lambda: lambda q, r: ({t})", "LambdaInLambda"), (f"lambda j, key=lambda q, w=1: q, scale=2, *, f=lambda: 0, g=3: ({t})", "LambdaDefaultsThatAreLambdas"), (f"lambda e: ({t})", "LambdaShadow"), (f"[{t}]", "List1"), (f"({t},)", "Tuple1"),
        (f"{{'k': ({t})}}", "Dict1"), (f"{{'jet-pt': ({t})}}", "DictHyphen"), (f"{{'class': ({t})}}", "DictKeyword"),
        (f"{{'': ({t})}}", "DictEmptyKey"), (f"{{'self': ({t}), 'cls': 1}}", "DictSelfKey"), (f"{{'__debug__': ({t})}}", "DictDebugKey"), (f"{{'self': ({t})}}.self", "DictSelfKeyAttr"), (f"{{'a b': ({t})}}", "DictSpace"), (f"({t}).m()", "Method0"),
        # keys that are no plain constants: a negative number (a UnaryOp), a tuple, a key only known when the query runs, a ** entry
        (f"{{-1: ({t}), 'a': 2}}.a", "DictNegKeySiblingAttr"), (f"{{(1, 2): 1, 'a': ({t})}}['a']", "DictTupleKeySiblingKey"), (f"{{(e).k: ({t})}}", "DictRuntimeKey"),
        (f"{{'a': ({t}), **(e).rest}}", "DictUnpacking"), (f"{{f'{{(e).n}}': ({t})}}", "DictFStringKey"),
        # keys that are identifiers but not in the normal form python gives to names (micro sign, ligature, full-width letter)
        (f"{{'\u00b5': ({t}), 'n': 1}}['\u00b5']", "DictNonNFKCKey"), (f"{{'\ufb01t': ({t})}}['\ufb01t']", "DictLigatureKey"), (f"{{'\uff41': 1, 'n': ({t})}}.n", "DictFullWidthKeySibling"),
        (f"({t},)[0]", "TupLitIdx"), (f"{{'k': ({t})}}.k", "DictLitAttr"), (f"{{'k': ({t})}}['k']", "DictLitKey"),
        (f"({t}).x[0](1)", "CallOfSubscriptOfAttr"), (f"({t}).__call__(1)", "DunderCall"), (f"({t})[(e).x]", "SubRuntimeKey"),
        # methods python's own value types really have (with defaults the caller leaves out / with no inspectable signature)
        (f"({t}).strip()", "BuiltinStrip"), (f"({t}).encode()", "BuiltinEncode"), (f"({t}).count('a')", "BuiltinCount"), (f"({t}).split(',')", "BuiltinSplit"),
        (f"({t}).conjugate()", "BuiltinConjugate"), (f"({t}).to_bytes(2, 'big')", "BuiltinToBytes"), (f"({t}).is_integer()", "BuiltinIsInteger"),
    ]
    return out


BASIC_OPS = [("+", "Add"), ("/", "Div"), ("*", "Mult"), ("<", "Lt"), ("==", "Eq"), ("and", "And"), ("or", "Or"), ("in", "In"), ("is", "Is")]
EXTRA_OPS = [("-", "Sub"), ("//", "FloorDiv"), ("%", "Mod"), ("**", "Pow"), ("<<", "LShift"), (">>", "RShift"), ("|", "BitOr"), ("^", "BitXor"),
             ("&", "BitAnd"), ("@", "MatMult"), ("<=", "LtE"), (">", "Gt"), (">=", "GtE"), ("!=", "NotEq"), ("not in", "NotIn"), ("is not", "IsNot")]


def binary_forms(a, b, full=True):
    ops = BASIC_OPS + (EXTRA_OPS if full else [EXTRA_OPS[(len(a) + 3 * len(b)) % len(EXTRA_OPS)]])
    out = [(f"({a}) {op} ({b})", nm) for op, nm in ops]
    out += [
        (f"({a}) < ({b}) <= ({a})", "CmpChain"), (f"({a})[{b}]", "SubVar"), (f"({a})({b})", "Call1"), (f"({a})({b}, k=({a}))", "CallMixed"),
        (f"({a}).m(({b}), k=({a}))", "MethodMixed"), (f"(({a}), ({b}))[0]", "Tup2Idx0"), (f"(({a}), ({b}))[1]", "Tup2Idx1"),
        (f"(({a}), ({b}))[2]", "Tup2IdxOOB"), (f"(({a}), ({b}))[-1]", "Tup2IdxFromEnd"), (f"(({a}), ({b}))[-2]", "Tup2IdxFromEnd2"), (f"(({a}), ({b}))[-3]", "Tup2IdxFromEndOOB"), (f"(({a}), ({b}))[({a})]", "Tup2IdxVar"), (f"[({a}), ({b})][0]", "List2Idx"),
        (f"{{'a': ({a}), 'b': ({b})}}.a", "Dict2Attr"), (f"{{'a': ({a}), 'b': ({b})}}['b']", "Dict2Key"),
        (f"{{'a': ({a}), 'b': ({b})}}.c", "Dict2Absent"), (f"{{'a': ({a}), 'b': ({b})}}['c']", "Dict2AbsentKey"),
        # a display with a starred element: how many values it holds is only known when it runs, no index is "out of range" on the text
        (f"(({a}), *({b}))[1]", "TupStarIdx"), (f"(*({a}), ({b}))[5]", "TupStarIdxBeyondWritten"), (f"[*({a}), ({b})][-1]", "ListStarIdxFromEnd"),
        (f"({a}) if ({b}) else ({a})", "IfExpT"), (f"({a}) if ({a}) else ({b})", "IfExpE"), (f"(({a}), ({b}))", "Tuple2"),
        (f"[({a}), ({b})]", "List2"), (f"{{'a': ({a}), 'jet-pt': ({b})}}", "Dict2"), (f"(lambda q: ({a}))({b})", "CalledLambda"),
        # a key that is an identifier and still no field a record class can have (python's own names) next to an ordinary one, the
        # ordinary one read through an indirection: a field of an outer record, an element of a tuple, a conditional
        (f"{{'evt': {{'__debug__': ({a}), 'met': ({b})}}}}.evt.met", "DictOddIdentKeySiblingViaOuter"), (f"({{'mro': ({a}), 'jets': ({b})}}, 1)[0].jets", "DictOddIdentKeySiblingViaTuple"),
        (f"{{'sel': {{'__doc__': ({a}), 'n': ({b})}}}}['sel'].n", "DictOddIdentKeySiblingViaOuterKey"), (f"{{'__module__': ({a}), 'k': ({b})}}.k", "DictOddIdentKeySibling"),
        (f"({{'__debug__': ({a}), 'k': ({b})}} if e else {{'__debug__': ({a}), 'k': ({b})}}).k", "DictOddIdentKeySiblingViaIfExp"),
        # records in both branches: the same fields, field by field the pairs a conditional takes (or does not take)
        (f"{{'k': ({a}), 'n': 1}} if e else {{'n': 2.5, 'k': ({b})}}", "IfExpRecords"), (f"{{'d': {{'k': ({a})}}}} if e else {{'d': {{'k': ({b})}}}}", "IfExpNestedRecords"),
    ]
    return out


def level1():
    out = []
    for a, fa in L0:
        out += [(t, (f, fa)) for t, f in unary_forms(a)]
    for (a, fa), (b, fb) in itertools.product(L0, L0):
        out += [(t, (f, fa, fb)) for t, f in binary_forms(a, b)]
    return out


def level2(l1):
    """depth-2: every root form with one depth-1 operand in every operand position."""
    for a, fa in l1:
        for t, f in unary_forms(a):
            yield t, (f, fa[0])
    for (a, fa), (b, fb) in itertools.product(l1, L0):
        for t, f in binary_forms(a, b, full=False):
            yield t, (f, fa[0], fb)
        for t, f in binary_forms(b, a, full=False):
            yield t, (f, fb, fa[0])


LEGAL = (str, int, float, bool, complex, bytes)


def kind(n):
    """Conservative kind for the conditional rule: num | unknown | bool | str | other."""
    if isinstance(n, ast.Constant):
        if type(n.value) is bool:
            return "bool"
        if type(n.value) in (int, float):
            return "num"
        if type(n.value) is str:
            return "str"
        return "other"
    if isinstance(n, (ast.Compare, ast.BoolOp)):
        return "bool"
    if isinstance(n, ast.Name):
        return "unknown" if n.id not in ("abs", "len") else "other"
    if isinstance(n, (ast.Tuple, ast.List)):
        return "unknown"
    if isinstance(n, ast.BinOp):
        kl, kr = kind(n.left), kind(n.right)
        if isinstance(n.op, ast.Mod) and kl == "str":
            return "str"  # ('%d jets' % anything) is text whatever the right side is
        if "unknown" in (kl, kr):
            return "unknown"
        if kl == kr == "bool" and isinstance(n.op, (ast.BitAnd, ast.BitOr, ast.BitXor)):
            return "bool"  # python: True ^ True is False, a truth value
        if kl in ("num", "bool") and kr in ("num", "bool"):
            return "num"
        # what python computes for text: 'a' + 'b', 'ab' * 2, 2 * 'ab', '%d' % n
        if isinstance(n.op, ast.Add) and kl == kr == "str":
            return "str"
        if isinstance(n.op, ast.Mult) and {kl, kr} in ({"str", "num"}, {"str", "bool"}) and not any(isinstance(x, ast.Constant) and type(x.value) is float for x in (n.left, n.right)):
            return "str"
        if isinstance(n.op, ast.Mod) and kl == "str":
            return "str"
        return "other"
    if isinstance(n, ast.UnaryOp):
        if isinstance(n.op, ast.Not):
            return "bool"
        ko = kind(n.operand)
        return "num" if ko == "bool" else ("other" if ko == "str" else ko)
    if isinstance(n, ast.IfExp):
        kb, ko = kind(n.body), kind(n.orelse)
        if kb == ko and kb in ("num", "unknown", "bool", "str"):
            return kb
        if kb in ("num", "unknown") and ko in ("num", "unknown"):
            return "num"
        return "other"
    if isinstance(n, (ast.Attribute, ast.Subscript)):
        if isinstance(n.value, ast.Dict):
            # field access on a dict literal has the field's type
            sel = n.attr if isinstance(n, ast.Attribute) else (n.slice.value if isinstance(n.slice, ast.Constant) else None)
            for k, v in zip(n.value.keys, n.value.values):
                if isinstance(k, ast.Constant) and k.value == sel and isinstance(sel, str) and sel.isidentifier():
                    import keyword

                    if all(isinstance(kk, ast.Constant) and isinstance(kk.value, str) and kk.value.isidentifier() and not keyword.iskeyword(kk.value) for kk in n.value.keys):
                        return kind(v)
            return "other"
        if isinstance(n.value, ast.Tuple):
            if isinstance(n, ast.Subscript) and isinstance(n.slice, ast.Constant) and type(n.slice.value) is int and 0 <= n.slice.value < len(n.value.elts):
                return kind(n.value.elts[n.slice.value])
            return "other"
        # attribute of a dict-typed value (e.g. IfExp of dicts) - keep conservative
        return "unknown" if kind(n.value) in ("unknown", "num", "bool", "str") else "other"
    if isinstance(n, ast.Call):
        if isinstance(n.func, ast.Name) and n.func.id in ("abs", "len"):
            return "other"
        if isinstance(n.func, ast.Subscript) and isinstance(n.func.value, ast.Attribute):
            return "other"
        return "unknown"
    return "other"


def _shape(n):
    """the tree with every name, attribute name and constant value blanked (constants keep their type): two expressions of one
    shape are the same kind of thing whatever one's notion of kind"""
    import copy

    c = copy.deepcopy(n)
    for x in ast.walk(c):
        if isinstance(x, ast.Name):
            x.id = "_"
        elif isinstance(x, ast.Attribute) and not isinstance(x.value, ast.Dict):
            x.attr = "_"
        elif isinstance(x, ast.Constant):
            x.value = type(x.value).__name__
    return astx.dump_fields(c)


def same_dict_shape(a, b):
    if not (isinstance(a, ast.Dict) and isinstance(b, ast.Dict)):
        return False
    if not all(isinstance(k, ast.Constant) and isinstance(k.value, str) for k in a.keys + b.keys):
        return False
    ka, kb = [k.value for k in a.keys], [k.value for k in b.keys]
    if len(set(ka)) != len(ka) or set(ka) != set(kb):
        return False
    fb = dict(zip(kb, b.values))

    def go_together(x, y):
        # the same rule as for the conditional itself, field by field: numbers and unknowns mix, the same obvious kind matches
        kx, ky = kind(x), kind(y)
        return (kx in ("num", "unknown") and ky in ("num", "unknown")) or (kx == ky and kx in ("bool", "str"))

    return all(same_dict_shape(v, fb[k]) or _shape(v) == _shape(fb[k]) or go_together(v, fb[k]) for k, v in zip(ka, a.values))


def refusal_classes(body):
    """Syntactic refusal triggers present in the lambda body (see DESIGN.md C10)."""
    r = set()
    for n in astx.walk_nodes(body):
        if isinstance(n, ast.Constant) and not isinstance(n.value, LEGAL):
            r.add("r1-constant")
        if isinstance(n, ast.Subscript) and isinstance(n.value, ast.Tuple) and not any(isinstance(x, ast.Starred) for x in n.value.elts):
            s = n.slice
            if isinstance(s, ast.UnaryOp) and isinstance(s.op, ast.USub) and isinstance(s.operand, ast.Constant) and type(s.operand.value) is int:
                s = ast.Constant(value=-s.operand.value)  # (t[-1] as python parses it: a constant index, counted from the end)
            if not (isinstance(s, ast.Constant) and type(s.value) in (int, bool) and -len(n.value.elts) <= s.value < len(n.value.elts)):
                r.add("r2-tuple-index")
        if isinstance(n, ast.Subscript) and isinstance(n.value, ast.Dict):
            keys = [k.value for k in n.value.keys if isinstance(k, ast.Constant)]
            if isinstance(n.slice, ast.Constant) and n.slice.value not in keys:
                r.add("r3-dict-key")
        if isinstance(n, ast.Attribute) and isinstance(n.value, ast.Dict):
            keys = [k.value for k in n.value.keys if isinstance(k, ast.Constant)]
            if n.attr not in keys:
                r.add("r3-dict-key")
        if isinstance(n, ast.IfExp):
            kb, ko = kind(n.body), kind(n.orelse)
            ok = (kb in ("num", "unknown") and ko in ("num", "unknown")) or (kb == ko and kb in ("bool", "str"))
            # something nothing is known about (a name, its attributes, what its methods return) goes with text and truth values too:
            # `e.name if e.ok else 'none'` is no designed refusal
            if (_surely_unknown(n.body) and ko in ("str", "bool", "num", "unknown")) or (_surely_unknown(n.orelse) and kb in ("str", "bool", "num", "unknown")):
                ok = True
            # two dictionary displays with the same keys and the same (kinds of) values are the same kind of thing
            if same_dict_shape(n.body, n.orelse):
                ok = True
            if not ok:
                r.add("r4-conditional")
        # field access on something that may be dict-typed without being a dict literal (result of a conditional / subscript): the
        # displays it can stand for are worked out from the text; a key every one of them defines is no refusal trigger, a key one
        # of them lacks - or a route that cannot be followed on the text - is
        if isinstance(n, (ast.Attribute, ast.Subscript)) and isinstance(n.value, (ast.IfExp, ast.Subscript, ast.Attribute, ast.UnaryOp)):
            cands = _stands_for(n.value)
            if cands is not None and not any(isinstance(c, ast.Dict) for c in cands):
                continue
            key = n.attr if isinstance(n, ast.Attribute) else (n.slice.value if isinstance(n.slice, ast.Constant) else _NOKEY)
            if cands is None or key is _NOKEY or any(isinstance(c, ast.Dict) and _field(c, key) is None for c in cands):
                r.add("r3-dict-key")
    return r


_NOKEY = object()


def _surely_unknown(n):
    """an expression the type follower can know nothing about on an untyped stream: a name, attributes of it, results of its methods"""
    if isinstance(n, ast.Name):
        return n.id not in ("abs", "len")
    if isinstance(n, ast.Attribute):
        return _surely_unknown(n.value)
    if isinstance(n, ast.Call) and isinstance(n.func, ast.Attribute) and not n.keywords and not any(isinstance(a, ast.Starred) for a in n.args):
        return _surely_unknown(n.func.value)
    return False


def _field(d, key):
    """the value a dictionary display holds for a constant key (the last one written), or None"""
    found = None
    for k, v in zip(d.keys, d.values):
        if k is None or not isinstance(k, ast.Constant):
            return None
        try:
            if type(k.value) is type(key) and k.value == key:
                found = v
        except Exception:
            return None
    return found


def _stands_for(n):
    """the expressions n can evaluate to, as far as the text tells (conditionals branch, constant projections of displays are
    followed); None where the text does not tell"""
    if isinstance(n, ast.IfExp):
        a, b = _stands_for(n.body), _stands_for(n.orelse)
        return None if a is None or b is None else a + b
    if isinstance(n, ast.Subscript) and isinstance(n.value, (ast.Tuple, ast.List)):
        s = n.slice
        if isinstance(s, ast.UnaryOp) and isinstance(s.op, ast.USub) and isinstance(s.operand, ast.Constant) and type(s.operand.value) is int:
            s = ast.Constant(value=-s.operand.value)
        if isinstance(s, ast.Constant) and type(s.value) is int and -len(n.value.elts) <= s.value < len(n.value.elts) and not any(isinstance(x, ast.Starred) for x in n.value.elts):
            return _stands_for(n.value.elts[s.value])
        return None
    if isinstance(n, (ast.Attribute, ast.Subscript)):
        base = _stands_for(n.value)
        if base is None:
            return None
        if not any(isinstance(c, ast.Dict) for c in base):
            return [n]
        key = n.attr if isinstance(n, ast.Attribute) else (n.slice.value if isinstance(n.slice, ast.Constant) else _NOKEY)
        out = []
        for c in base:
            if not isinstance(c, ast.Dict):
                out.append(n)
                continue
            v = _field(c, key) if key is not _NOKEY else None
            if v is None:
                return None
            r2 = _stands_for(v)
            if r2 is None:
                return None
            out += r2
        return out
    if isinstance(n, ast.UnaryOp):
        base = _stands_for(n.operand)
        return None if base is None or any(isinstance(c, ast.Dict) for c in base) else [n]
    return [n]


def _may_be_dict(n):
    if isinstance(n, ast.Dict):
        return True
    if isinstance(n, ast.UnaryOp):
        return _may_be_dict(n.operand)
    if isinstance(n, ast.IfExp):
        return _may_be_dict(n.body) or _may_be_dict(n.orelse)
    if isinstance(n, ast.Subscript) and isinstance(n.value, (ast.Tuple, ast.List)):
        return any(_may_be_dict(x) for x in n.value.elts)
    if isinstance(n, (ast.Subscript, ast.Attribute)) and isinstance(n.value, ast.Dict):
        return any(_may_be_dict(x) for x in n.value.values)
    return False


def not_python_evaluable(body):
    """Literal subscripts python itself could never evaluate: (a, b)['k'], (a, b)[None], [a][2.5] ..."""
    for n in astx.walk_nodes(body):
        if isinstance(n, ast.Subscript) and isinstance(n.value, (ast.Tuple, ast.List)):
            s = n.slice
            if isinstance(s, ast.Constant) and type(s.value) not in (int, bool):
                return True
            if isinstance(s, (ast.Tuple, ast.List, ast.Dict, ast.Lambda)):
                return True
        if isinstance(n, ast.Subscript) and isinstance(n.value, ast.Dict):
            # a key that holds a dict / list / set display is unhashable: python raises TypeError for {..}[({..}, 1)] too
            if any(isinstance(x, (ast.Dict, ast.List, ast.Set)) for x in astx.walk_nodes(n.slice)):
                return True
    return False


def has_called_lambda(body):
    return any(isinstance(n, ast.Call) and isinstance(n.func, ast.Lambda) for n in astx.walk_nodes(body))


def judge(ctx, ds, opname, mode, text, tag, depth, supply, variant=""):
    """supply() performs the operator call and returns the stream."""
    lam_in = astx.parse_expr(text)
    body = lam_in.body
    never = not_python_evaluable(body)
    if mode == "callable" and has_called_lambda(body):
        # explicitly called lambdas are inlined by design when a python callable is supplied (C05's mechanism)
        ctx.count("not-judged:called-lambda-in-callable-mode")
        return
    rc = refusal_classes(body)
    if never:
        # python itself could never evaluate it ((a, b)['k']): refusing (ValueError) and emitting unchanged are both fine, an
        # internal error is not
        rc.add("r0-python-could-never-evaluate")
        ctx.count("python-could-never-evaluate")
    key = f"{opname}|{mode}|{variant}|{text}"
    ctx.case(key, nontrivial=depth >= 2)
    ctx.count(f"cell:{tag[0]}<-{'/'.join(tag[1:])}" if ctx.tier == "never" else "cells")
    witness = {"op": opname, "mode": mode, "text": text}
    try:
        s = supply()
    except ValueError as e:
        ctx.count("outcome:ValueError")
        if rc:
            ctx.count("refusal:" + sorted(rc)[0])
            return
        if opname == "Where" and not (isinstance(body, (ast.Compare, ast.BoolOp)) or (isinstance(body, ast.UnaryOp) and isinstance(body.op, ast.Not))):
            if "must return a boolean" in str(e):
                ctx.count("refusal:non-boolean-Where")
                return
        ctx.violation(f"undesigned-refusal:{_vsig(e)}", f"{opname}({mode}) refused a valid expression: {text} :: ValueError: {str(e)[:160]}", witness)
        return
    except Exception as e:
        ctx.count("outcome:" + type(e).__name__)
        ctx.violation(f"internal-error:{type(e).__name__}@{astx.repo_frame(e, REPO)}", f"{opname}({mode}): {text} :: {type(e).__name__}: {str(e)[:160]}", witness)
        return
    ctx.count("outcome:accepted")
    out = s.query_ast.args[1]
    if not astx.struct_eq(out, lam_in):
        ctx.violation("changed:" + tag[0], f"{opname}({mode}): {text} emitted as {astx.unparse(out)[:200]} :: {astx.first_diff(out, lam_in)}", witness)
        return
    if s.query_ast.func.id != opname or s.query_ast.args[0] is not ds.query_ast:
        ctx.violation("wrong-operator-node", f"{opname}({mode}): {text} -> {astx.unparse(s.query_ast)[:200]}", witness)
    if len(ctx.samples) < 5 and depth >= 2 and ctx.rnd.random() < 0.0005:
        ctx.sample({"op": opname, "mode": mode, "lambda": text, "outcome": "emitted unchanged"})


def _vsig(e):
    m = str(e)
    for k in ("IfExp", "Slices must", "out of range", "not found in", "Invalid constant", "must return a boolean", "is required", "Error processing"):
        if k in m:
            return k.replace(" ", "-")
    return "other"


def rand_expr(rnd, d):
    if d <= 0:
        return rnd.choice(L0)[0]
    if rnd.random() < 0.5:
        return rnd.choice(unary_forms(rand_expr(rnd, d - 1)))[0]
    return rnd.choice(binary_forms(rand_expr(rnd, d - 1), rand_expr(rnd, d - 2 if rnd.random() < 0.6 else d - 1)))[0]


def callable_cases(ctx, exprs):
    """Capture-free callables: generated two-line defs, real source recovery."""
    src = modgen.DS_HEADER
    for i, (t, tag, depth) in enumerate(exprs):
        for opname in ("Select", "SelectMany", "Where"):
            src += f"def c{i}_{opname}(ds):\n    return ds.{opname}(lambda e: {t})\n"
    try:
        m = modgen.load(src, "c10")
    except SyntaxError as e:
        ctx.count("harness:generated-module-syntax-error")
        return
    ds = m.DS()
    for i, (t, tag, depth) in enumerate(exprs):
        for opname in ("Select", "SelectMany", "Where"):
            fn = getattr(m, f"c{i}_{opname}")
            judge(ctx, ds, opname, "callable", f"lambda e: {t}", tag, depth, lambda fn=fn: fn(ds))
    modgen.unload(m)


MUST_REFUSE = [
    # (class, body) - clear-cut instances of the designed refusals named in the property
    ("non-boolean-Where", "e.x"), ("non-boolean-Where", "e.x + 1"), ("non-boolean-Where", "'a'"), ("non-boolean-Where", "(e.x, e.y)"),
    ("incompatible-conditional", "1 if e.c else 'a'"), ("incompatible-conditional", "'a' if e.c else 2.5"), ("incompatible-conditional", "(e.x > 1) if e.c else 'a'"),
    ("incompatible-conditional", "(e.x > 1) if e.c else 2"), ("incompatible-conditional", "3.5 if e.c else (e.x > 1 and e.y < 2)"), ("incompatible-conditional", "e.f(1 if e.c else 'a')"),
    ("non-transportable-constant", "None"), ("non-transportable-constant", "e.f(None)"), ("non-transportable-constant", "..."), ("non-transportable-constant", "e.jets.Select(lambda j: (j.pt, None))"),
    ("tuple-index", "(e.x, e.y)[2]"), ("tuple-index", "(e.x, e.y)[e.i]"), ("tuple-index", "(e.x, e.y)[-3]"), ("tuple-index", "e.f((e.x,)[1])"),
    ("absent-dict-key", "{'a': e.x}['{b}']"), ("absent-dict-key", "{'a': e.x}['{}']"), ("absent-dict-key", "{'a': e.x}['x{}y']"), ("absent-dict-key", "{'a': e.x}['{0}']"),
    ("absent-dict-key", "{'a': e.x}['%s']"), ("absent-dict-key", "{'a': {'b': 1}}['a']['{a}']"),
    ("absent-dict-key", "{'a': e.x}.b"), ("absent-dict-key", "{'a': e.x}['b']"), ("absent-dict-key", "{'a': e.x, 'c': 1}.b + 1"),
]


PARAM_LISTS = [
    # one positional parameter whose parameter list carries more than the bare name: still emitted exactly
    "lambda e=1: e.x", "lambda e=(1, 2): e[0]", "lambda e, *rest: e.x + 1", "lambda e, **kw: e.x", "lambda e, *, cut=30: e.pt > cut",
    "lambda e, /: e.x", "lambda e=None.__class__: e.x" if False else "lambda e='s': e.x", "lambda e, *a, k=1, **kw: (e.x, k)",
]


PARAM_LISTS_LITERAL_DEFAULTS = [
    # defaults written as literals the parser does not read as ONE constant node (a sign, a display, a prefix, a complex number)
    "lambda e, *, k=-1: e.x > k", "lambda e, *, k=-2.5: e.x * k > 1", "lambda e, *, k=(1, -2): e.f(k) > 1", "lambda e, *, k=u'a': e.f(k) > 1", "lambda e, *, k=1+2j: e.f(k) > 1",
    "lambda e, *, k=[1, 2], d={'a': -1}: e.f(k, d) > 1", "lambda e, *, k=-0.0, j=+1: e.f(k, j) > 1", "lambda e, *, k=b'x', j=(): e.f(k, j) > 1", "lambda e=-1: e > 1", "lambda e=(1, (2, -3)): e[0] > 1",
]


def parameter_lists_callable(ctx):
    """the same parameter lists given as python lambdas (source recovery, defaults python kept): emitted exactly as the text gives"""
    texts = [t for t in PARAM_LISTS if "None" not in t] + PARAM_LISTS_LITERAL_DEFAULTS
    src = modgen.DS_HEADER
    cases = []
    for i, text in enumerate(texts):
        for opname in ("Select", "SelectMany", "Where"):
            t = text if opname != "Where" or ">" in text else text.replace(": ", ": (", 1) + ") == 1"
            src += f"def p{i}_{opname}(ds):\n    return ds.{opname}({t})\n"
            cases.append((f"p{i}_{opname}", opname, t))
    m = modgen.load(src, "c10p")
    ds = m.DS()
    for fn, opname, t in cases:
        ctx.case(f"param-list|{opname}|callable|{t}", True)
        ctx.count("parameter-list-cases-callable")
        lam_in = astx.parse_expr(t)
        w = {"op": opname, "mode": "callable", "text": t, "param_list_callable": True}
        try:
            s = getattr(m, fn)(ds)
        except ValueError as e:
            ctx.violation("undesigned-refusal:parameter-list", f"{opname}(callable): {t} :: ValueError {str(e)[:120]}", w)
            continue
        except Exception as e:
            ctx.violation(f"internal-error:{type(e).__name__}@{astx.repo_frame(e, REPO)}", f"{opname}(callable): {t} :: {type(e).__name__}: {str(e)[:120]}", w)
            continue
        out = s.query_ast.args[1]
        if not astx.struct_eq(out, lam_in):
            ctx.violation("changed:parameter-list", f"{opname}(callable): {t} emitted as {astx.unparse(out)[:160]} :: {astx.first_diff(out, lam_in)}", w)
    modgen.unload(m)


def parameter_lists(ctx, ds):
    for text in PARAM_LISTS:
        for opname in ("Select", "SelectMany", "Where"):
            t = text if opname != "Where" or ">" in text else text.replace(": ", ": (", 1) + ") == 1"
            for mode in ("string", "ast"):
                ctx.case(f"param-list|{opname}|{mode}|{t}", True)
                ctx.count("parameter-list-cases")
                lam_in = astx.parse_expr(t)
                try:
                    s = getattr(ds, opname)(t if mode == "string" else astx.parse_expr(t))
                except ValueError as e:
                    ctx.violation("undesigned-refusal:parameter-list", f"{opname}({mode}): {t} :: ValueError {str(e)[:120]}", {"op": opname, "mode": mode, "text": t, "param_list": True})
                    continue
                except Exception as e:
                    ctx.violation(f"internal-error:{type(e).__name__}@{astx.repo_frame(e, REPO)}", f"{opname}({mode}): {t} :: {type(e).__name__}: {str(e)[:120]}", {"op": opname, "mode": mode, "text": t, "param_list": True})
                    continue
                out = s.query_ast.args[1]
                if not astx.struct_eq(out, lam_in):
                    ctx.violation("changed:parameter-list", f"{opname}({mode}): {t} emitted as {astx.unparse(out)[:160]} :: {astx.first_diff(out, lam_in)}", {"op": opname, "mode": mode, "text": t, "param_list": True})


def strip_positions(tree, mixed=False):
    """an AST as code builds it: no lineno / col_offset on the nodes (mixed: only on every other node, as when a parsed template
    has parts replaced by constructed nodes)"""
    for i, n in enumerate(astx.walk_nodes(tree)):
        if mixed and i % 2 == 0:
            continue
        for a in ("lineno", "col_offset", "end_lineno", "end_col_offset"):
            if hasattr(n, a):
                try:
                    delattr(n, a)
                except AttributeError:
                    pass
    return tree


def _built_by_hand(t):
    from ..history import without_empty_keywords

    return without_empty_keywords(astx.parse_expr(t))[0]


AST_MODES = {"ast": lambda t: astx.parse_expr(t), "ast-calls-built-without-keywords-field": _built_by_hand, "ast-module": lambda t: ast.parse(t.strip()), "ast-no-positions": lambda t: strip_positions(astx.parse_expr(t)), "ast-mixed-positions": lambda t: strip_positions(astx.parse_expr(t), mixed=True)}

LAYOUT_TEXTS = [
    "lambda e: {'pt  (GeV)': e.x,\n           'eta\tphi': e.y}",
    "lambda e: (e.x,\n  e.f('a   b',   'c\u00a0d'))",
    "lambda e: (e.x,  # a comment (with a bracket\n           e.y)",
    "lambda e: [e.a,\n\n   e.b   ,\n e.c('  ')]",
    "lambda e: e.f(\n    k = 'two  blanks',\n    j=e.y  )",
    "  lambda   e :  e.x   +   e.g( ' x ' )  ",
    "lambda e: e.jets.Select(lambda j:\n (j.pt,   'a    b'))",
    "lambda e: (e.x\n  if e.y > 1   # why\n  else e.z)",
    "lambda e: e.x[ 'k  k' ]",
    'lambda e: e.f("""two\nlines   and  blanks""")',
]


def layout_texts(ctx, ds):
    """the text form may be laid out freely (line breaks inside brackets, comments, runs of blanks inside string constants): what
    is emitted is the lambda python parses from that text"""
    for text in LAYOUT_TEXTS:
        try:
            want = ast.parse(text.strip(), mode="eval").body
        except SyntaxError:
            ctx.count("harness:layout-text-syntax-error")
            continue
        for opname in ("Select", "SelectMany"):  # (Where refuses non-boolean bodies by design)
            ctx.case(f"layout|{opname}|{text}", True)
            ctx.count("layout-text-cases")
            try:
                s = getattr(ds, opname)(text)
            except Exception as e:
                ctx.violation(f"layout-text-refused:{type(e).__name__}", f"{opname}(string): {text!r} :: {type(e).__name__}: {str(e)[:160]}", {"op": opname, "mode": "string", "text": text})
                continue
            out = s.query_ast.args[1]
            if not astx.struct_eq(out, want):
                ctx.violation("changed:layout-text", f"{opname}(string): {text!r} emitted as {astx.unparse(out)[:200]} :: {astx.first_diff(out, want)}", {"op": opname, "mode": "string", "text": text})


def must_refuse(ctx, ds):
    """The designed refusals are ValueErrors: clear-cut instances must be refused, by every operator and supply mode."""
    for cls, body in MUST_REFUSE:
        text = f"lambda e: {body}"
        ops = ("Where",) if cls == "non-boolean-Where" else ("Select", "SelectMany", "Where")
        for opname in ops:
            if opname == "Where" and cls != "non-boolean-Where":
                text_op = f"lambda e: ({body}) == 1" if cls != "incompatible-conditional" or True else text
            else:
                text_op = text
            for mode in ("string", "ast", "ast-no-positions", "ast-mixed-positions"):
                ctx.case(f"must-refuse|{opname}|{mode}|{text_op}", True)
                ctx.count("must-refuse-cases")
                try:
                    s = getattr(ds, opname)(text_op if mode == "string" else AST_MODES[mode](text_op))
                except ValueError:
                    ctx.count("must-refuse:refused")
                    continue
                except Exception as e:
                    ctx.violation(f"internal-error:{type(e).__name__}@{astx.repo_frame(e, REPO)}", f"{opname}({mode}): {text_op} :: {type(e).__name__}: {str(e)[:160]}", {"op": opname, "mode": mode, "text": text_op})
                    continue
                ctx.violation(f"designed-refusal-missing:{cls}", f"{opname}({mode}): {text_op} must be refused with ValueError ({cls}) but was emitted as {astx.unparse(s.query_ast.args[1])[:160]}", {"op": opname, "mode": mode, "text": text_op, "must_refuse": cls})


def _accepts_item_type(cls):
    import inspect

    try:
        return "item_type" in inspect.signature(cls.__init__).parameters
    except (TypeError, ValueError):
        return False


def earlier_queries(ctx, ds):
    """history: ordinary queries made earlier in the same process whose later stages run on items that HAVE a type (a record, a
    bool, a number, a tuple), under the parameter names the untyped queries of the enumeration use as free names"""
    for q in (
        lambda: ds.Select("lambda e: {'x': e.x, 'attr': e.y}").Select("lambda f: f.x"),
        lambda: ds.Select("lambda e: e.x > 1").Where("lambda value: value"),
        lambda: ds.Select("lambda e: {'x': 1}").Select("lambda value: value.x + 1"),
        lambda: ds.Select("lambda e: e.x > 1").Select("lambda f: f"),
        lambda: ds.Select("lambda e: (e.x, 2)").Select("lambda value: value[0]"),
        lambda: ds.Select("lambda e: {'jets': e.jets}").SelectMany("lambda f: f.jets"),
        lambda: ds.Select("lambda e: 'text'").Select("lambda f: f"),
    ):
        try:
            q()
        except Exception:
            ctx.count("harness:earlier-query-failed")
    ctx.count("history:earlier-queries-on-typed-items", 7)


def supplied_object_lives_on(ctx, ds):
    """history: the AST object the caller supplied goes on living - it is given to streams that DO know their types (their declared
    defaults are filled in), to other operators, and the caller edits it. The lambda the untyped stream emitted stays what was supplied"""
    from typing import Iterable

    from func_adl import ObjectStream

    class Jet:
        def pt(self, scale: float = 2.5) -> float: ...

    class Event:
        def jets(self, collection: str = "AntiKt4") -> Iterable[Jet]: ...

        def met(self, kind: str = "final") -> float: ...

    typed = ObjectStream[Event](ast.Name(id="ds_typed", ctx=ast.Load()), Event)
    texts = ["lambda e: e.jets().first", "lambda e: e.met()", "lambda e: e.jets().Select(lambda j: j.pt())", "lambda e: (e.met(), e.jets())", "lambda e: e.jets()", "lambda e: {'m': e.met()}.m"]
    for text in texts:
        want = astx.parse_expr(text)
        for mode, make in AST_MODES.items():
            for opname in ("Select", "SelectMany"):
                try:
                    obj = make(text)
                    first = getattr(ds, opname)(obj)
                except Exception as e:
                    ctx.count("later-life:first-call-raised:" + type(e).__name__)
                    continue
                for later, act in (
                    ("typed Select", lambda: typed.Select(obj)),
                    ("typed SelectMany", lambda: typed.SelectMany(obj)),
                    ("typed Where", lambda: typed.Where(obj)),
                    ("untyped again", lambda: ds.Select(obj)),
                    ("caller edits the object", lambda: [setattr(n, "attr", n.attr + "_edited") for n in ast.walk(obj) if isinstance(n, ast.Attribute)]),
                ):
                    try:
                        act()
                    except ValueError:
                        pass
                    except Exception as e:
                        ctx.count("later-life:later-step-raised:" + type(e).__name__)
                    ctx.case(f"later-life|{opname}|{mode}|{later}|{text}", nontrivial=True)
                    ctx.count("history:supplied-object-lives-on")
                    out = first.query_ast.args[1]
                    if not astx.struct_eq(out, want):
                        ctx.violation("changed-later:supplied-object-used-again", f"{opname}({mode}) on an untyped stream emitted {text}; after '{later}' with the same supplied object it holds {astx.unparse(out)[:160]}", {"later_life": True})
                        break


def shard_main(ctx):
    from func_adl import EventDataset

    class DS(EventDataset):
        async def execute_result_async(self, a, title=None):
            return a

    ds = DS()
    # the other ways to say "a stream with no type information": item type None (documented as "None if not known"), and streams
    # derived from one through Where / MetaData (they keep the item type)
    import ast as _ast
    from typing import Any as _Any
    from func_adl import ObjectStream

    untyped = [ds, DS(item_type=None) if _accepts_item_type(DS) else ds, ds.Where("lambda e: e.ok > 1"), ds.MetaData({"k": 1})]
    try:
        untyped.append(ObjectStream(ds.query_ast, None))
    except Exception:
        pass
    if ctx.shard == 0:
        must_refuse(ctx, ds)
        parameter_lists(ctx, ds)
        parameter_lists_callable(ctx)
        layout_texts(ctx, ds)
    if ctx.shard == 1 % ctx.nshards:
        supplied_object_lives_on(ctx, ds)
    l1 = level1()
    todo = [(t, tag, 1) for t, tag in l1]
    todo += [(t, tag, 2) for t, tag in level2(l1)]
    stride = 1 if ctx.tier == "thorough" else 40
    mine = [x for i, x in enumerate(todo) if i % ctx.nshards == ctx.shard and (x[2] == 1 or (i // ctx.nshards) % stride == 0)]
    ctx.notes["enumeration"] = {"depth1": len(l1), "depth<=2 total": len(todo), "stride_quick": 40}
    cells = set()
    callable_batch = []
    for n, (t, tag, depth) in enumerate(mine):
        if ctx.out_of_time():
            ctx.count("stopped-by-time-budget")
            break
        if n % 400 == 0:
            earlier_queries(ctx, ds)
        try:
            ast.parse(t, mode="eval")
        except SyntaxError:
            ctx.count("harness:syntax-error")
            continue
        cells.add(tag)
        text = f"lambda e: {t}"
        if n % 5 == 2:
            # the same expression on the other spellings of an untyped stream
            for ui, u in enumerate(untyped[1:], 1):
                for opname in ("Select", "SelectMany", "Where"):
                    judge(ctx, u, opname, "string", text, tag, depth, lambda: getattr(u, opname)(text), variant=f"untyped#{ui}")
            ctx.count("expressions-on-other-untyped-streams")
        for opname in ("Select", "SelectMany", "Where"):
            judge(ctx, ds, opname, "string", text, tag, depth, lambda: getattr(ds, opname)(text))
            amode = ("ast", "ast-module", "ast-no-positions", "ast-mixed-positions", "ast-calls-built-without-keywords-field")[n % 5]
            judge(ctx, ds, opname, amode, text, tag, depth, lambda: getattr(ds, opname)(AST_MODES[amode](text)))
        if n % (40 if ctx.tier == "quick" else 12) == 0:
            callable_batch.append((t, tag, depth))
            if len(callable_batch) >= 60:
                callable_cases(ctx, callable_batch)
                callable_batch = []
    if callable_batch:
        callable_cases(ctx, callable_batch)
    ctx.count("form-cells-covered", len(cells))
    # random deeper expressions
    nrand = 300 if ctx.tier == "quick" else 8000
    batch = []
    for i in range(nrand):
        if ctx.out_of_time():
            break
        rnd = random.Random((ctx.seed * 1000 + ctx.shard) * 100003 + i)
        d = rnd.randint(3, 5)
        t = rand_expr(rnd, d)
        if len(t) > 600:
            continue
        text = f"lambda e: {t}"
        for opname in ("Select", "SelectMany", "Where"):
            judge(ctx, ds, opname, "string", text, ("random",), d, lambda: getattr(ds, opname)(text))
        if i % 10 == 0:
            batch.append((t, ("random",), d))
    if batch:
        callable_cases(ctx, batch[:80])
    modgen.cleanup()


def replay(ctx, witness):
    from func_adl import EventDataset

    class DS(EventDataset):
        async def execute_result_async(self, a, title=None):
            return a

    ds = DS()
    if witness.get("param_list_callable"):
        parameter_lists_callable(ctx)
        return
    if witness.get("later_life"):
        supplied_object_lives_on(ctx, ds)
        return
    if "must_refuse" in witness:
        must_refuse(ctx, ds)
        return
    if witness.get("param_list"):
        parameter_lists(ctx, ds)
        return
    text, opname = witness["text"], witness["op"]
    if witness["mode"] == "callable":
        callable_cases(ctx, [(text[len("lambda e: "):], ("replay",), 2)])
        modgen.cleanup()
    elif witness["mode"] == "ast":
        judge(ctx, ds, opname, "ast", text, ("replay",), 2, lambda: getattr(ds, opname)(astx.parse_expr(text)))
    else:
        judge(ctx, ds, opname, "string", text, ("replay",), 2, lambda: getattr(ds, opname)(text))
