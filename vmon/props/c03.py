"""C03 - source recovery returns the lambda that was actually passed (DESIGN.md section 4, C03)."""
import ast
import random

from .. import astx, hooks, modgen, probe
from ..core import REPO

N_FILES = {"quick": 40, "thorough": 12500}
TIME_BUDGET = {"quick": 60, "thorough": 270}
META = {
    "rule": "generated python files (real files, imported, linecache sees them) with 25-45 operator call sites each; every lambda body is "
    "unique (marker constants) and probe-traceable; layout dimensions combined at random: call form (single, 2-4 chained calls on one "
    "line told apart by method name / argument name / not at all, black-style wrapped chain, break after '(', lambda on its own line, "
    "closing paren on its own line, backslash continuation, trailing comma, second argument after the lambda), body (one line, broken "
    "inside ()/[]/{}, broken after an operator, conditional across lines, nested lambdas with same / different parameter names, "
    "dict/tuple/list literals, slices), noise (comments in and around the expression, string literals containing 'lambda x: (' ')' ',' "
    "brackets, blank lines, other statements on the line, decoy lambdas on the same / adjacent lines that are NOT passed to the "
    "operator), context (module-level def, nested def, class method, staticmethod in nested class, decorated, inside if/for/with/try, "
    "list/dict literal, comprehension, conditional expression, call argument; 0-3 indentation levels, spaces or tabs), one-line "
    "functions passed by name, lambdas selected inside the argument list by a conditional expression / list / dict / or-chain / wrapper "
    "call (one and two such calls on a line); every case is executed up to four times with the selecting flags changed in between "
    "(state kept between calls must not matter); monitor at the operator boundary compares behaviour(passed callable) with behaviour(recorded lambda "
    "compiled in an empty environment) by symbolic probing with decision forking; an exception is allowed unless the layout is tagged "
    "documented-supported; distinct by (template, context, body form); non-trivial = the call's line or bracketed expression holds "
    "another lambda or a line break",
    "assumptions": ["sources live in files; CPython 3.12 tokenizer", "bodies contain no captures or helper calls (C04/C05)"],
    "floor_evaluations": {"quick": 2000, "thorough": 50000},
    "floor_nontrivial": {"quick": 800, "thorough": 2500},
    "no_debug_ranges": True,
    "anchors": ["func_adl/util_ast.py", "func_adl/object_stream.py"],
}

EVENTS = []


def install():
    from func_adl import ObjectStream

    for name in ("Select", "SelectMany", "Where"):
        def pre(a, k, name=name):
            f = a[1] if len(a) > 1 else k.get("f", k.get("func", k.get("filter")))
            if hooks.depth() > 0 or not callable(f) or isinstance(f, (str, ast.AST)):
                return None
            return {"op": name, "callable": f, "expected": probe.behaviour(f)}

        def post(tok, result, exc, a, k):
            if tok is None:
                return
            tok["exc"] = exc
            tok["result"] = result
            # second observation point: parse_as_ast(callable) without the caller's name
            from func_adl.util_ast import parse_as_ast

            try:
                tok["direct"] = parse_as_ast(tok["callable"], None)
            except Exception as e:  # allowed: raise rather than guess
                tok["direct"] = e
            EVENTS.append(tok)

        hooks.wrap(ObjectStream, name, pre=pre, post=post, track_depth=True)


class LG:
    """layout generator: returns function source for one case plus its tags"""

    def __init__(self, rnd):
        self.r = rnd
        self.k = 0

    def body(self, p, multiline=False, where=False):
        self.k += 1
        m = self.k
        r = self.r
        if where:
            forms = [f"{p}.a{m} > {m}", f"{p}.f{m}({m}, k='lambda {p}: (') > 1 and {p}.b < {m}", f"{p}.js{m}.Where(lambda {p}: {p}.pt > {m}).Count() == {m}", f"{p}.x[{m}] != ({p}.y, )"]
            if multiline:
                forms = [f"({p}.a{m} >\n{{IND}}    {p}.b{m})", f"{p}.f{m}(\n{{IND}}    {m},\n{{IND}}    {p}.c) > {m}", f"({p}.a{m} > {m}  # lambda q: (q\n{{IND}}     and {p}.c{m} < 2)"]
            return r.choice(forms), "where"
        forms = [
            (f"{p}.a{m}", "attr"), (f"{p}.f{m}({m}, k={m})", "call"), (f"({p}.a{m}, {p}.b{m})", "tuple"),
            (f"{{'k{m}': {p}.a{m}, 'j': ({p}.b, 2)}}['k{m}']", "dict"), (f"{p}.js{m}.Select(lambda j: j.pt + {p}.m)", "nested-diff"),
            (f"{p}.js{m}.Select(lambda {p}: {p}.pt * {m})", "nested-same"), (f"{p}.a{m} + {p}.g('lambda {p}: {p}.zz)')", "string-lambda"),
            (f"{p}.x[{m}:2]", "slice"), (f"[{p}.a{m}, {p}.b, ({p}.c, )]", "list"), (f"{p}.a{m} if {p}.b > {m} else {p}.c", "ifexp"),
            (f"{p}.g(')', '(', ',', \"{m}]\")", "string-brackets"),
            # bodies that are a bare constant (python keeps no source position for them)
            (f"{m}", "constant-body"), (f"'s{m}'", "constant-body"), (f"{p}.js{m}.Select(lambda j: {m})", "nested-constant-body"),
            # f-strings (tokenised into several tokens since python 3.12): literal parts with blanks, format specs, conversions
            (f"{p}.g(f'AntiKt{{{p}.a{m}}}EM  Topo{m}')", "fstring"), (f"{p}.g(f'{{{p}.a{m}=}} and {{ {p}.b = }}')", "fstring-equals"), (f"{p}.g(f'{{{p}.a{m}:03d}}|{{{p}.b!r:>8}}| lambda {p}: (')", "fstring-spec"),
            # ... whose literal pieces are nothing but a bracket, a comma, a semicolon, a colon
            (f"{p}.g(f'{{{p}.a{m}}})')", "fstring-bracket-pieces"), (f"{p}.g(f'({{{p}.a{m}}}', f'{{{p}.b}};{{{p}.c}}')", "fstring-bracket-pieces"), (f"{p}.g(f'[{{{p}.a{m}}},{{{p}.b}}]', f'{{{p}.c}}:')", "fstring-bracket-pieces"),
            (f"{p}.g(f'{{{p}.a{m}}}}}}}', f'{{{{{{{p}.b}}')", "fstring-bracket-pieces"),
            (f"{p}.h{m}(f\"{{{p}.a{m}}}\" + f'x{{{p}.js{m}.Select(lambda j: j.pt)}}y')", "fstring-nested-lambda"), (f"{p}.js{m}.Where(lambda {p}: {p}.pt > {m}).Select(lambda q: (q.a, q.b))", "two-nested"),
        ]
        if multiline:
            forms = [
                (f"({p}.a{m} +\n{{IND}}    {p}.b{m})", "ml-paren"), (f"{p}.f{m}(\n{{IND}}    {m},\n{{IND}}    {p}.c)", "ml-call"),
                (f"({p}.a{m},  # lambda q: (q\n{{IND}}     {p}.c{m})", "ml-comment"), (f"[{p}.a{m},\n{{IND}}     {p}.b]", "ml-bracket"),
                (f"{{'a': {p}.a{m},\n{{IND}}     'b': {p}.b}}", "ml-brace"), (f"({p}.a{m}\n{{IND}}     if {p}.b > {m}\n{{IND}}     else {p}.c)", "ml-ifexp"),
                (f"{p}.js{m}.Select(\n{{IND}}    lambda j: j.pt + {m})", "ml-nested"),
            ]
        return r.choice(forms)

    def pname(self):
        return self.r.choice(["e", "e", "e", "x", "j", "evt"])

    def op(self, exclude=()):
        return self.r.choice([o for o in ["Select", "Select", "SelectMany"] if o not in exclude])

    def stmt(self):
        t, sup, nt, text, form = self.stmt0()
        if "\n" not in text and text.startswith("r = ") and self.r.random() < 0.12:
            # non-ASCII text in front of the call on the same line (python counts columns in bytes, tokenizers in characters)
            text = f"r = ('{self.r.choice(['é', 'ü', '中', '😀']) * self.r.randint(3, 40)}', {text[4:]})[1]"
            nt = True
        return t, sup, nt, text, form

    def stmt0(self):
        """-> (template, supported?, nontrivial?, statement text with {IND}, body form)"""
        r = self.r
        t = r.choice([
            "single", "single", "chain_names", "chain_args", "chain_same", "black", "break_after_paren", "closing_own_line", "mixed_break", "decoy_before",
            "decoy_after", "decoy_prevline", "decoy_nextline", "oneline_def_lambda", "in_list", "in_dict", "multiline_body", "semicolon", "comment_lines", "kwarg_after",
            "trailing_comma", "chain_multibody", "nested_call_arg", "cond_expr", "backslash", "comprehension", "where_single", "where_chain", "lambda_own_line_chain",
            "decoy_default_arg", "string_noise_line", "def_by_name", "def_by_name_docstring", "lambda_var", "three_chain_args",
            "def_nested_by_name", "kwarg_lambda", "factory_lambda", "kwarg_const_after", "user_wrapper_const", "two_param_elsewhere", "after_multiline_string", "after_multiline_string", "cond_lambda_arg", "cond_lambda_arg", "cond_lambda_two_calls", "cond_lambda_two_calls", "list_lambda_arg", "or_lambda_arg", "dict_lambda_arg", "wrapped_lambda_arg",
            "outer_bracket_continuation", "outer_bracket_continuation", "posonly_single", "first_arg_wrapper_const", "first_arg_wrapper_const", "backslash_string_decoy", "paren_lambda_names", "after_multiline_lambda_close", "unrelated_lambda_not_arg", "unrelated_lambda_not_arg",
            "hard_lambda_between", "hard_lambda_between",
        ])
        p = self.pname()
        B = lambda **kw: self.body(p, **kw)  # noqa
        if t == "single":
            b, f = B()
            return t, True, False, f"r = ds.{self.op()}(lambda {p}: {b})", f
        if t == "where_single":
            b, f = B(where=True)
            return t, True, False, f"r = ds.Where(lambda {p}: {b})", f
        if t == "chain_names":
            (b1, f), (b2, _) = B(), B()
            return t, True, True, f"r = ds.Select(lambda {p}: {b1}).SelectMany(lambda {p}: {b2})", f
        if t == "where_chain":
            (b1, f), (b2, _) = B(where=True), B()
            return t, True, True, f"r = ds.Where(lambda {p}: {b1}).Select(lambda {p}: {b2})", f
        if t == "chain_args":
            q = "zz" if p != "zz" else "yy"
            (b1, f) = B()
            b2, _ = self.body(q)
            return t, True, True, f"r = ds.Select(lambda {p}: {b1}).Select(lambda {q}: {b2})", f
        if t == "three_chain_args":
            (b1, f) = B()
            b2, _ = self.body("q2")
            b3, _ = self.body("q3")
            return t, True, True, f"r = ds.Select(lambda {p}: {b1}).Select(lambda q2: {b2}).Select(lambda q3: {b3})", f
        if t == "chain_same":
            (b1, f), (b2, _) = B(), B()
            return t, False, True, f"r = ds.Select(lambda {p}: {b1}).Select(lambda {p}: {b2})", f
        if t == "black":
            n = r.randint(2, 4)
            lines = "\n".join(f"{{IND}}    .{self.op()}(lambda {p}: {self.body(p)[0]})" for _ in range(n))
            return t, True, True, f"r = (\n{{IND}}    ds\n{lines}\n{{IND}})", "black"
        if t == "lambda_own_line_chain":
            (b1, f), (b2, _) = B(), B()
            return t, False, True, f"r = ds.Select(\n{{IND}}    lambda {p}: {b1}\n{{IND}}).Select(\n{{IND}}    lambda {p}: {b2}\n{{IND}})", f
        if t == "break_after_paren":
            b, f = B()
            return t, True, True, f"r = ds.{self.op()}(\n{{IND}}    lambda {p}: {b}\n{{IND}})", f
        if t == "closing_own_line":
            b, f = B()
            return t, True, True, f"r = ds.{self.op()}(lambda {p}: {b}\n{{IND}})", f
        if t == "mixed_break":
            (b1, f), (b2, _) = B(), B()
            return t, False, True, f"r = ds.Select(lambda {p}: {b1}).Select(\n{{IND}}    lambda {p}: {b2})", f
        if t == "decoy_before":
            (b1, f), (b2, _) = B(), B()
            return t, False, True, f"r = ds.Select(lambda {p}: {b1}) if helper(lambda {p}: {b2}) else None", f
        if t == "decoy_after":
            b, f = B()
            return t, False, True, f"r = keep(sorted([1], key=lambda {p}: {p}), ds.Select(lambda {p}: {b}))", f
        if t == "decoy_prevline":
            (b1, f), (b2, _) = B(), B()
            return t, False, True, f"other = helper(lambda {p}: {b2},\n{{IND}}    1)\n{{IND}}r = ds.Select(\n{{IND}}    lambda {p}: {b1})", f
        if t == "decoy_nextline":
            (b1, f), (b2, _) = B(), B()
            return t, False, True, f"r = ds.Select(lambda {p}: {b1})\n{{IND}}other = helper(lambda {p}: {b2})", f
        if t == "decoy_default_arg":
            (b1, f), (b2, _) = B(), B()
            return t, False, True, f"def inner(g=lambda {p}: {b2}): return g\n{{IND}}r = ds.Select(lambda {p}: {b1})", f
        if t == "oneline_def_lambda":
            return t, False, True, "@ONELINE", "attr"
        if t == "in_list":
            (b1, f), (b2, _) = B(), B()
            return t, False, True, f"lst = [ds.Select(lambda {p}: {b1}),\n{{IND}}       ds.Select(lambda {p}: {b2})]\n{{IND}}r = lst[{r.randint(0, 1)}]", f
        if t == "in_dict":
            b, f = B()
            return t, False, True, f"r = {{'k': ds.Select(lambda {p}: {b})}}['k']", f
        if t == "multiline_body":
            b, f = B(multiline=True)
            return t, True, True, f"r = ds.{self.op()}(lambda {p}: {b})", f
        if t == "semicolon":
            b, f = B()
            return t, False, True, f"q = 1; r = ds.Select(lambda {p}: {b}); q = 2", f
        if t == "comment_lines":
            b, f = B()
            return t, True, True, f"r = ds.Select(  # lambda {p}: {p}.nope)\n{{IND}}    # lambda {p}: ({p}.nope2\n{{IND}}    lambda {p}: {b}  # trailing ( ) , lambda q: (\n{{IND}})", f
        if t == "string_noise_line":
            b, f = B()
            return t, True, True, f"r = keep('lambda {p}: ({p}.nope,', ds.Select(lambda {p}: {b}))", f
        if t == "kwarg_after":
            b, f = B()
            return t, False, False, f"r = ds.Select(lambda {p}: {b}, known_types={{}})", f
        if t == "trailing_comma":
            b, f = B()
            return t, False, True, f"r = ds.Select(\n{{IND}}    lambda {p}: {b},\n{{IND}})", f
        if t == "chain_multibody":
            (b1, f), (b2, _) = B(multiline=True), B()
            return t, False, True, f"r = ds.Select(lambda {p}: {b1}).Select(lambda {p}: {b2})", f
        if t == "nested_call_arg":
            b, f = B()
            return t, False, False, f"r = keep(1, ds.Select(lambda {p}: {b}))", f
        if t == "cond_expr":
            (b1, f), (b2, _) = B(), B()
            return t, False, True, f"r = ds.Select(lambda {p}: {b1}) if True else ds.Select(lambda {p}: {b2})", f
        if t == "backslash":
            b, f = B()
            return t, False, True, f"r = ds \\\n{{IND}}    .Select(lambda {p}: {b})", f
        if t == "comprehension":
            b, f = B()
            return t, False, True, f"r = [ds.Select(lambda {p}: {b}) for _ in range(1)][0]", f
        if t == "cond_lambda_arg":
            (b1, f), (b2, _) = B(), B()
            flag = r.choice(["FLAG[0]", "not FLAG[0]"])
            return t, False, True, f"r = ds.Select((lambda {p}: {b1}) if {flag} else (lambda {p}: {b2}))", f
        if t == "cond_lambda_two_calls":
            (b1, f), (b2, _), (b3, _), (b4, _) = B(where=True), B(where=True), B(), B()
            return t, False, True, f"r = ds.Where((lambda {p}: {b1}) if FLAG[0] else (lambda {p}: {b2})).Select((lambda {p}: {b3}) if FLAG[1] else (lambda {p}: {b4}))", f
        if t == "list_lambda_arg":
            (b1, f), (b2, _) = B(), B()
            return t, False, True, f"r = ds.Select([lambda {p}: {b1}, lambda {p}: {b2}][{r.randint(0, 1)}])", f
        if t == "or_lambda_arg":
            (b1, f), (b2, _) = B(), B()
            return t, False, True, f"r = ds.Select({r.choice(['None', '0'])} or (lambda {p}: {b1}) or (lambda {p}: {b2}))", f
        if t == "dict_lambda_arg":
            (b1, f), (b2, _) = B(), B()
            return t, False, True, f"r = ds.Select({{'a': lambda {p}: {b1}, 'b': lambda {p}: {b2}}}['{r.choice('ab')}'])", f
        if t == "wrapped_lambda_arg":
            (b1, f), (b2, _) = B(), B()
            return t, False, True, f"r = ds.Select(keep(lambda {p}: {b1}, lambda {p}: {b2}))", f
        if t == "def_nested_by_name":
            self.k += 1
            m = self.k
            if r.random() < 0.4:
                # a one-line def (inside an indented block) whose return holds a multi-line string: continuation lines more and less
                # indented than the def
                return t, True, True, f"def sel({p}): return ({p}.n{m}, {p}.g(\'\'\'ab{m}\n{{IND}}        cd\n  ef\nx\'\'\'))\n{{IND}}def other({p}): return {p}.decoy{m}\n{{IND}}r = ds.Select(sel)", "def-multiline-string"
            return t, True, True, f"def sel({p}): return ({p}.n{m}, {p}.f{m}({m}))\n{{IND}}def other({p}): return {p}.decoy{m}\n{{IND}}r = ds.Select(sel)", "attr"
        if t == "factory_lambda":
            (b1, f), (b2, _) = B(), B()
            if r.random() < 0.4:
                # ... made through a generator expression inside the other lambda (with the very same parameter name)
                return t, False, True, f"r = ds.Select((lambda {p}: next((lambda {p}: ({b2}, 1)) for _ in [0]))(0))", f
            return t, False, True, f"r = ds.Select(lambda {p}: {b1}).Select((lambda sc: lambda {p}: ({b2}, sc))(2))", f
        if t == "kwarg_const_after":
            self.k += 1
            return t, False, True, r.choice([f"r = ds.Where(lambda {p}: True).Where(filter=lambda {p}: False)", f"r = ds.Select(lambda {p}: {self.k}).Select(f=lambda {p}: -{self.k})"]), "constant-body"
        if t == "user_wrapper_const":
            self.k += 1
            b1, f = B()
            return t, False, True, f"r = then(ds.Select(lambda {p}: {b1}), lambda {p}: {self.k})", f
        if t == "two_param_elsewhere":
            b1, f = B()
            return t, True, True, f"helper(lambda a, b: a + b, [1, 2]); r = ds.Select(lambda {p}: {b1})", f
        if t == "after_multiline_string":
            b1, f = B()
            k = r.random()
            if k < 0.3:
                # the lines of the string start in the first column (as a statement would), its text reads like a call whose own
                # quote swallows the real one
                return t, False, True, f'note = """usage:\nSelect(lambda {p}: 1 if {p}.kind == \'b-jet """; r = ds.Select(lambda {p}: {b1})  # \' else 0)', f
            if k < 0.5:
                return t, False, True, f'r = ds.Where(lambda q: q.title != """\nold = ds.Select(lambda {p}: {p}.fake) """).Select(lambda {p}: {b1})  # """', f
            return t, False, True, f'r = ds.Where(lambda q: q.title != """\n old: Select(lambda {p}: {p}.fake) """).Select(lambda {p}: {b1})  # """', f
        if t == "outer_bracket_continuation":
            # the body runs over several lines WITHOUT brackets of its own: it leans on a bracket opened on an earlier line
            self.k += 1
            m = self.k
            cont = r.choice([f"{p}.a{m} +\n{{IND}}        {p}.b{m}", f"{p}.a{m}\n{{IND}}        .tail{m}", f"{p}.a{m} > {m}\n{{IND}}        and {p}.c{m} < 2",
                             f"{p}.a{m} if {p}.b\n{{IND}}        else {p}.c{m}", f"{p}.a{m}  # lambda {p}: ({p}.no\n{{IND}}        * {p}.b{m}",
                             # continuation lines that START no instruction of their own: the tail of a constant python folds at
                             # compile time, the second half of adjacent string literals, the empty brackets of a call
                             f"{p}.a{m} > 30\n{{IND}}        * 1000.0", f"{p}.trig{m} == 'HLT_{m}_'\n{{IND}}        'tail'", f"{p}.cnt{m}\n{{IND}}        ()",
                             f"{p}.a{m} + 2\n{{IND}}        * 0.25"])
            form = r.choice(["first", "first", "second", "list"])
            if form == "first":
                return t, True, True, f"r = ds.{self.op()}(\n{{IND}}    lambda {p}: {cont}\n{{IND}})", "ml-outer"
            if form == "second":
                return t, False, True, f"r = keep(\n{{IND}}    FLAG, ds.Select(\n{{IND}}    lambda {p}: {cont}\n{{IND}}))", "ml-outer"
            return t, False, True, f"r = ds.Select([\n{{IND}}    FLAG, lambda {p}: {cont}\n{{IND}}][1])", "ml-outer"
        if t == "posonly_single":
            # a lambda whose one parameter is positional-only: a one-parameter lambda like any other
            (b1, f) = B()
            b2, _ = self.body("q2")
            return t, True, True, r.choice([f"r = ds.{self.op()}(lambda {p}, /: {b1})", f"r = ds.Select(lambda {p}, /: {b1}).Select(lambda q2: {b2})", f"r = ds.Select(lambda {p}: {b1}).Select(lambda q2, /: {b2})"]), f
        if t == "first_arg_wrapper_const":
            # a constant-body lambda handed to a helper as its FIRST argument, the helper passes it on; another first-argument lambda
            # with the same parameter on the line
            self.k += 1
            b1, f = B()
            if r.random() < 0.3:
                # ... or two lambdas that differ in nothing but a default value (no part of the code python keeps)
                d1, d2 = r.choice([("1", "2"), ("-1", "-2"), ("(1, 2)", "(3, 4)"), ("LO", "HI"), ("1", "LO"), ("'a'", "'b'")])
                return t, False, True, f"r = with_flag(lambda {p}, *, k_={d1}: {p}.f(k_), ds).Select(lambda {p}, *, k_={d2}: {p}.f(k_))", "default-only-difference"
            if r.random() < 0.3:
                # ... or in constants that compare equal and are different values (1 / True / 1.0, 0.0 / -0.0): as the whole body
                # (python keeps no position for it), or inside an ordinary body (no positions under -X no_debug_ranges)
                c1, c2 = r.choice([("1", "True"), ("True", "1"), ("1", "1.0"), ("0", "False"), ("0.0", "-0.0"), ("2.0", "2"), ("(1, 2)", "(1.0, 2)")])
                w1, w2 = r.choice([("{c}", "{c}"), ("{p}.f({c})", "{p}.f({c})"), ("{p}.a + {c}", "{p}.a + {c}"), ("({p}.a, {c})", "({p}.a, {c})")])
                x1, x2 = w1.format(p=p, c=c1), w2.format(p=p, c=c2)
                return t, False, True, r.choice([f"r = with_flag(lambda {p}: {x1}, ds).Select(lambda {p}: {x2})", f"r = with_flag(lambda {p}: {x1}, ds.Select(lambda {p}: {x2}))"]), "equal-comparing-constants"
            return t, False, True, r.choice([f"r = with_flag(lambda {p}: {self.k}, ds).Select(lambda {p}: {b1})", f"r = with_flag(lambda {p}: {self.k}, ds.Select(lambda {p}: {b1}))",
                                             f"r = with_flag(lambda {p}: 's{self.k}', ds.Select(lambda {p}: {b1}).Select(lambda {p}: {self.k}))"]), "constant-body"
        if t == "backslash_string_decoy":
            # the line of the call starts inside a one-quote string continued with a backslash; the string holds code-like text
            self.k += 1
            return t, False, True, f"note = 'the old query was \\\n{{IND}}ds.Select(lambda {p}: {self.k}) # '; r = ds.Select(lambda {p}: -{self.k})", "constant-body"
        if t == "paren_lambda_names":
            b1, f = B()
            return t, True, True, r.choice([f"r = ds.Select((lambda {p}: {b1})).Where(lambda {p}: True)", f"r = ds.Where(lambda {p}: True).Select((lambda {p}: {b1}))",
                                            f"r = sorted([ds.Where(lambda {p}: True)], key=lambda {p}: 0)[0].Select(lambda zz: {self.body('zz')[0]})"]), f
        if t == "after_multiline_lambda_close":
            (b1, f), (b2, _) = B(), B(where=True)
            return t, True, True, f"r = ds.Select(lambda {p}: {p}.js.Select(\n{{IND}}    lambda j: j.pt + 1)).Where(lambda pts: {self.body('pts', where=True)[0]})", "where"
        if t == "unrelated_lambda_not_arg":
            # another lambda on the line that is no argument of a call (in a list / dict display, assigned, after a semicolon)
            b1, f = B()
            return t, True, True, r.choice([f"scale = [lambda x_: x_ * 2]; r = ds.Select(lambda {p}: {b1})", f"r = {{'pt': ds.Select(lambda {p}: {b1}), 'scale': lambda x_: x_ * 2}}['pt']",
                                            f"r = ds.Select(lambda {p}: {b1}); scale = lambda x_: x_ * 2", f"r = (ds.Select(lambda {p}: {b1}), [lambda x_: [x_, 8][0]])[0]"]), f
        if t == "hard_lambda_between":
            # two calls of one operator on the line, their lambdas taking the same name, and BETWEEN them a lambda that is hard to
            # cut out of the line (an inner lambda's parameter list, brackets and commas in strings, defaults holding tuples)
            (b1, f), (b2, _) = B(), B()
            mid = r.choice(["lambda x_: lambda a_, b_: a_ + b_", "lambda x_: lambda a_, b_: a_ + b_", "lambda x_, k_=(1, 2): lambda *a_, **b_: (x_, a_)", "lambda x_: x_ == '),('",
                            "lambda x_: [lambda a_, b_=[1, 2]: a_][0]", "lambda: lambda a_, b_: 0", f"lambda {p}: lambda {p}, b_: {p}"])
            return t, False, True, r.choice([f"r = first_of(ds.Select(lambda {p}: {b1}), {mid}).Select(lambda {p}: {b2})",
                                             f"r = first_of(ds.Select(lambda {p}: {b1}), {mid}, ds.Select(lambda {p}: {b2}))",
                                             f"r = first_of(ds, {mid}).Select(lambda {p}: {b1}).Select(lambda {p}: {b2})"]), f
        if t == "kwarg_lambda":
            b, f = B()
            return t, False, False, f"r = ds.Select(f=lambda {p}: {b})", f
        if t == "def_by_name":
            return t, True, False, "@DEFNAME", "attr"
        if t == "def_by_name_docstring":
            return t, False, True, "@DEFNAMEDOC", "attr"
        if t == "lambda_var":
            b, f = B()
            return t, False, True, f"fn = lambda {p}: {b}\n{{IND}}r = ds.Select(fn)", f
        raise AssertionError(t)

    def func(self, i):
        t, sup, nt, s, form = self.stmt()
        r = self.r
        ctx = r.choice(["plain", "nested", "if", "class", "for", "try", "with", "decorated", "tabs"])
        if s == "@ONELINE":
            p = self.pname()
            return t, "plain", False, True, form, f"def case{i}(ds): return ds.Select(lambda {p}: {self.body(p)[0]})\n"
        if s in ("@DEFNAME", "@DEFNAMEDOC"):
            p = self.pname()
            self.k += 1
            m = self.k
            doc = f'\n    "doc lambda {p}: ("' if s == "@DEFNAMEDOC" else ""
            if doc and r.random() < 0.5:
                # ... or a statement in front of the return that takes part in what the function does (an assert python only drops
                # under -O, a condition that raises): no lambda says the same
                doc = r.choice([f"\n    assert {p}.ok{m}, 'lambda {p}: ('", f"\n    assert {p}.n{m} > 0", f"\n    if {p}.bad{m}: raise KeyError({m})", f'\n    "doc"\n    assert {p}.ok{m}'])
            look = f"def sel{i}_a({p}): return {p}.decoy{m}\n" if r.random() < 0.5 else ""
            after = f"def sel{i}_z({p}): return {p}.decoy2{m}\n" if r.random() < 0.5 else ""
            if s == "@DEFNAME":
                # (now and then with type hints on the parameter and the result)
                hint, rhint = (": 'Evt'", " -> 'tuple'") if r.random() < 0.3 else ("", "")
                fn = f"{look}def sel{i}({p}{hint}){rhint}: return ({p}.a{m}, {p}.f{m}({m}))\n{after}"
            else:
                fn = f"{look}def sel{i}({p}):{doc}\n    return ({p}.a{m}, {p}.f{m}({m}))\n{after}"
            return t, "plain", sup, nt or bool(look or after), form, fn + f"def case{i}(ds):\n    r = ds.Select(sel{i})\n    return r\n"
        if ctx == "plain":
            ind, pre, post = "    ", f"def case{i}(ds):\n", "    return r\n"
        elif ctx == "tabs":
            ind, pre, post = "\t", f"def case{i}(ds):\n", "\treturn r\n"
        elif ctx == "nested":
            ind, pre, post = "        ", f"def case{i}(ds):\n    def inner():\n", "        return r\n    return inner()\n"
        elif ctx == "if":
            ind, pre, post = "        ", f"def case{i}(ds):\n    if ds is not None:\n", "    return r\n"
        elif ctx == "for":
            ind, pre, post = "        ", f"def case{i}(ds):\n    for _ in range(1):\n", "    return r\n"
        elif ctx == "with":
            ind, pre, post = "        ", f"def case{i}(ds):\n    with cm():\n", "    return r\n"
        elif ctx == "try":
            ind, pre, post = "        ", f"def case{i}(ds):\n    try:\n", "    finally:\n        pass\n    return r\n"
        elif ctx == "decorated":
            ind, pre, post = "    ", f"@deco\ndef case{i}(ds):\n", "    return r\n"
        else:
            ind, pre, post = "            ", f"class K{i}:\n    class In:\n        @staticmethod\n        def go(ds):\n", f"            return r\ncase{i} = K{i}.In.go\n"
        return t, ctx, sup, nt, form, pre + ind + s.replace("{IND}", ind) + "\n" + post


HEADER = modgen.DS_HEADER + '''
import contextlib
FLAG = [True, True]
LO, HI = 10, 20
def helper(f, *a): return True
def keep(a, b): return b
def first_of(s, *a): return s
def then(s, f): return s.Select(f)
def with_flag(f, d): return d.Select(f)
def deco(f): return f
@contextlib.contextmanager
def cm():
    yield
'''


def judge_events(ctx, events, t, cx, sup, nt, form, text):
    key = f"{t}|{cx}|{form}"
    if not events:
        ctx.count("no-operator-event:" + t)
        return
    for ev in events:
        ctx.case(key + f"|{ev['op']}", nontrivial=nt)
        ctx.count("template:" + t)
        ctx.count("context:" + cx)
        witness = {"template": t, "context": cx, "source": text, "op": ev["op"]}
        d = ev.get("direct")
        if isinstance(d, ast.Lambda):
            try:
                got_d = probe.behaviour(probe.compile_lambda(d))
            except Exception as e:
                got_d = frozenset([((), f"<compile/eval failed: {type(e).__name__}: {e}>")])
            ctx.count("parse_as_ast-direct:returned")
            if got_d != ev["expected"]:
                ctx.violation(f"parse_as_ast-without-caller-name:wrong-lambda:{t}", f"parse_as_ast(callable) for layout '{t}' returned {astx.unparse(d)[:160]} but the callable behaves {probe.describe(ev['expected'], 2)}\n{text}", witness)
        else:
            ctx.count("parse_as_ast-direct:raised")
        if ev["exc"] is not None:
            if isinstance(ev["exc"], Exception):
                ctx.count(f"raised:{t}:{type(ev['exc']).__name__}")
                if sup:
                    ctx.violation(f"supported-layout-refused:{t}", f"documented-supported layout '{t}' in context {cx}: {type(ev['exc']).__name__}: {str(ev['exc'])[:160]}\n{text}", witness)
            continue
        lam = ev["result"].query_ast.args[1]
        try:
            fn = probe.compile_lambda(lam)
            got = probe.behaviour(fn)
        except Exception as e:
            got = frozenset([((), f"<compile/eval failed: {type(e).__name__}: {e}>")])
        # what was recorded is a lambda one can write down: its text parses back to the same structure
        try:
            back = astx.parse_expr(astx.unparse(lam))
            if not astx.struct_eq(back, lam) and astx.unparse(back) != astx.unparse(lam):
                raise SyntaxError("text reads back as another lambda")
            ctx.count("recorded-lambda-text-round-trips")
        except SyntaxError as e:
            ctx.violation(f"recorded-lambda-cannot-be-written-down:{t}", f"layout '{t}': the recorded lambda unparses to {astx.unparse(lam)[:160]!r} ({e})\n{text}", witness)
            continue
        if got != ev["expected"]:
            ctx.violation(f"wrong-lambda-recorded:{t}", f"layout '{t}' in context {cx}: passed callable behaves {probe.describe(ev['expected'], 2)}, recorded lambda behaves {probe.describe(got, 2)} ({astx.unparse(lam)[:160]})\n{text}", witness)
        else:
            ctx.count("recovered-and-equal")
            if len(ctx.samples) < 4 and nt and ctx.rnd.random() < 0.01:
                ctx.sample({"template": t, "context": cx, "source": text, "recorded": astx.unparse(lam)})


def run_file(ctx, rnd, ncases):
    lg = LG(rnd)
    cases = [lg.func(i) for i in range(ncases)]
    src = HEADER + "\n".join(c[5] for c in cases)
    if rnd.random() < 0.15:
        # a file that declares another encoding than utf-8 for itself (PEP 263) and is written in it: python still counts the
        # columns of its instructions in utf-8 bytes
        enc, a, b = rnd.choice([("latin-1", "é", "ü"), ("cp1251", "ж", "я"), ("iso-8859-15", "é", "ß")])
        src = f"# -*- coding: {enc} -*-\n" + src.replace("中", a).replace("😀", b).replace("é", a).replace("ü", b)
        try:
            src.encode(enc)
            ctx.count("files-written-in-a-declared-non-utf-8-encoding")
        except UnicodeEncodeError:
            src = src.split("\n", 1)[1]
    try:
        compile(src, "<gen>", "exec")
    except SyntaxError as e:
        ctx.count("harness:generated-file-syntax-error")
        ctx.notes.setdefault("syntax_errors", []).append(str(e))
        return
    m = modgen.load(src, "c03")
    # every case runs several times (state kept between calls must not matter); the flags that select
    # between lambdas on a line change in between
    for flags in ([True, True], [False, False], [True, False], [False, True]):
        m.FLAG[:] = flags
        for i, (t, cx, sup, nt, form, text) in enumerate(cases):
            if flags != [True, True] and "FLAG" not in text and ctx.rnd.random() < 0.6:
                continue
            del EVENTS[:]
            try:
                getattr(m, f"case{i}")(m.DS())
            except Exception:
                pass
            judge_events(ctx, list(EVENTS), t, cx, sup, nt, form, text + f"# FLAG={flags}")
    # history: the same file is edited (other lambdas at the same and at shifted lines) and loaded again in this process
    if rnd.random() < 0.5:
        lg2 = LG(random.Random(rnd.random()))
        keep = rnd.random() < 0.5  # same number of cases (lines mostly coincide) or a different one (everything shifts)
        cases2 = [lg2.func(i) for i in range(ncases if keep else max(5, ncases - rnd.randint(1, 9)))]
        src2 = HEADER + "\n".join(c[5] for c in cases2)
        try:
            compile(src2, "<gen>", "exec")
        except SyntaxError:
            ctx.count("harness:generated-file-syntax-error")
            modgen.unload(m)
            return
        m.FLAG[:] = [True, True]
        modgen.rewrite(m, src2)
        ctx.count("files-edited-and-reloaded")
        for i, (t, cx, sup, nt, form, text) in enumerate(cases2):
            del EVENTS[:]
            try:
                getattr(m, f"case{i}")(m.DS())
            except Exception:
                pass
            ctx.count("cases-after-reload")
            judge_events(ctx, list(EVENTS), t, "reloaded:" + cx, sup, True, form, text + "# after the file was edited and reloaded")
    modgen.unload(m)


def shard_main(ctx):
    install()
    for f in range(N_FILES[ctx.tier]):
        if ctx.out_of_time():
            ctx.count("stopped-by-time-budget")
            break
        rnd = random.Random((ctx.seed * 1000 + ctx.shard) * 7919 + f)
        run_file(ctx, rnd, rnd.randint(25, 45))
        ctx.count("files")
    modgen.cleanup()


def replay(ctx, witness):
    install()
    text = witness["source"]
    name = [ln.split("(")[0].split()[1] for ln in text.splitlines() if ln.startswith("def case")]
    assign = [ln.split("=")[0].strip() for ln in text.splitlines() if ln.startswith("case")]
    m = modgen.load(HEADER + text, "c03r")
    fn = (name or assign)[0]
    del EVENTS[:]
    try:
        getattr(m, fn)(m.DS())
    except Exception:
        pass
    judge_events(ctx, list(EVENTS), witness["template"], witness["context"], False, True, "replay", text)
    modgen.cleanup()
