"""C04 - captured variables are frozen by value at the call, respecting scope (DESIGN.md section 4, C04)."""
import ast
import collections
import enum
import random

from .. import astx, hooks, modgen, probe, valgen
from ..core import REPO
from ..refeval import Seq

N_FILES = {"quick": 16, "thorough": 7500}
TIME_BUDGET = {"quick": 60, "thorough": 270}
META = {
    "rule": "generated modules (real files): each case is a lambda passed to Select/Where/SelectMany whose free names resolve to closure cells "
    "(1-2 levels of enclosing functions), module globals, class constants (A.K, A.B.K, A.B.C.K), module attributes (math.pi, attributes "
    "and class constants of a generated helper module), mixed in one body, at lambda depth 0-2; the same names also used as parameters "
    "of the operator lambda or of nested lambdas (must stay untouched; also re-bound by a nested lambda and then used bare again; also "
    "attribute names python's own ast nodes have) and as comprehension targets; module globals named like the closure variables;  values int/float/bool/hostile "
    "str/bytes (transportable) and None/list/tuple/dict/set/object (must raise ValueError); monitor at the operator boundary snapshots "
    "behaviour(callable) at entry (python's own resolution at call time, symbolic probe) and requires behaviour(recorded lambda compiled "
    "in an EMPTY environment) to equal it after return and after every step of a history that rebinds / deletes each captured name "
    "(globals reassigned and deleted, closure cells rewritten through a setter, class and module attributes patched), after further "
    "derivation, and on the AST the executor receives; comprehension scoping is decided on concrete data; distinct by (body, value "
    "types); non-trivial = at least one capture actually replaced AND an effective rebinding step (the callable's behaviour changed)",
    "assumptions": ["constants inside a captured helper's body are C05's", "Enum members stay by name (documented)"],
    "floor_evaluations": {"quick": 1500, "thorough": 50000},
    "floor_nontrivial": {"quick": 400, "thorough": 15000},
    "threads": 3,
    "anchors": ["func_adl/util_ast.py", "func_adl/object_stream.py"],
}


class Thing:
    def __repr__(self):
        return "Thing()"


def gen_value(rnd, transportable):
    if transportable:
        k = rnd.random()
        if k < 0.3:
            return rnd.choice([0, 1, -7, 42, 10**20])
        if k < 0.5:
            return rnd.choice([0.5, -2.25, 1e300, 3.0, float("inf"), -float("inf"), -0.0, 5e-324])
        if k < 0.6:
            return rnd.choice([True, False])
        if k < 0.9:
            return valgen.gen_str(rnd)
        return rnd.choice([b"x", b"a'b", b""])
    return rnd.choice([None, [1, 2], (1, 2), {"a": 1}, {1, 2}, "THING", [], ()])


def lit(v):
    return "Thing()" if v == "THING" else repr(v)


class CaseGen:
    def __init__(self, rnd, hm_name):
        self.r, self.hm = rnd, hm_name
        self.k = 0

    def make(self, i):
        """-> dict(text, names: {capture atom: (kind, value)}, expect_refusal, op)"""
        r = self.r
        self.k += 1
        m = self.k
        ncap = r.randint(1, 4)
        pool = ["c0", "c1", "G0", "G1", "G2", "A.K", "A.B.K", "A.B.C.K", "math.pi", "math.e", f"{self.hm}.VAL_A", f"{self.hm}.VAL_B", f"{self.hm}.HC.K"]
        # attributes python computes rather than stores: namedtuple field, __slots__ member, property, .value of an enum member held
        # in a variable, module attribute served by a module-level __getattr__
        pool += ["NT.pt", "SO.scale", "SO.twice", "EN.value", f"{self.hm}.LAZY"]
        atoms = r.sample(pool, ncap)
        any_bad = r.random() < 0.2
        values = {}
        for a in pool:
            if a.startswith("math."):
                continue
            values[a] = gen_value(r, True)
        bad_atom = None
        if any_bad:
            cands = [a for a in atoms if not a.startswith("math.")]
            if cands:
                bad_atom = r.choice(cands)
                values[bad_atom] = gen_value(r, False)
        # shadowing: a parameter named like a capture
        shadow_outer = r.random() < 0.2
        shadow_nested = r.random() < 0.35
        simple_caps = [a for a in ["c0", "c1", "G0", "G1", "G2"]]
        p = r.choice(simple_caps) if shadow_outer else r.choice(["e", "evt"])
        replaced = [a for a in atoms if a.split(".")[0] != p]
        parts = []
        for a in atoms:
            form = r.randint(0, 3)
            if a.split(".")[0] == p:
                # the name is the lambda's own parameter here: this is a use of the parameter
                parts.append(f"{p}.u{m}({a}.z)" if "." not in a else f"{p}.u{m}({a})")
                continue
            form = r.randint(0, 7) if "." not in a else form
            if form == 7:
                # a lambda written INSIDE a default value whose own parameter carries the capture's name: it binds the name inside
                # itself only - in the body of the lambda that has the default the name is the captured variable
                parts.append(f"{p}.jets.Select(lambda j, *, cal{m}=(lambda {a}: {a}.w): j.h{m}(cal{m}(j.pt), {a}))")
            elif form == 4:
                # the capture as DEFAULT of a nested lambda's parameter of the same name (a default is evaluated outside the lambda)
                parts.append(f"{p}.jets.Select(lambda j, {a}={a}: j.h{m}({a}, j.pt))")
            elif form == 5:
                # *name / keyword-only parameters of a nested lambda named like the capture: uses inside are the parameter
                parts.append(f"{p}.fn{m}(lambda *{a}: {a}, lambda j, *, k{m}={a}: (j, k{m}), {a})")
            elif form == 6 and isinstance(values.get(a), str) and values.get(a) != "THING":
                # a method of the captured value (methods without parameters: the type follower fills in a builtin's declared
                # defaults, e.g. strip(None), which is another matter)
                parts.append(f"{p}.f{m}({a}.upper(), {a}.swapcase().lower())")
            elif form == 0 or form > 3:
                parts.append(f"{p}.f{m}({a})")
            elif form == 1:
                parts.append(f"{p}.g{m}(k={a})")
            elif form == 2:
                parts.append(f"{p}.jets.Select(lambda j: j.h{m}({a}, j.pt))")
            else:
                parts.append(f"{p}.jets.Select(lambda j: j.trks.Select(lambda t: t.w{m}({a}) + j.pt))")
        if shadow_nested:
            sh = r.choice([a for a in simple_caps if a != p])
            # nested lambda parameter named like a capture: inside, the name is the parameter (also when used bare)
            parts.append(f"{p}.jets.Select(lambda {sh}: {sh}.pt{m} + {p}.w{m}({sh}) + {sh})")
            if sh in atoms and r.random() < 0.5:
                parts.append(f"{p}.after{m}({sh})")  # and outside the nested lambda it is the capture again
        if shadow_outer:
            # the operator lambda's own parameter, named like a capture, used bare and inside nested lambdas
            parts.append(f"{p}.jets.Select(lambda j: j.h{m}({p}, {p}.z).trks.Select(lambda t: t.v({p})))")
            # ... and a nested lambda / comprehension re-binding the very same name, after which the outer one is used bare again
            parts.append(f"{p}.jets.Select(lambda {p}: {p}.pt{m})")
            parts.append(f"{p}.after_inner{m}({p})")
        elif r.random() < 0.3:
            parts.append(f"{p}.jets.Select(lambda {p}: {p}.q{m}).w({p})")
        if r.random() < 0.3:
            # attribute names that python's own ast node objects also have
            an = r.choice(["id", "lineno", "value", "attr", "func", "args", "ctx", "slice", "elts", "col_offset"])
            parts.append(r.choice([f"{p}.a.{an}", f"{p}.jets[0].{an}", f"{p}.f({m}).{an}", f"{p}.x.y.{an}"]))
        op = r.choice(["Select", "Select", "SelectMany", "Where"])
        body = "(" + ", ".join(parts) + ",)"
        if op == "Where":
            body = f"{p}.sel{m}{body} > 0"
        expect_refusal = bad_atom is not None and bad_atom in replaced
        return {"param": p, "body": body, "op": op, "atoms": atoms, "values": values, "replaced": replaced, "refusal": expect_refusal, "bad": bad_atom}


def module_source(cases, hm_name):
    src = [modgen.DS_HEADER, "import math", f"import {hm_name}", "class Thing:", "    def __repr__(self): return 'Thing()'"]
    # a top-level lambda reading the MODULE GLOBALS c0 / c1 (every case below closes over function locals of the same names)
    src.append("def gread(ds):\n    return ds.Select(lambda e: e.gr(c0, c1))")
    for i, c in enumerate(cases):
        v = c["values"]
        src.append(f"# ---- case {i}")
        src.append(f"def factory{i}(c0):")
        src.append("    def lvl2(c1):")
        src.append("        def set_c0(v):\n            nonlocal c0\n            c0 = v")
        src.append("        def set_c1(v):\n            nonlocal c1\n            c1 = v")
        src.append("        def case(ds):")
        src.append(f"            return ds.{c['op']}(lambda {c['param']}: {c['body']})")
        src.append("        def now():")
        src.append(f"            return (lambda {c['param']}: {c['body']})")
        src.append("        return case, {'c0': set_c0, 'c1': set_c1}, now")
        src.append("    return lvl2")
    return "\n".join(src) + "\n"


class Slotted:
    __slots__ = ("scale", "_tw")

    def __init__(self, scale, tw):
        self.scale, self._tw = scale, tw

    @property
    def twice(self):
        return self._tw


def set_env(m, hm, c, rnd=None):
    """bind every captured name of case c in module m / helper module hm"""
    v = c["values"]
    conv = lambda x: Thing() if x == "THING" else x  # noqa
    m.G0, m.G1, m.G2 = conv(v["G0"]), conv(v["G1"]), conv(v["G2"])
    # module globals with the same names as the closure variables: python resolves the closure cell
    m.c0, m.c1 = "decoy-global-c0", -999

    class A:
        K = conv(v["A.K"])

        class B:
            K = conv(v["A.B.K"])

            class C:
                K = conv(v["A.B.C.K"])

    m.A = A
    m.NT = collections.namedtuple("NT", ["pt", "eta"])(conv(v["NT.pt"]), 2.5)
    m.SO = Slotted(conv(v["SO.scale"]), conv(v["SO.twice"]))
    m.EN = enum.Enum("Color", {"RED": conv(v["EN.value"])}).RED
    hm._lazy["LAZY"] = conv(v[f"{hm.__name__}.LAZY"])
    hm.VAL_A, hm.VAL_B = conv(v[f"{hm.__name__}.VAL_A"]), conv(v[f"{hm.__name__}.VAL_B"])
    hm.HC.K = conv(v[f"{hm.__name__}.HC.K"])
    return conv(v["c0"]), conv(v["c1"])


def rebind_steps(m, hm, setters, c, rnd):
    """yield (description, action) for every captured name used by the case"""
    steps = []
    for a in c["atoms"]:
        nv = rnd.choice([987654, "re'bound", -0.125])
        if a in ("c0", "c1"):
            steps.append((f"closure cell {a} := {nv!r}", lambda a=a, nv=nv: setters[a](nv)))
        elif a in ("G0", "G1", "G2"):
            if rnd.random() < 0.5:
                steps.append((f"global {a} := {nv!r}", lambda a=a, nv=nv: setattr(m, a, nv)))
            else:
                steps.append((f"del global {a}", lambda a=a: delattr(m, a)))
        elif a == "A.K":
            steps.append((f"A.K := {nv!r}", lambda nv=nv: setattr(m.A, "K", nv)))
        elif a == "A.B.K":
            steps.append((f"A.B.K := {nv!r}", lambda nv=nv: setattr(m.A.B, "K", nv)))
        elif a == "A.B.C.K":
            steps.append((f"A.B.C.K := {nv!r}", lambda nv=nv: setattr(m.A.B.C, "K", nv)))
        elif a.endswith("VAL_A"):
            steps.append((f"helper module VAL_A := {nv!r}", lambda nv=nv: setattr(hm, "VAL_A", nv)))
        elif a.endswith("VAL_B"):
            steps.append((f"del helper module VAL_B", lambda: delattr(hm, "VAL_B")))
        elif a == "NT.pt":
            steps.append((f"NT := NT._replace(pt={nv!r})", lambda nv=nv: setattr(m, "NT", m.NT._replace(pt=nv))))
        elif a == "SO.scale":
            steps.append((f"SO.scale := {nv!r}", lambda nv=nv: setattr(m.SO, "scale", nv)))
        elif a == "SO.twice":
            steps.append((f"SO.twice (property) now gives {nv!r}", lambda nv=nv: setattr(m.SO, "_tw", nv)))
        elif a == "EN.value":
            steps.append((f"EN := another member with value {nv!r}", lambda nv=nv: setattr(m, "EN", enum.Enum("Color", {"RED": nv}).RED)))
        elif a.endswith(".LAZY"):
            steps.append((f"helper module LAZY (module __getattr__) := {nv!r}", lambda nv=nv: hm._lazy.__setitem__("LAZY", nv)))
        elif a.endswith("HC.K"):
            steps.append((f"helper module HC.K := {nv!r}", lambda nv=nv: setattr(hm.HC, "K", nv)))
    rnd.shuffle(steps)
    return steps


def recorded_behaviour(lam):
    try:
        return probe.behaviour(probe.compile_lambda(lam))
    except Exception as e:
        return frozenset([((), f"<compile/eval failed: {type(e).__name__}: {e}>")])


def run_case(ctx, m, hm, i, c, rnd):
    c0, c1 = set_env(m, hm, c)
    case, setters, now = getattr(m, f"factory{i}")(c0)(c1)
    text = f"ds.{c['op']}(lambda {c['param']}: {c['body']})"
    key = f"{c['body']}|{sorted((a, type(c['values'].get(a)).__name__) for a in c['atoms'])}"
    witness = {"call": text, "values": {a: repr(c["values"].get(a)) for a in c["atoms"]}, "op": c["op"]}
    expected = probe.behaviour(now())  # python's own resolution at the moment of the call
    ds = m.DS()
    unbound_c1 = rnd.random() < 0.3
    if unbound_c1:
        del m.c1
    try:
        s = case(ds)
    except ValueError as e:
        ctx.case(key, nontrivial=bool(c["replaced"]))
        if c["refusal"]:
            ctx.count("refused-non-transportable")
        else:
            ctx.violation("undesigned-ValueError", f"{text} with {witness['values']}: ValueError {str(e)[:160]}", witness)
        return
    except Exception as e:
        ctx.case(key, nontrivial=True)
        ctx.violation(f"exc:{type(e).__name__}@{astx.repo_frame(e, REPO)}", f"{text} with {witness['values']}: {type(e).__name__}: {str(e)[:160]}", witness)
        return
    lam = s.query_ast.args[1]
    # the call must not have leaked its closure variables into the module: a later top-level lambda reading the module globals
    # of the same names still gets the values the user bound there (or a free name when the global does not exist)
    try:
        glam = m.gread(m.DS()).query_ast.args[1]
        ctx.count("later-global-reads")
        want = "lambda e: e.gr('decoy-global-c0', c1)" if unbound_c1 else "lambda e: e.gr('decoy-global-c0', -999)"
        if astx.unparse(glam) != want:
            ctx.case(key, True)
            ctx.violation("closure-value-leaked-into-later-capture", f"after {text} (closure c0={c0!r}, c1={c1!r}) a later top-level lambda e: e.gr(c0, c1) with module globals c0='decoy-global-c0', c1={'<unbound>' if unbound_c1 else -999} was recorded as {astx.unparse(glam)[:160]}", witness)
            return
    except Exception as e:
        ctx.count("harness:later-global-read-failed:" + type(e).__name__)
    if c["refusal"]:
        ctx.case(key, nontrivial=True)
        ctx.violation("non-transportable-capture-accepted", f"{text}: captured {c['bad']}={c['values'][c['bad']]!r} cannot be a literal but the call succeeded: {astx.unparse(lam)[:200]}", witness)
        return
    fn = astx.free_names(lam)
    if fn:
        ctx.violation("free-name-left-in-query", f"{text}: recorded lambda still has free names {sorted(fn)}: {astx.unparse(lam)[:200]}", witness)
        ctx.case(key, True)
        return
    got = recorded_behaviour(lam)
    if got != expected:
        ctx.case(key, True)
        ctx.violation("wrong-value-or-scope-at-call", f"{text} with {witness['values']}: callable behaves {probe.describe(expected, 2)}, recorded lambda {probe.describe(got, 2)} :: {astx.unparse(lam)[:200]}", witness)
        return
    # history of rebinding / deleting
    effective = 0
    for desc, act in rebind_steps(m, hm, setters, c, rnd):
        try:
            act()
        except AttributeError:
            continue
        try:
            cur = probe.behaviour(now())
        except Exception:
            cur = None
        if cur != expected:
            effective += 1
        ctx.count("history-steps")
        if recorded_behaviour(s.query_ast.args[1]) != expected:
            ctx.case(key, True)
            ctx.violation("query-changed-after-rebinding", f"{text}: after '{desc}' the recorded lambda behaves differently: {astx.unparse(s.query_ast.args[1])[:200]}", witness)
            return
    # derive further and execute: what the executor receives still holds the frozen values
    try:
        s2 = s.Select("lambda z: z") if c["op"] != "Where" else s.Where("lambda z: z.ok > 0")
        s2.value()
        recv = ds.calls[-1][0]
        inner = recv.args[0].args[1]
        if recorded_behaviour(inner) != expected:
            ctx.violation("executor-sees-different-values", f"{text}: the AST handed to the executor behaves differently after the rebinding history: {astx.unparse(inner)[:200]}", witness)
            ctx.case(key, True)
            return
        ctx.count("executor-ast-checked")
    except Exception as e:
        ctx.count("harness:derive-execute-failed:" + type(e).__name__)
    ctx.case(key, nontrivial=bool(c["replaced"]) and effective > 0)
    ctx.count("captures-replaced", len(c["replaced"]))
    ctx.count("effective-rebinding-steps", effective)
    if len(ctx.samples) < 4 and effective and rnd.random() < 0.03:
        ctx.sample({"call": text, "captured": witness["values"], "recorded": astx.unparse(lam)[:300], "effective_rebinding_steps": effective})


COMP_SRC = modgen.DS_HEADER + '''
j = 5
k = 7
t = 'glob'
def comp_cases(ds, c0):
    out = []
    out.append(('target=global j', ds.Select(lambda e: [j.pt for j in e.jets]), lambda e: [j.pt for j in e.jets]))
    out.append(('target=global j, if uses global k', ds.Select(lambda e: [j.pt + k for j in e.jets if j.pt > k]), lambda e: [j.pt + k for j in e.jets if j.pt > k]))
    out.append(('target=closure c0', ds.Select(lambda e: [c0.pt for c0 in e.jets]), lambda e: [c0.pt for c0 in e.jets]))
    out.append(('generator target=global k', ds.Select(lambda e: list(k.pt * c0 for k in e.jets)), None))
    out.append(('nested comprehension targets j,k', ds.Select(lambda e: [[k.pt + j.pt for k in j.trks] for j in e.jets]), lambda e: [[k.pt + j.pt for k in j.trks] for j in e.jets]))
    out.append(('capture next to comprehension', ds.Select(lambda e: ([j.pt for j in e.jets], j, k)), lambda e: ([j.pt for j in e.jets], j, k)))
    out.append(('lambda param j inside comprehension over t', ds.Select(lambda e: [t.trks.Select(lambda j: j.pt + k) for t in e.jets]), lambda e: [t.trks.Select(lambda j: j.pt + k) for t in e.jets]))
    # set / dictionary comprehensions (not lowered, they stay what they are) whose target unpacks a tuple / list: every unpacked name is a loop variable
    out.append(('dict comprehension, tuple target j, k', ds.Select(lambda e: {j: k * 2 for j, k in e.pairs}), lambda e: {j: k * 2 for j, k in e.pairs}))
    out.append(('set comprehension, list target [j, k] with if', ds.Select(lambda e: {j + k for [j, k] in e.pairs if k > 2}), lambda e: {j + k for [j, k] in e.pairs if k > 2}))
    out.append(('dict comprehension, nested tuple target j, (k, t)', ds.Select(lambda e: {j: (k, t) for j, (k, t) in e.triples}), lambda e: {j: (k, t) for j, (k, t) in e.triples}))
    out.append(('set comprehension, starred target j, *k', ds.Select(lambda e: {j + k[0] for j, *k in e.pairs}), lambda e: {j + k[0] for j, *k in e.pairs}))
    out.append(('dict comprehension, tuple target, capture c0 beside it', ds.Select(lambda e: ({j: k + c0 for j, k in e.pairs}, t)), lambda e: ({j: k + c0 for j, k in e.pairs}, t)))
    # the FIRST iterable is evaluated outside the comprehension: there the name is the captured variable (decided on the text)
    out.append(('first iterable is the captured variable', ds.Select(lambda e: [t + e.x for t in t]), "lambda e: 'glob'.Select(lambda t: t + e.x)"))
    out.append(('first iterable uses the captured variable', ds.Select(lambda e: [k.pt for k in e.pick(k)]), "lambda e: e.pick(7).Select(lambda k: k.pt)"))
    return out
'''


class CObj:
    def __init__(self, **kw):
        self.__dict__.update(kw)


def comprehension_scope(ctx):
    """names bound by comprehensions inside the lambda are never replaced - decided on concrete data"""
    from ..refeval import norm

    m = modgen.load(COMP_SRC, "c04comp")
    ds = m.DS()
    data = CObj(jets=Seq([CObj(pt=10, trks=Seq([CObj(pt=1), CObj(pt=2)])), CObj(pt=20, trks=Seq([CObj(pt=3)]))]), pairs=[(1, 2), (3, 4)], triples=[(1, (2, 3)), (4, (5, 6))])
    try:
        cases = m.comp_cases(ds, 3)
    except Exception as e:
        ctx.case("comprehension-scope", True)
        ctx.violation(f"comprehension-scope:exc:{type(e).__name__}", f"lambda with a comprehension whose target is named like a captured variable: {type(e).__name__}: {str(e)[:200]}", {"comprehension": True})
        modgen.unload(m)
        return
    for desc, s, pyf in cases:
        ctx.case("comprehension:" + desc, True)
        ctx.count("comprehension-scope-cases")
        if pyf is None:
            continue
        if isinstance(pyf, str):
            if astx.unparse(s.query_ast.args[1]) != pyf:
                ctx.violation("comprehension-scope:first-iterable", f"{desc}: recorded {astx.unparse(s.query_ast.args[1])[:200]}, expected {pyf}", {"comprehension": True})
            continue
        exp = norm(pyf(data))
        lam = s.query_ast.args[1]
        try:
            got = norm(probe.compile_lambda(lam)(data))
        except Exception as e:
            got = f"<{type(e).__name__}: {e}>"
        if got != exp:
            ctx.violation("comprehension-scope:wrong-value", f"{desc}: python computes {exp}, recorded lambda {astx.unparse(lam)[:200]} computes {got}", {"comprehension": True})
    modgen.unload(m)


SUBCLASS_SRC = modgen.DS_HEADER + '''
import enum
class GeV(float): pass
class Col(enum.IntEnum):
    RED = 1
class Label(str): pass
class Raw(bytes): pass
class Color(str, enum.Enum):
    RED = "red"
class Shout(str):
    def __str__(self): return "SHOUT!"
G_F, G_E, G_S, G_B = GeV(30.5), Col.RED, Label("a'b"), Raw(b"x")
import types, math
CFG = types.SimpleNamespace(thr=GeV(2.5), flag=Col.RED, colour=Color.RED)
class Conf:
    FLAG = Col.RED
    NAME = Shout("quiet")
def build(ds, c0):
    return ds.Select(lambda e: e.f(G_F, G_E, G_S, G_B, c0)), ds.Where(lambda e: e.jets.Select(lambda j: j.pt > G_F).Count() > G_E)
def build_attr(ds):
    colour = Color.RED
    return ds.Select(lambda e: e.f(CFG.thr, CFG.flag, CFG.colour, Conf.FLAG, Conf.NAME, colour))
def build_module(ds):
    return ds.Select(lambda e: e.f(math))
'''


def subclass_scalars(ctx):
    """captured values whose type is a SUBCLASS of a plain scalar type (numpy scalars, IntEnum members, str subclasses): the query
    holds the plain value as a literal of the plain type"""
    m = modgen.load(SUBCLASS_SRC, "c04sub")
    ctx.case("subclass-scalars", True)
    try:
        s1, s2 = m.build(m.DS(), m.GeV(-0.0))
    except Exception as e:
        ctx.violation(f"subclass-scalar:exc:{type(e).__name__}", f"captured subclass-of-scalar values: {type(e).__name__}: {str(e)[:160]}", {"subclass": True})
        modgen.unload(m)
        return
    args = s1.query_ast.args[1].body.args
    want = [(float, 30.5), (int, 1), (str, "a'b"), (bytes, b"x"), (float, -0.0)]
    for a, (t, v) in zip(args, want):
        ctx.count("subclass-scalar-captures")
        if not (isinstance(a, ast.Constant) and type(a.value) is t and a.value == v and repr(a.value) == repr(v)):
            ctx.violation("subclass-scalar:not-a-plain-literal", f"captured {v!r} held in a subclass of {t.__name__}: the query holds {ast.dump(a)[:120]} ({astx.unparse(a)[:60]})", {"subclass": True})
            break
    text = astx.unparse(s2.query_ast.args[1])
    try:
        astx.parse_expr(text)
    except SyntaxError:
        ctx.violation("subclass-scalar:not-a-plain-literal", f"the recorded Where lambda does not read back: {text[:160]}", {"subclass": True})
    # the same kinds of value reached through an attribute of a captured object / class, and a (str, Enum) member whose
    # str() is not its value
    try:
        s3 = m.build_attr(m.DS())
        want = [(float, 2.5), (int, 1), (str, "red"), (int, 1), (str, "quiet"), (str, "red")]
        for a, (t, v) in zip(s3.query_ast.args[1].body.args, want):
            ctx.count("subclass-scalar-captures")
            if not (isinstance(a, ast.Constant) and type(a.value) is t and a.value == v):
                ctx.violation("subclass-scalar:not-a-plain-literal", f"captured {v!r} held in a subclass of {t.__name__} (through an attribute): the query holds {ast.dump(a)[:120]}", {"subclass": True})
                break
    except Exception as e:
        ctx.violation(f"subclass-scalar:exc:{type(e).__name__}", f"attribute route: {type(e).__name__}: {str(e)[:160]}", {"subclass": True})
    # a bare module is no transportable value
    try:
        s4 = m.build_module(m.DS())
        ctx.violation("non-transportable-capture-accepted", f"a captured module object was accepted: {astx.unparse(s4.query_ast.args[1])[:120]}", {"subclass": True})
    except ValueError:
        ctx.count("refused-non-transportable")
    except Exception as e:
        ctx.violation(f"subclass-scalar:exc:{type(e).__name__}", f"module capture: {type(e).__name__}: {str(e)[:160]}", {"subclass": True})
    modgen.unload(m)


OBJECT_SRC = modgen.DS_HEADER + '''
import enum, dataclasses
THR = {"pt": 30.0}
RUNS = [3, 5, 8]
@dataclasses.dataclass
class Cuts:
    pt: float = 20.0
    def scaled(self, k): return self.pt * k
CUTS = Cuts()
class Selector:
    def __init__(self, pt, bank): self.pt, self.bank = pt, bank
    def __call__(self, x): return x
SEL = Selector(30.0, "AntiKt4")
def helper(x): return x
helper.cut = 12.5
class Tone(enum.Enum):
    LOW = 1
Tone.DEFAULT_PT = 30.0
def method_of_dict(ds): return ds.Where(lambda e: e.pt > THR.get("pt"))
def method_of_list(ds): return ds.Select(lambda e: RUNS.index(e.run))
def method_of_instance(ds): return ds.Where(lambda e: e.pt > CUTS.scaled(2))
def method_of_closure_dict(ds):
    local_map = {"a": 1}
    return ds.Select(lambda e: e.x + local_map.get("a"))
def method_nested(ds): return ds.Select(lambda e: e.jets.Select(lambda j: j.pt * CUTS.scaled(j.n)))
CUT5 = 5
def helper_with_dict(x): return x.f(THR.get("pt"), CUT5)
def method_of_dict_in_helper(ds): return ds.Select(lambda e: (helper_with_dict(e.pt), CUT5))
# ... reached through one-line helpers: what a helper captures and cannot be sent is the caller's to hear about (ValueError), the
# helper does not quietly stay a call by name
def above_h(x): return x > THR.get("pt")
def scaled_h(x): return CUTS.scaled(x)
def listed_h(x): return RUNS.index(x)
def outer_h(x): return above_h(x) and x < 100
def method_of_dict_via_helper(ds): return ds.Where(lambda e: above_h(e.pt))
def method_of_instance_via_helper(ds): return ds.Select(lambda e: scaled_h(e.pt))
def method_of_list_via_helper(ds): return ds.Select(lambda e: e.jets.Select(lambda j: listed_h(j.run)))
def method_of_dict_via_two_helpers(ds): return ds.Where(lambda e: outer_h(e.pt))
def missing_attr_of_instance(ds): return ds.Select(lambda e: CUTS.nothere + e.pt)
def missing_method_of_instance(ds): return ds.Select(lambda e: CUTS.nothere(e.pt))
def missing_attr_of_dict(ds): return ds.Select(lambda e: e.f(THR.nothere))
# ... with FURTHER steps behind the attribute python does not find (a second attribute, a call, a subscript, as an argument)
def missing_attr_two_steps(ds): return ds.Select(lambda e: e.pt > CUTS.nothere.deeper)
def missing_attr_three_steps_called(ds): return ds.Select(lambda e: (CUTS.nothere.deeper.more(), e.x))
def missing_attr_two_steps_argument(ds): return ds.Select(lambda e: e.jets.Select(lambda j: j.h(THR.nothere.deeper[0])))
# a member of an IntEnum / (str, Enum) held in a variable or reached through an object: its .value / .name are python's
class Level(enum.IntEnum):
    LOW = 1
    HIGH = 2
class Mode(str, enum.Enum):
    FAST = "fast"
class Conf:
    level = Level.HIGH
    mode = Mode.FAST
CONF = Conf()
LVL = Level.HIGH
def enum_member_steps(ds): return ds.Select(lambda e: e.f(LVL.value, LVL.name, CONF.level.value, CONF.mode.value, CONF.mode.name, LVL, CONF.level.real))
K9 = 5
def default_from_local(ds):
    # the default was computed where the lambda was made - from a local that a global of the same name does not know of
    K9 = 9
    return ds.Select(lambda e, *, q=K9, r=K9 + 1: e.f(q, r))
def default_of_def(ds):
    K9 = 9
    def picked(e, *, q=K9): return e.f(q, 10)
    return ds.Select(picked)
def attr_of_callable(ds): return ds.Select(lambda e: e.f(SEL.pt, SEL.bank, helper.cut))
def attr_of_callable_nested(ds): return ds.Select(lambda e: e.jets.Where(lambda j: j.pt > SEL.pt))
def enum_class_constant(ds): return ds.Select(lambda e: e.f(Tone.DEFAULT_PT, Tone.__name__))
def shadowed_callable(ds): return ds.Select(lambda SEL: SEL.pt)
'''


def object_routes(ctx):
    """captured objects that are no values themselves: a method called on one cannot be sent (ValueError, never a query that still
    names the variable); an attribute of one that happens to be callable too is a value like any other, frozen at the call"""
    m = modgen.load(OBJECT_SRC, "c04obj")
    w = {"objects": True}
    for name in ("method_of_dict", "method_of_list", "method_of_instance", "method_of_closure_dict", "method_nested", "method_of_dict_in_helper", "missing_attr_of_instance",
                 "missing_method_of_instance", "missing_attr_of_dict", "missing_attr_two_steps", "missing_attr_three_steps_called", "missing_attr_two_steps_argument",
                 "method_of_dict_via_helper", "method_of_instance_via_helper", "method_of_list_via_helper", "method_of_dict_via_two_helpers"):
        ctx.case(f"object-route:{name}", True)
        try:
            s = getattr(m, name)(m.DS())
        except ValueError:
            ctx.count("refused-non-transportable")
            continue
        except Exception as e:
            ctx.violation(f"object-route:exc:{type(e).__name__}", f"{name}: {type(e).__name__}: {str(e)[:160]}", w)
            continue
        lam = s.query_ast.args[1]
        free = sorted(astx.free_names(lam) & {"THR", "RUNS", "CUTS", "local_map", "CUT5"})
        by_name = sorted(astx.free_names(lam) & {"above_h", "scaled_h", "listed_h", "outer_h", "helper_with_dict"})
        if by_name:
            ctx.violation("unsendable-capture-of-a-helper-not-reported", f"{name}: no ValueError for what the one-line helper {by_name} captures and cannot send; it stays a call by name: {astx.unparse(lam)[:160]}", w)
        elif free:
            ctx.violation("captured-name-left-in-query", f"{name}: no ValueError and the recorded lambda still names {free}: {astx.unparse(lam)[:160]}", w)
    for name, want in (("attr_of_callable", [30.0, "AntiKt4", 12.5]), ("enum_class_constant", [30.0, "Tone"]), ("enum_member_steps", [2, "HIGH", 2, "fast", "FAST", 2, 2]), ("default_from_local", [9, 10]), ("default_of_def", [9, 10])):
        ctx.case(f"object-route:{name}", True)
        try:
            s = getattr(m, name)(m.DS())
        except Exception as e:
            ctx.violation(f"object-route:exc:{type(e).__name__}", f"{name}: {type(e).__name__}: {str(e)[:160]}", w)
            continue
        if name.startswith("default_"):
            # the values the callable really has for its defaults, as the recorded lambda computes them
            ctx.count("object-attribute-captures", 2)
            try:
                lam = s.query_ast.args[1]
                got = eval(compile(ast.fix_missing_locations(ast.Expression(body=astx.clone(lam))), "<recorded>", "eval"), {"__builtins__": {}})(type("E", (), {"f": staticmethod(lambda *a: list(a))})())
            except Exception as e:
                got = f"{type(e).__name__}: {e}"
            if got != want:
                ctx.violation("default-value-not-the-one-python-computed", f"{name}: the callable's defaults give {want}, the recorded lambda {astx.unparse(lam)[:160]} gives {got}", w)
            continue
        # the history afterwards: none of it reaches the query
        m.SEL.pt, m.SEL.bank, m.helper.cut, m.Tone.DEFAULT_PT = 99.0, "later", -1.0, -2.0
        got = [a.value if isinstance(a, ast.Constant) else astx.unparse(a) for a in s.query_ast.args[1].body.args]
        m.SEL.pt, m.SEL.bank, m.helper.cut, m.Tone.DEFAULT_PT = 30.0, "AntiKt4", 12.5, 30.0
        ctx.count("object-attribute-captures", len(want))
        if got != want:
            ctx.violation("captured-attribute-not-frozen", f"{name}: values at the call {want}, the query holds {got}", w)
    for name, want in (("attr_of_callable_nested", "lambda e: e.jets.Where(lambda j: j.pt > 30.0)"), ("shadowed_callable", "lambda SEL: SEL.pt")):
        ctx.case(f"object-route:{name}", True)
        try:
            s = getattr(m, name)(m.DS())
            got = astx.unparse(s.query_ast.args[1])
        except Exception as e:
            ctx.violation(f"object-route:exc:{type(e).__name__}", f"{name}: {type(e).__name__}: {str(e)[:160]}", w)
            continue
        if got != want:
            ctx.violation("captured-attribute-not-frozen" if "nested" in name else "parameter-replaced", f"{name}: recorded {got}, expected {want}", w)
    modgen.unload(m)


DEFHIST_SRC = modgen.DS_HEADER + '''
PT_CUT = 10
LABEL = "a"
def good(e): return e.pt > PT_CUT
def labelled(e): return (e.tag == LABEL, e.pt * PT_CUT)
def above(cut, name):
    def sel(e): return e.pt > cut and e.tag != name
    return sel
def scaled_by(k):
    def sc(e, *, f=k): return e.pt * f + k
    return sc
def sq(x): return x * x + PT_CUT
def pt2(e): return sq(e.pt) + sq(e.pt + 1)
class Cfg:
    THR = 5
def over_thr(e): return e.pt > Cfg.THR
# the loop idiom: a default freezes the loop variable; after the loop the name stands for the LAST value (values python counts as
# false among them)
loop_cuts, loop_lambdas = [], []
for thr in (0, 25, 0.0, False, "", 50):
    def passes(e, *, thr=thr): return e.pt > thr
    loop_cuts.append(passes)
    loop_lambdas.append(lambda e, *, thr=thr, on=not thr: (e.pt > thr, on))
keep_lambda = lambda e: e.pt > PT_CUT
def q_where(ds, fn): return ds.Where(fn)
def q_select(ds, fn): return ds.Select(fn)
def q_good(ds): return ds.Where(good)
def q_lambda_again(ds): return ds.Select(lambda e: (e.pt > PT_CUT, sq(e.pt), Cfg.THR))
# a module-level helper reading a module global, called from a lambda written in a function that has a LOCAL of the same name
factor = 2.0
def scaled_g(x): return x * factor + len_g
len_g = 100
def build_clash(ds, factor, len_g=7): return ds.Select(lambda e: (scaled_g(e.pt) + factor, len_g))
def build_clash_fn(factor, len_g=7): return lambda e: (scaled_g(e.pt) + factor, len_g)
# a default that is a LOCAL function next to a default that is a plain local value hiding a module global of the same name
kloc = 5
def local_function_default(ds):
    kloc = 7
    def shift(x): return x.plus1
    fn = lambda e, *, g=shift, kloc=kloc: (g(e.x), kloc)
    try:
        return ds.Select(lambda e, *, g=shift, kloc=kloc: (g(e.x), kloc)), fn
    except ValueError:
        return "refused", fn
# a variable of the enclosing function that has no value any more when the lambda is passed again (deleted, or assigned on a branch
# not taken) while a module global carries the same name: the global is another variable
cutx = 99.0
def emptied(ds, how):
    if how in ("deleted", "never"):
        cutx = 5.0
    def q(): return ds.Where(lambda e: e.pt > cutx)
    first = None
    if how == "deleted":
        first = q()
        del cutx
    try:
        second = q()
    except ValueError:
        second = "refused"
    return first, second
'''


def def_history(ctx, rounds=8):
    """one-line functions passed by NAME - module-level ones reading globals / class constants, closures of one factory (same text,
    other cell values), functions with defaults taken from the factory - passed again and again while the values they read change:
    every query holds the values of its own moment"""
    m = modgen.load(DEFHIST_SRC, "c04dh")
    ds = m.DS()
    rnd = random.Random(ctx.seed * 31 + ctx.shard)
    for rd in range(rounds):
        m.PT_CUT = rnd.choice([10, 30, 2.5, -1, True, 10**12])
        m.LABEL = rnd.choice(["a", "b'c", "d\\e", ""])
        m.Cfg.THR = rnd.choice([5, 7.5, 0])
        cut, name, k = rnd.choice([10, 20, 0.5]), rnd.choice(["x", "y'z"]), rnd.choice([2, 3.5, -4])
        for what, q, fn in [("module-level def reading a global", m.q_where, m.good), ("the same def through a wrapper that names it", lambda d, f: m.q_good(d), m.good),
                            ("def reading two globals", m.q_select, m.labelled), ("closure of a factory", m.q_where, m.above(cut, name)),
                            ("closure with a default from the factory", m.q_select, m.scaled_by(k)), ("def calling a helper that reads a global", m.q_select, m.pt2),
                            ("def reading a class constant", m.q_where, m.over_thr), ("assigned lambda reading a global", m.q_where, m.keep_lambda),
                            ("helper reading module globals named like locals of the function the lambda is written in", lambda d, f: m.build_clash(d, 10.0 + rd), m.build_clash_fn(10.0 + rd)),
                            ("lambda on one source line executed again", lambda d, f: m.q_lambda_again(d), (lambda e: (e.pt > m.PT_CUT, m.sq(e.pt), m.Cfg.THR)))]:
            ctx.case(f"def-history:{what}:{rd}", True)
            ctx.count("def-history-queries")
            expected = probe.behaviour(fn)
            try:
                s_ = q(ds, fn)
            except Exception as e:
                if isinstance(e, ValueError) and what.startswith("assigned lambda"):
                    ctx.count("def-history:refused (a lambda kept in a variable need not be recoverable: C03 allows the refusal)")
                    continue
                ctx.violation(f"def-history:exc:{type(e).__name__}", f"{what} (round {rd}): {type(e).__name__}: {str(e)[:200]}", {"def_history": True})
                continue
            lam = s_.query_ast.args[1]
            try:
                got = probe.behaviour(probe.compile_lambda(lam, {}))
            except Exception as e:
                got = frozenset([((), f"<compile/eval failed: {type(e).__name__}: {e}>")])
            if got != expected:
                ctx.violation("def-history:values-of-another-moment", f"{what}, round {rd} (PT_CUT={m.PT_CUT!r}, LABEL={m.LABEL!r}, THR={m.Cfg.THR!r}, cut={cut!r}, k={k!r}): python gives {probe.describe(expected, 2)}, recorded {astx.unparse(lam)[:200]} gives {probe.describe(got, 2)}", {"def_history": True})
    for i, fn in enumerate(list(m.loop_cuts) + list(m.loop_lambdas)):
        what = f"function #{i} made in a loop, its default freezing the loop variable ({fn.__kwdefaults__!r})"
        ctx.case(f"def-history:loop-idiom:{i}", True)
        ctx.count("def-history-queries")
        expected = probe.behaviour(fn)
        try:
            lam = m.q_where(ds, fn).query_ast.args[1] if i < len(m.loop_cuts) else m.q_select(ds, fn).query_ast.args[1]
        except ValueError as e:
            if i >= len(m.loop_cuts):
                ctx.count("def-history:refused (a lambda kept in a list need not be recoverable)")
                continue
            ctx.violation("def-history:exc:ValueError", f"{what}: ValueError: {str(e)[:200]}", {"def_history": True})
            continue
        except Exception as e:
            ctx.violation(f"def-history:exc:{type(e).__name__}", f"{what}: {type(e).__name__}: {str(e)[:200]}", {"def_history": True})
            continue
        try:
            got = probe.behaviour(probe.compile_lambda(lam, {}))
        except Exception as e:
            got = frozenset([((), f"<compile/eval failed: {type(e).__name__}: {e}>")])
        if got != expected:
            ctx.violation("def-history:values-of-another-moment", f"{what}: python gives {probe.describe(expected, 2)}, recorded {astx.unparse(lam)[:200]} gives {probe.describe(got, 2)}", {"def_history": True})
    ctx.case("def-history:local-function-default", True)
    try:
        got_s, fn = m.local_function_default(ds)
        if got_s != "refused":
            lam = got_s.query_ast.args[1]
            expected = probe.behaviour(fn)
            try:
                got = probe.behaviour(probe.compile_lambda(lam, {"shift": lambda x: x.plus1}))
            except Exception as e:
                got = frozenset([((), f"<compile/eval failed: {type(e).__name__}: {e}>")])
            if got != expected:
                ctx.violation("def-history:values-of-another-moment", f"a local function and a local value as defaults of the passed lambda (a module global kloc = 5 exists): python gives {probe.describe(expected, 2)}, recorded {astx.unparse(lam)[:200]} gives {probe.describe(got, 2)}", {"def_history": True})
        else:
            ctx.count("def-history:refused (a default that is a local function)")
    except Exception as e:
        ctx.violation(f"def-history:exc:{type(e).__name__}", f"local function default: {type(e).__name__}: {str(e)[:200]}", {"def_history": True})
    for how in ("deleted", "branch-not-taken"):
        ctx.case(f"def-history:empty-cell:{how}", True)
        try:
            first, second = m.emptied(ds, how)
        except Exception as e:
            ctx.violation(f"def-history:exc:{type(e).__name__}", f"closure variable without a value ({how}): {type(e).__name__}: {str(e)[:200]}", {"def_history": True})
            continue
        if second != "refused":
            lam = second.query_ast.args[1]
            free = astx.free_names(lam) - {"e"}
            got = probe.behaviour(probe.compile_lambda(lam, {}))
            if not free and not any("raises" in r_ for _, r_ in got):
                ctx.violation("def-history:value-of-another-scope", f"closure variable cutx has no value ({how}; python raises NameError when the lambda runs), a module global of the same name holds 99.0: recorded {astx.unparse(lam)[:200]}", {"def_history": True})
        ctx.count("def-history:empty-closure-cells")
    modgen.unload(m)


def shard_main(ctx):
    if ctx.shard in (0, 1, 6):
        def_history(ctx)
    if ctx.shard == 0:
        comprehension_scope(ctx)
        subclass_scalars(ctx)
        object_routes(ctx)
    for f in range(N_FILES[ctx.tier]):
        if ctx.out_of_time():
            ctx.count("stopped-by-time-budget")
            break
        rnd = random.Random((ctx.seed * 1000 + ctx.shard) * 7919 + f + 4)
        hm = modgen.load("VAL_A = 0\nVAL_B = 0\nclass HC:\n    K = 0\n_lazy = {}\ndef __getattr__(name):\n    try:\n        return _lazy[name]\n    except KeyError:\n        raise AttributeError(name)\n", "c04hm")
        g = CaseGen(rnd, hm.__name__)
        cases = [g.make(i) for i in range(rnd.randint(15, 30))]
        import sys

        if modgen.workdir() not in sys.path:  # (left in place: several threads may be loading generated modules)
            sys.path.insert(0, modgen.workdir())
        try:
            m = modgen.load(module_source(cases, hm.__name__), "c04")
        except SyntaxError as e:
            ctx.count("harness:generated-module-syntax-error")
            ctx.notes.setdefault("syntax_errors", []).append(str(e))
            continue
        for i, c in enumerate(cases):
            run_case(ctx, m, hm, i, c, rnd)
        modgen.unload(m)
        modgen.unload(hm)
        ctx.count("files")
    modgen.cleanup()


def replay(ctx, witness):
    if witness.get("def_history"):
        def_history(ctx)
        modgen.cleanup()
        return
    if witness.get("objects"):
        object_routes(ctx)
        return
    if witness.get("subclass"):
        subclass_scalars(ctx)
        return
    if witness.get("comprehension"):
        comprehension_scope(ctx)
        modgen.cleanup()
        return
    ctx.count("replay: re-running the quick workload of shard 0 (cases are regenerated from the seed)")
    N_FILES["replay"] = 6
    TIME_BUDGET["replay"] = 60
    shard_main(ctx)
