"""C07 - typed call sites are normalised to full positional form (DESIGN.md section 4, C07)."""
import ast
import inspect
import random
from typing import Any

from .. import astx
from ..astx import C, N, attr, lam
from ..core import REPO
from .. import modgen
from ..typedmodel import Model

N_CASES = {"quick": 2400, "thorough": 500000}
TIME_BUDGET = {"quick": 60, "thorough": 270}
META = {
    "rule": "generated class models (3 classes x 4 scalar methods with 0-4 parameters, every prefix required / rest defaulted, defaults of "
    "all scalar types, same method names with different signatures on different classes; collection methods returning Iterable[X], a "
    "generic Iterable subclass, a registered collection class; 3 func_adl_callable functions); call shapes: k positional + any subset of "
    "the rest as keywords in any order, plus shapes missing a required parameter; call sites at lambda depth 0-3 through "
    "Select/Where/SelectMany/First/Count on collections and dictionary fields of a previous stage, lambda parameter names re-used across "
    "levels; the generator builds the user's lambda and the expected fully-positional lambda side by side using inspect.Signature.bind; "
    "oracle: emitted lambda struct-equal to the expectation (defaults compared by value and type), or ValueError exactly when a required "
    "parameter is missing; operator calls inside lambdas must keep the user's arguments; distinct by (model, lambda text); "
    "non-trivial = a call site whose signature has >= 2 parameters at depth >= 1",
    "assumptions": ["defaults are transportable scalars (None/containers are C13's)", "string and ast supply (callables: C01)"],
    "floor_evaluations": {"quick": 2500, "thorough": 50000},
    "floor_nontrivial": {"quick": 600, "thorough": 10000},
    "anchors": ["func_adl/type_based_replacement.py", "func_adl/object_stream.py"],
}


OPERATOR_FUNCTION_KEYWORD = {"Select": "f", "SelectMany": "func", "Where": "filter"}


class CallGen:
    """Builds (user ast, expected ast) pairs for one model."""

    def operator(self, cu, cx, op, lu, lx):
        """a stream operator on a typed collection - its function given positionally or under the name ObjectStream declares:
        either way the call keeps exactly what the user wrote"""
        if self.r.random() < 0.08:
            # ... and the library's operators that take no function (MetaData, QMetaData), written with or without their keyword
            self.plain_ops = getattr(self, "plain_ops", 0) + 1
            name, kw = self.r.choice([("MetaData", "metadata"), ("MetaData", None), ("QMetaData", "metadata"), ("QMetaData", None)])
            d = ast.Dict(keys=[C("k")], values=[C(self.r.randint(1, 9))])
            mk = lambda recv: ast.Call(func=attr(recv, name), args=[] if kw else [astx.clone(d)], keywords=[ast.keyword(arg=kw, value=astx.clone(d))] if kw else [])  # noqa
            cu, cx = mk(cu), mk(cx)
        if self.r.random() < 0.12 and isinstance(lu, ast.Lambda) and not lu.args.kwonlyargs:
            # the operator's function has a further, keyword-only parameter whose DEFAULT holds a typed call (evaluated where the
            # lambda is written): a call site of the query like any other
            self.default_sites = getattr(self, "default_sites", 0) + 1
            du, dx = self.func_call([], 3)
            for la, d in ((lu, du), (lx, dx)):
                la.args.kwonlyargs, la.args.kw_defaults = [ast.arg(arg="r_")], [d]
        if self.r.random() < 0.12:
            self.kw_ops = getattr(self, "kw_ops", 0) + 1
            k = OPERATOR_FUNCTION_KEYWORD[op]
            return (ast.Call(func=attr(cu, op), args=[], keywords=[ast.keyword(arg=k, value=lu)]), ast.Call(func=attr(cx, op), args=[], keywords=[ast.keyword(arg=k, value=lx)]))
        return ast.Call(func=attr(cu, op), args=[lu], keywords=[]), ast.Call(func=attr(cx, op), args=[lx], keywords=[])

    def __init__(self, rnd, model):
        self.r, self.m = rnd, model
        self.missing = False  # a required parameter was left out somewhere
        self.sites = []  # (nparams, depth)
        self.k = 0

    def var(self, used):
        self.k += 1
        used = [u for u in used if u != "q0"]
        if used and self.r.random() < 0.35:
            return self.r.choice(used)  # re-use a lambda parameter name across levels
        return self.r.choice(["e", "j", "t", "x", "a", "b"]) if self.r.random() < 0.5 else f"v{self.k}"

    def scalar_arg(self, env, depth):
        """an argument expression (user, expected)"""
        r = self.r
        if env and r.random() < 0.35 and depth < 3:
            name, cls = r.choice(env)
            return self.method_call(N(name), N(name), cls, r.choice(["m0", "m1", "m2", "m3", "gen", "cached", "cached_cls", "value", "as_pandas", "QMetaData"]), env, depth, allow_missing=False)
        v = r.choice([1, 2, 0.5, 10, True])
        if env and r.random() < 0.07:
            # an argument that holds a starred element further down (in a display that is indexed): nothing of the call itself is spread
            name, _cls = r.choice(env)
            self.deep_starred = getattr(self, "deep_starred", 0) + 1
            mk = lambda: ast.Subscript(value=ast.Tuple(elts=[ast.Starred(value=attr(N(name), "raw"), ctx=ast.Load()), C(7)], ctx=ast.Load()), slice=C(0), ctx=ast.Load())  # noqa
            return mk(), mk()
        if r.random() < 0.15:
            return ast.UnaryOp(op=ast.USub(), operand=C(3)), ast.UnaryOp(op=ast.USub(), operand=C(3))
        return C(v), C(v)

    def shape(self, params, env, depth, allow_missing=True):
        """-> (pos user, kw user [(name, node)], expected args list) ; sets self.missing"""
        r = self.r
        n = len(params)
        npos = r.randint(0, n)
        user_pos, exp = [], {}
        for i in range(npos):
            u, x = self.scalar_arg(env, depth + 1)
            user_pos.append(u)
            exp[params[i][0]] = x
        rest = params[npos:]
        kws = []
        for name, ann, d in rest:
            required = d is inspect.Parameter.empty
            give = r.random() < (0.8 if required else 0.45)
            if required and not give and not allow_missing:
                give = True
            if give:
                u, x = self.scalar_arg(env, depth + 1)
                kws.append((name, u))
                exp[name] = x
            elif required:
                self.missing = True
        r.shuffle(kws)
        expected = []
        for name, ann, d in params:
            if name in exp:
                expected.append(exp[name])
            elif d is not inspect.Parameter.empty:
                expected.append(C(d))
            else:
                expected.append(None)  # missing required
        return user_pos, kws, expected

    def method_call(self, recv_u, recv_x, cls, meth, env, depth, allow_missing=True):
        params = self.m.sigs[(cls, meth)]
        pos, kws, expected = self.shape(params, env, depth, allow_missing)
        self.sites.append((len(params), depth))
        u = ast.Call(func=attr(recv_u, meth), args=pos, keywords=[ast.keyword(arg=k, value=v) for k, v in kws])
        x = ast.Call(func=attr(recv_x, meth), args=[e for e in expected if e is not None], keywords=[])
        return u, x

    def func_call(self, env, depth):
        fn = self.r.choice(sorted(self.m.funcs))
        params = self.m.funcs[fn]
        pos, kws, expected = self.shape(params, env, depth)
        self.sites.append((len(params), depth))
        u = ast.Call(func=N(fn), args=pos, keywords=[ast.keyword(arg=k, value=v) for k, v in kws])
        x = ast.Call(func=N(fn), args=[e for e in expected if e is not None], keywords=[])
        return u, x

    def scalar(self, env, depth):
        """scalar-valued expression over env [(name, cls)] -> (user, expected)"""
        r = self.r
        k = r.random()
        name, cls = r.choice(env)
        if k < 0.45 or depth >= 3:
            return self.method_call(N(name), N(name), cls, r.choice(["m0", "m1", "m2", "m3", "gen", "cached", "cached_cls", "value", "as_pandas", "QMetaData"]), env, depth)
        if k < 0.5:
            # a method of the typed object a registered function returns (its processor rebuilt the call node)
            fn, (lp, rcls) = sorted(self.m.funcs_typed.items())[0]
            pos, kws, expected = self.shape(lp, env, depth, allow_missing=False)
            self.sites.append((len(lp), depth))
            fu = ast.Call(func=N(fn), args=pos, keywords=[ast.keyword(arg=kk, value=v) for kk, v in kws])
            fx = ast.Call(func=N(fn), args=[e for e in expected if e is not None], keywords=[])
            return self.method_call(fu, fx, rcls, r.choice(["m0", "m1", "m2", "m3"]), env, depth)
        if k < 0.55:
            return self.func_call(env, depth)
        if k < 0.58:
            # methods a model class inherits from one of python's own types (positional-only parameters: given by position)
            self.builtin_base = getattr(self, "builtin_base", 0) + 1
            hu, hx = self.method_call(N(name), N(name), cls, r.choice(["hits", "label"]), env, depth)
            owner = "Hits" if hu.func.attr == "hits" else "Label"
            meth = r.choice(["count", "index", "nhits"] if owner == "Hits" else ["upper", "zfill"])
            params = self.m.sigs[(owner, meth)]
            if meth == "nhits":
                return self.method_call(hu, hx, owner, meth, env, depth, allow_missing=False)
            given = [C(r.choice([1, 2, 3]))] * (1 if params else 0)
            self.sites.append((len(params), depth))
            u = ast.Call(func=attr(hu, meth), args=list(given), keywords=[])
            x = ast.Call(func=attr(hx, meth), args=list(given) + [C(d) for _, _, d in params[1:]], keywords=[])
            return u, x
        if k < 0.7:
            (a, ax), (b, bx) = self.scalar(env, depth), self.scalar(env, depth)
            op = r.choice([ast.Add(), ast.Mult(), ast.Sub()])
            return ast.BinOp(left=a, op=op, right=b), ast.BinOp(left=ax, op=op, right=bx)
        colls = self.m.COLLS[cls]
        if not colls:
            return self.method_call(N(name), N(name), cls, r.choice(["m0", "m1", "m2", "m3", "gen", "cached", "cached_cls", "value", "as_pandas", "QMetaData"]), env, depth)
        cm = r.choice(colls)
        cu, cx = self.method_call(N(name), N(name), cls, cm, env, depth)
        elem = self.m.ELEM[cm]
        v = self.var([n for n, _ in env])
        inner = [(n, c) for n, c in env if n != v] + [(v, elem)]
        if cm.endswith("_my") and r.random() < 0.3:
            # the custom Iterable subclass's own methods, reached through the parameterised alias MyIter[X]: one is named like an
            # operator a registered collection class also has, others take no instance
            self.own_calls = getattr(self, "own_calls", 0) + 1
            return self.method_call(cu, cx, "MyIter", r.choice(["Take", "Take", "own", "scale_for", "reserve", "clamp"]), env, depth)
        if k < 0.85:
            # element of the collection: First(), [0], [-1], [computed index] - then a typed method call on it
            # (a registered stream-collection class declares no subscripting, so only Iterable collections are indexed)
            how = r.choice(["First", "First", "[0]", "[-1]", "[1 - 1]", "[2]"])
            if how == "First":
                fu = ast.Call(func=attr(cu, "First"), args=[], keywords=[])
                fx = ast.Call(func=attr(cx, "First"), args=[], keywords=[])
            else:
                idx = astx.parse_expr(how[1:-1])
                fu = ast.Subscript(value=cu, slice=idx, ctx=ast.Load())
                fx = ast.Subscript(value=cx, slice=astx.clone(idx), ctx=ast.Load())
            meths = ["m0", "m1", "m2", "m3"] + (["dm", "dm", "scale_for", "reserve", "clamp"] if elem == "Jet" else [])
            return self.method_call(fu, fx, elem, r.choice(meths), env, depth)
        # Where(...).Count()
        (bu, bx) = self.scalar(inner, depth + 1)
        wu, wx = self.operator(cu, cx, "Where", lam([v], ast.Compare(left=bu, ops=[ast.Gt()], comparators=[C(1)])), lam([v], ast.Compare(left=bx, ops=[ast.Gt()], comparators=[C(1)])))
        return ast.Call(func=attr(wu, "Count"), args=[], keywords=[]), ast.Call(func=attr(wx, "Count"), args=[], keywords=[])

    def seq(self, env, depth):
        """sequence-valued expression -> (user, expected, elem description)"""
        r = self.r
        cands = [(n, c) for n, c in env if self.m.COLLS[c]]
        name, cls = r.choice(cands)
        cm = r.choice(self.m.COLLS[cls])
        cu, cx = self.method_call(N(name), N(name), cls, cm, env, depth)
        elem = self.m.ELEM[cm]
        if depth < 3 and r.random() < 0.7:
            v = self.var([n for n, _ in env])
            inner = [(n, c) for n, c in env if n != v] + [(v, elem)]
            if r.random() < 0.3 and self.m.COLLS[elem]:
                su, sx, _ = self.seq(inner, depth + 1)
                op = r.choice(["Select", "SelectMany"])
                return self.operator(cu, cx, op, lam([v], su), lam([v], sx)) + (None,)
            bu, bx = self.scalar(inner, depth + 1)
            return self.operator(cu, cx, "Select", lam([v], bu), lam([v], bx)) + (None,)
        return cu, cx, elem


def run_case(ctx, rnd, model, ds, i):
    from func_adl.type_based_replacement import remap_by_types

    g = CallGen(rnd, model)
    opname = rnd.choice(["Select", "Select", "Where", "SelectMany", "remap_by_types"])
    v = rnd.choice(["e", "evt", "j"])
    env = [(v, "Event")]
    stream = ds
    two_stage = rnd.random() < 0.2
    if two_stage:
        # dictionary fields of a previous stage: the object arrives as v.ev
        # (a key written twice holds its last value, as in python)
        # (... and a key that is no identifier does not cost its neighbours their types)
        stream = ds.Select(rnd.choice(["lambda e0: {'ev': e0, 'n': 1}", "lambda e0: {'ev': e0, 'n': 1}", "lambda e0: {'ev': 1, 'n': 1, 'ev': e0}", "lambda e0: {'ev': e0, 'n-jets': 1}", "lambda e0: {'class': 2, 'ev': e0, 0: 1}"]))
        bu, bx = g.scalar([("q0", "Event")], 1)
        if any(isinstance(x, ast.Lambda) and any(a.arg == v for a in x.args.args) for x in astx.walk_nodes(bu)):
            two_stage = False
            stream = ds
            g = CallGen(rnd, model)
        else:
            def sub_ev(n):
                def go(x):
                    if isinstance(x, ast.Name) and x.id == "q0":
                        return attr(N(v), "ev")
                    if isinstance(x, ast.AST):
                        for f in x._fields:
                            val = getattr(x, f, None)
                            if isinstance(val, list):
                                setattr(x, f, [go(y) for y in val])
                            elif isinstance(val, ast.AST):
                                setattr(x, f, go(val))
                    return x
                return go(n)
            body_u, body_x = sub_ev(bu), sub_ev(bx)
            opname = "Select"
    if not two_stage:
        if opname == "Where":
            bu, bx = g.scalar(env, 0)
            body_u = ast.Compare(left=bu, ops=[ast.Gt()], comparators=[C(0)])
            body_x = ast.Compare(left=bx, ops=[ast.Gt()], comparators=[C(0)])
        elif opname == "SelectMany":
            body_u, body_x, _ = g.seq(env, 0)
        else:
            if rnd.random() < 0.5:
                body_u, body_x = g.scalar(env, 0)
            else:
                body_u, body_x, _ = g.seq(env, 0)
    lam_u = lam([v], body_u)
    lam_x = lam([v], body_x)
    text = astx.unparse(lam_u)
    key = f"{model.id}|{opname}|{text}"
    nt = any(n >= 2 and d >= 1 for n, d in g.sites)
    witness = {"model": model.source, "op": opname, "lambda": text, "expected": astx.unparse(lam_x), "missing_required": g.missing, "two_stage": two_stage}
    mode = rnd.choice(["string", "ast", "ast", "ast-built-by-hand"])
    try:
        if opname == "remap_by_types":
            _, out_body, _ = remap_by_types(stream, {v: model.Event}, astx.clone(body_u))
            out = lam([v], out_body)
        else:
            supplied = text if mode == "string" else astx.parse_expr(text)
            if mode == "ast-built-by-hand":
                # call nodes as a program assembles them: ast.Call(func=.., args=[..]), the keywords field not given (3.12 leaves it absent)
                from ..history import without_empty_keywords

                supplied, nbare = without_empty_keywords(supplied)
                ctx.count("call-nodes-built-without-a-keywords-field", nbare)
            s = getattr(stream, opname)(supplied)
            out = s.query_ast.args[1]
    except ValueError as ex:
        ctx.case(key, nt)
        ctx.count("outcome:ValueError")
        if not g.missing:
            ctx.violation("undesigned-ValueError", f"{opname}: {text} raised ValueError: {str(ex)[:150]} (no required parameter is missing)", witness)
        return
    except Exception as ex:
        ctx.case(key, nt)
        ctx.violation(f"exc:{type(ex).__name__}@{astx.repo_frame(ex, REPO)}", f"{opname}: {text} raised {type(ex).__name__}: {str(ex)[:150]}", witness)
        return
    ctx.case(key, nt)
    ctx.count("outcome:emitted")
    ctx.count("call-sites", len(g.sites))
    if getattr(g, "deep_starred", 0):
        ctx.count("arguments-holding-a-starred-element-further-down", g.deep_starred)
    ctx.count("operators-with-keyword-function", getattr(g, "kw_ops", 0))
    ctx.count("operators-without-function", getattr(g, "plain_ops", 0))
    ctx.count("methods-inherited-from-python-types", getattr(g, "builtin_base", 0))
    ctx.count(f"receiver-name:{model.receiver}")
    for n, d in g.sites:
        ctx.count(f"sites:params={n}:depth={min(d, 3)}")
    if g.missing:
        ctx.violation("missing-required-accepted", f"{opname}: {text} omits a required parameter but was emitted as {astx.unparse(out)[:200]}", witness)
        return
    if not astx.struct_eq(out, lam_x):
        d = astx.first_diff(out, lam_x)
        kind = "keywords-left" if "keywords" in (d or "") else ("argument-count" if "len" in (d or "") else "argument-differs")
        ctx.violation(f"not-normalised:{kind}", f"{opname}({mode}): {text} emitted {astx.unparse(out)[:250]} expected {astx.unparse(lam_x)[:250]} :: {d}", witness)
        return
    if getattr(g, "default_sites", 0):
        ctx.count("typed-calls-in-defaults-of-operator-functions", g.default_sites)
    if len(ctx.samples) < 4 and nt and rnd.random() < 0.02:
        ctx.sample({"lambda": text, "emitted": astx.unparse(out), "call_sites": g.sites})


REG_SRC = modgen.DS_HEADER + '''
from typing import Iterable
from func_adl import func_adl_callable
class Jet:
    def pt(self) -> float: ...
class Evt:
    def met(self) -> float: ...
    def jets(self) -> Iterable[Jet]: ...
# a declaration that is run again (a notebook cell, a reloaded module): same name, new function object, other defaults; the
# function has a python body of its own, as a helper would
def declare(k):
    @func_adl_callable()
    def calibrated_c07(pt: float, scale: float = 1.0 + k / 100, mode: str = "m%d" % k) -> float: return pt * scale
    return calibrated_c07
def declare_other(k):
    @func_adl_callable()
    def smeared_c07(pt: float, width: float = 2.0 + k / 100) -> float: ...
    return smeared_c07
def q_nested(ds, calibrated_c07): return ds.Select(lambda e: e.jets().Select(lambda j: calibrated_c07(j.pt())))
def q_top(ds, calibrated_c07): return ds.Select(lambda e: calibrated_c07(e.met(), mode="x"))
def q_alias(ds, fn): return ds.Select(lambda e: e.jets().Select(lambda j: fn(scale=3.0, pt=j.pt())))
def q_text(ds, unused): return ds.Select("lambda e: e.jets().Select(lambda j: calibrated_c07(j.pt()))")
'''


def registry_history(ctx, nhist=12):
    """registered functions have a history: declared again under the same name, the registry emptied with reset_global_functions()
    and filled again; queries from python lambdas in a file and from text. Whatever happened before, the call in the emitted query
    carries every declared parameter of the function now in force"""
    from func_adl.type_based_replacement import reset_global_functions

    m = modgen.load(REG_SRC, "c07r")
    for h in range(nhist):
        rnd = random.Random(ctx.seed * 7177 + ctx.shard * 131 + h)
        reset_global_functions()
        cur, k, trace = None, 0, []
        for step in range(rnd.randint(5, 14)):
            r = rnd.random() if step else 0.0
            if r < 0.25:
                k += 1
                cur = (m.declare(k), k)
                trace.append(f"declare #{k}")
                continue
            if r < 0.32:
                m.declare_other(k)
                trace.append("declare another function")
                continue
            if r < 0.4:
                reset_global_functions()
                cur = None
                trace.append("reset_global_functions()")
                continue
            if cur is None:
                continue
            fn, kk = cur
            qname = rnd.choice(["q_nested", "q_top", "q_alias", "q_text"])
            trace.append(qname)
            ctx.case(f"registry-history:{h}:{step}:{qname}", True)
            ctx.count("registry-history-queries")
            w = {"registry_history": True}
            try:
                s = getattr(m, qname)(m.DS(m.Evt), fn)
            except Exception as e:
                ctx.violation(f"registry-history:exc:{type(e).__name__}", f"{' ; '.join(trace)}: {type(e).__name__}: {str(e)[:200]}", w)
                break
            text = astx.unparse(s.query_ast.args[1])
            d, md = 1.0 + kk / 100, f"m{kk}"
            want = {"q_nested": f"calibrated_c07(j.pt(), {d!r}, {md!r})", "q_text": f"calibrated_c07(j.pt(), {d!r}, {md!r})", "q_top": f"calibrated_c07(e.met(), {d!r}, 'x')",
                    "q_alias": f"calibrated_c07(j.pt(), 3.0, {md!r})"}[qname]
            if want not in text:
                ctx.violation("registry-history:call-of-the-function-in-force-not-normalised", f"history {' ; '.join(trace)}: expected {want} in {text[:240]}", w)
                break
    reset_global_functions()
    modgen.unload(m)
    modgen.cleanup()
    ctx.count("registry-histories", nhist)


def conditional_receiver(ctx):
    """a typed call on an object that is one class or a subclass of it, depending on the data, where the subclass declares the method
    again with another default: no single declared default is 'the' default of that call site. Refusing the conditional, or leaving
    the call as written, are both fine; writing ONE class's default into it is not"""
    from typing import Iterable

    from func_adl import EventDataset

    class Track:
        def pt(self, scale: float = 1.0) -> float: ...
        def eta(self) -> float: ...

    class Muon(Track):
        def pt(self, scale: float = 0.001) -> float: ...

    class Evt:
        def has_muon(self) -> bool: ...
        def lead_muon(self) -> Muon: ...
        def lead_track(self) -> Track: ...
        def tracks(self) -> Iterable[Track]: ...

    class DS(EventDataset):
        async def execute_result_async(self, a, title=None):
            return a

    for text in ("lambda e: (e.lead_muon() if e.has_muon() else e.lead_track()).pt()", "lambda e: (e.lead_track() if e.has_muon() else e.lead_muon()).pt()",
                 "lambda e: e.tracks().Select(lambda t: (e.lead_muon() if t.eta() > 1 else t).pt())"):
        ctx.case("conditional-receiver:" + text, True)
        ctx.count("conditional-receiver-cases")
        try:
            s = DS(Evt).Select(text)
        except ValueError:
            ctx.count("conditional-receiver:refused")
            continue
        except Exception as e:
            ctx.violation(f"conditional-receiver:exc:{type(e).__name__}", f"{text}: {type(e).__name__}: {str(e)[:200]}", {"conditional_receiver": True})
            continue
        out = astx.unparse(s.query_ast.args[1])
        if ".pt(1.0)" in out or ".pt(0.001)" in out:
            ctx.violation("conditional-receiver:one-class's-default-written-into-the-call", f"{text} emitted {out}: Track.pt declares scale=1.0, Muon.pt declares scale=0.001, python calls the method of the object that is there", {"conditional_receiver": True})


def defaults_scope(ctx):
    """default values of a nested stage lambda's parameters are ALL evaluated where the lambda is written: a name in a later default means
    the enclosing variable even if an earlier keyword-only parameter (or the item parameter) of the same lambda carries that name"""
    from typing import Iterable

    from func_adl import EventDataset

    class Jet:
        def pt(self, unit: int = 1) -> float: ...

    class Ev:
        def pt(self, unit: int = 1000, frame: str = "lab") -> float: ...
        def lead(self) -> Jet: ...
        def jets(self) -> Iterable[Jet]: ...

    class DS(EventDataset):
        async def execute_result_async(self, a, title=None):
            return a

    cases = [
        ("lambda e: e.jets().Select(lambda j, *, e=e.lead(), s=e.pt(): j.pt() / s + e.pt())", ["s=e.pt(1000, 'lab')", "j.pt(1) / s + e.pt(1)"]),
        ("lambda e: e.jets().Select(lambda e, *, s=e.pt(): e.pt() / s)", ["s=e.pt(1000, 'lab')", "e.pt(1) / s"]),
        ("lambda e: e.jets().Select(lambda j, *, e=e: j.pt() / e.pt())", ["j.pt(1) / e.pt(1000, 'lab')"]),
        ("lambda e: e.jets().Where(lambda j, *, a=e.pt(frame='cm'), b=e.lead().pt(): j.pt(unit=2) > a + b).Count()", ["a=e.pt(1000, 'cm')", "b=e.lead().pt(1)", "j.pt(2) > a + b"]),
    ]
    # one ast.Lambda OBJECT as the function of two nested operators over different item classes (a query assembled from parts)
    class Trk:
        def pt(self, unit: int = 7) -> float: ...

    class JetL:
        def lead(self, kind: str = "jet-default") -> Trk: ...

    class Mu:
        def lead(self, kind: str = "mu-default", n: int = 2) -> Trk: ...

    class Ev2:
        def jets(self) -> Iterable[JetL]: ...
        def mus(self) -> Iterable[Mu]: ...

    shared = astx.parse_expr("lambda x: x.lead().pt()")
    outer = astx.parse_expr("lambda e: (e.jets().Select(0), e.mus().Select(0))")
    outer.body.elts[0].args[0] = shared
    outer.body.elts[1].args[0] = shared
    ctx.case("shared-lambda-object-under-two-operators", True)
    try:
        out = astx.unparse(DS(Ev2).Select(outer).query_ast.args[1])
        if "x.lead('jet-default').pt(7)" not in out or "x.lead('mu-default', 2).pt(7)" not in out:
            ctx.violation("shared-lambda-object:normalised-against-the-wrong-class", f"one lambda object under e.jets().Select(..) and e.mus().Select(..): emitted {out}", {"defaults_scope": True})
    except Exception as e:
        ctx.violation(f"defaults-scope:exc:{type(e).__name__}", f"shared lambda object: {type(e).__name__}: {str(e)[:200]}", {"defaults_scope": True})
    # a nested lambda / comprehension over a sequence whose items have NO declared type, its variable named like the typed enclosing one:
    # inside, the name is the item - nothing is known about it, the call stays as written
    class Ev3:
        def energy(self, scale: float = 1.0) -> float: ...
        def hits(self) -> Iterable: ...
        def cells(self) -> Iterable[Any]: ...

    for text in ("lambda e: e.hits().Select(lambda e: e.energy())", "lambda e: [e.energy() for e in e.hits()]", "lambda e: e.cells().Where(lambda e: e.energy() > 1).Count() + e.energy()"):
        ctx.case("untyped-item-named-like-the-typed-outer-variable:" + text, True)
        ctx.count("defaults-scope-cases")
        try:
            out = astx.unparse(DS(Ev3).Select(text).query_ast.args[1])
        except Exception as e:
            ctx.violation(f"defaults-scope:exc:{type(e).__name__}", f"{text}: {type(e).__name__}: {str(e)[:200]}", {"defaults_scope": True})
            continue
        inner = out.split("lambda e:", 2)[-1] if out.count("lambda e:") > 1 else out
        if "e.energy(1.0)" in inner.split(").Count()")[0]:
            ctx.violation("untyped-item:outer-class's-default-written-into-the-call", f"{text} emitted {out}: inside the nested lambda e is an item of undeclared type", {"defaults_scope": True})
    for text, must in cases:
        ctx.case("defaults-scope:" + text, True)
        ctx.count("defaults-scope-cases")
        try:
            out = astx.unparse(DS(Ev).Select(text).query_ast.args[1])
        except Exception as e:
            ctx.violation(f"defaults-scope:exc:{type(e).__name__}", f"{text}: {type(e).__name__}: {str(e)[:200]}", {"defaults_scope": True})
            continue
        missing = [m for m in must if m not in out]
        if missing:
            ctx.violation("defaults-scope:not-normalised-against-the-enclosing-variable", f"{text} emitted {out}; expected to contain {missing}", {"defaults_scope": True})


def shard_main(ctx):
    from func_adl import EventDataset

    class DS(EventDataset):
        async def execute_result_async(self, a, title=None):
            return a

    if ctx.shard == 0:
        defaults_scope(ctx)
    if ctx.shard in (0, 2, 4):
        registry_history(ctx)
    if ctx.shard == 0:
        conditional_receiver(ctx)
    n = N_CASES[ctx.tier]
    per_model = 40
    i = 0
    while i < n and not ctx.out_of_time():
        mrnd = random.Random((ctx.seed * 1000 + ctx.shard) * 7919 + i)
        model = Model(mrnd)
        ds = DS(model.Event)
        for j in range(per_model):
            if j == per_model // 2:
                # history: two methods of classes that queries already used are declared again with other signatures
                for cls in ("Jet", "Trk"):
                    model.redefine_method(mrnd, cls, mrnd.choice(["m0", "m1", "m2", "m3"]))
                ctx.count("methods-redefined-after-use", 2)
            rnd = random.Random((ctx.seed * 1000 + ctx.shard) * 100003 + i)
            try:
                run_case(ctx, rnd, model, ds, i)
            except RecursionError:
                ctx.count("harness:recursion")
            i += 1
        model.cleanup()
        ctx.count("models")


def replay(ctx, witness):
    from func_adl import EventDataset

    class DS(EventDataset):
        async def execute_result_async(self, a, title=None):
            return a

    if witness.get("registry_history"):
        registry_history(ctx)
        return
    if witness.get("defaults_scope"):
        defaults_scope(ctx)
        return
    if witness.get("conditional_receiver"):
        conditional_receiver(ctx)
        return
    ns = {}
    exec(compile(witness["model"], "<replay-model>", "exec"), ns)
    ds = DS(ns["Event"])
    if witness.get("two_stage"):
        ds = ds.Select("lambda e0: {'ev': e0, 'n': 1}")
    text = witness["lambda"]
    exp = astx.parse_expr(witness["expected"])
    op = witness["op"] if witness["op"] != "remap_by_types" else "Select"
    try:
        s = getattr(ds, op)(text)
    except ValueError as ex:
        if not witness["missing_required"]:
            ctx.violation("undesigned-ValueError", f"{text}: {ex}", witness)
        return
    out = s.query_ast.args[1]
    if witness["missing_required"]:
        ctx.violation("missing-required-accepted", f"{text} -> {astx.unparse(out)}", witness)
    elif astx.dump_fields(astx.parse_expr(astx.unparse(out))) != astx.dump_fields(exp):
        ctx.violation("not-normalised:replay", f"{text} -> {astx.unparse(out)} expected {witness['expected']}", witness)
