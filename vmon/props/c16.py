"""C16 - query-level metadata accumulates, is inherited, never reaches a backend (DESIGN.md section 4, C16)."""
import random

from .. import astx
from ..history import History

N_CASES = {"quick": 80, "thorough": 30000}
TIME_BUDGET = {"quick": 60, "thorough": 270}
META = {
    "rule": "random histories of 10-60 steps: QMetaData calls (keys from a pool of 4, values from a pool of 5 incl. containers; new keys, "
    "repeated keys with equal / different values, consecutive calls, on dataset roots, derived streams and after terminals) interleaved "
    "(values incl. falsy ones: 0, False, '', 0.0, ()) with Select/Where/SelectMany/MetaData/terminals and branching so that siblings set the same key differently; after EVERY step "
    "lookup_query_metadata(stream, key) is probed for all live streams x all keys against a persistent-dictionary model of the "
    "derivation path; on execution the AST received by the executor must equal (fields-only dump, ast.dump, calc_ast_hash) that of a "
    "twin chain built in parallel without any QMetaData; distinct by operation-kind sequence; non-trivial = >= 2 consecutive QMetaData "
    "calls and >= 1 sibling conflict",
    "assumptions": ["a key set to None reads like a key never set (both None): only the order 'something, then None' is informative and is judged"],
    "floor_evaluations": {"quick": 20000, "thorough": 500000},
    "floor_nontrivial": {"quick": 50, "thorough": 1000},
    "floor_counters": {"quick": {"lookup-probes": 20000, "twin-comparisons": 200}, "thorough": {"lookup-probes": 500000, "twin-comparisons": 5000}},
    "anchors": ["func_adl/object_stream.py", "func_adl/ast/meta_data.py"],
}
KEYS = ["a", "b", "c", "title"]
VALUES = [1, 2, "x", (1, 2), {"n": 1}, 0, False, "", 0.0, (), True, ["a.root"], ["a.root", "b.root"], ["b.root"], [],
          # None is a value like any other: set after something else it is "the value most recently set" (and reads like "never set")
          None, None,
          # containers that compare equal and differ inside (python: [1, 0.0] == [True, -0.0], {'c': 1} == {'c': True})
          [1, 0.0], [True, -0.0], {"calib": 1}, {"calib": True}, (1, 2.0), (1.0, 2), {"n": 1.0}, [[1]], [[True]]]
try:
    # values whose `==` has no truth value and whose printed form hides where they differ: told apart by being the object that was set
    import numpy as _np

    VALUES += [_np.array([0.1, 0.2]), _np.array([0.1, 0.2000000001]), _np.arange(1500.0), _np.concatenate([_np.arange(750.0), [0.5], _np.arange(751.0, 1500.0)])]
    _OPAQUE = (_np.ndarray,)
except ImportError:  # pragma: no cover
    _OPAQUE = ()


import enum as _enum


class KeyE(str, _enum.Enum):
    "keys as an analysis code base may declare them: members of a str-valued Enum (equal to, and hashed like, their value; str() differs)"
    a = "a"
    b = "b"
    c = "c"
    title = "title"


class LoudKey(str):
    def __str__(self):
        return "<key " + str.__str__(self) + ">"


def spellings(k, n):
    """the key as a plain str, as a (str, Enum) member, as a str subclass whose __str__ says something else: one key to python"""
    return (k, KeyE(k), LoudKey(k))[n % 3]


def differs(got, exp):
    """is ``got`` something else than the value most recently set (not one that merely compares equal: 1 / True / 1.0, 0.0 / -0.0)"""
    if isinstance(exp, _OPAQUE) or isinstance(got, _OPAQUE):
        return got is not exp
    return got != exp or type(got) is not type(exp) or repr(got) != repr(exp)


def ident(v):
    return ("id", id(v)) if isinstance(v, _OPAQUE) else repr(v)


def run_history(ctx, hseed, nsteps):
    import ast as _ast

    from func_adl.ast.ast_hash import calc_ast_hash
    from func_adl.ast.meta_data import lookup_query_metadata

    rnd = random.Random(hseed)
    hist = History(rnd, [], n_datasets=1)
    twin = History(random.Random(hseed), [], n_datasets=1)  # same seed -> same dataset typing
    model = {hist.streams[0].id: {}}
    tw = {hist.streams[0].id: twin.streams[0]}
    kinds = []
    trace = []
    consecutive = 0
    dict_pool = []
    sib_conflict = False
    set_by_parent = {}

    def probe(step_desc):
        for e in hist.streams:
            for k in KEYS:
                ctx.count("lookup-probes")
                ctx.evaluations += 1
                got = lookup_query_metadata(e.s, spellings(k, ctx.evaluations))
                exp = model[e.id].get(k)
                if differs(got, exp):
                    why = "earlier-key-lost" if exp is not None and got is None else ("sees-unset-key" if exp is None else "wrong-value")
                    ctx.violation(
                        f"lookup:{why}",
                        f"after {step_desc}: lookup_query_metadata(stream #{e.id} [{e.how}], {k!r}) = {got!r}, model says {exp!r}; trace tail {trace[-5:]}",
                        {"hist_seed": hseed, "nsteps": nsteps},
                    )
                    return False
        return True

    ok = True
    last_q = False
    for step in range(nsteps):
        k = rnd.random()
        live = hist.streams
        e = rnd.choice(live[-8:] if rnd.random() < 0.6 else live)
        te = tw[e.id]
        if k < 0.42:
            if dict_pool and rnd.random() < 0.4:
                d = rnd.choice(dict_pool)  # the same dictionary OBJECT handed to several QMetaData calls
            else:
                d = {rnd.choice(KEYS): rnd.choice(VALUES) for _ in range(rnd.randint(1, 3))}
                dict_pool.append(d)
            d_obj, d = d, dict(d)  # (the history driver may go on changing the caller's object after the call: the model keeps the call-time content)
            ne = hist.qmetadata(e, d_obj)
            if hist.callers_dict_modified:
                b4, af = hist.callers_dict_modified.pop()
                ctx.violation("callers-dictionary-modified", f"QMetaData changed the dictionary it was given: {b4!r} -> {af!r}; trace tail {trace[-3:]}", {"hist_seed": hseed, "nsteps": nsteps})
                break
            m = dict(model[e.id])
            m.update(d)
            model[ne.id] = m
            tw[ne.id] = te  # twin has no QMetaData step
            for kk, vv in d.items():
                prev = set_by_parent.setdefault((e.id, kk), set())
                prev.add(ident(vv))
                if len(prev) > 1:
                    sib_conflict = True
            if e.how.startswith("QMetaData"):
                consecutive += 1
            kinds.append("Q")
            trace.append(("Q", e.id, ne.id, d))
        elif k < 0.72:
            if e.terminal:
                continue
            r = rnd.random
            from ..history import POOL

            pool = POOL.get(e.kind, POOL["other"])
            ops = [o for o in ("Select", "Where", "SelectMany") if pool[o]]
            opname = rnd.choice(ops)
            text, rkind = rnd.choice(pool[opname])
            ne = hist.derive(e, opname, text, rkind, "string")
            if ne is None:
                continue
            tne = twin.derive(te, opname, text, rkind, "string")
            model[ne.id] = dict(model[e.id])
            tw[ne.id] = tne
            kinds.append("D")
            trace.append(("D", e.id, ne.id, opname))
        elif k < 0.8:
            if e.terminal:
                continue
            d = {} if rnd.random() < 0.3 else {"m": rnd.randint(0, 2)}
            ne = hist.metadata(e, d)
            tne = twin.metadata(te, d)
            model[ne.id] = dict(model[e.id])
            tw[ne.id] = tne
            kinds.append("M")
            trace.append(("M", e.id, ne.id))
        elif k < 0.86:
            if e.terminal:
                continue
            st = rnd.getstate()
            ne = hist.terminal(e)
            twin.rnd.setstate(st)
            tne = twin.terminal(te)
            model[ne.id] = dict(model[e.id])
            tw[ne.id] = tne
            kinds.append("T")
            trace.append(("T", e.id, ne.id))
        else:
            n0 = len(hist.log)
            hist.execute(e, how="value_async")
            twin.execute(te, how="value_async")
            a = [x for x in hist.log[n0:] if x["ev"] == "enter"]
            b = [x for x in twin.log if x["ev"] == "enter"][-1:]
            kinds.append("X")
            trace.append(("X", e.id))
            if a and b:
                ctx.count("twin-comparisons")
                ctx.evaluations += 1
                ra, rb = a[0]["ast"], b[0]["ast"]
                if astx.dump_fields(ra) != astx.dump_fields(rb):
                    ctx.violation("executor-ast-differs-from-twin", f"stream #{e.id} [{e.how}]: {astx.unparse(ra)[:200]} vs twin {astx.unparse(rb)[:200]}", {"hist_seed": hseed, "nsteps": nsteps})
                elif _ast.dump(ra) != _ast.dump(rb):
                    ctx.violation("executor-ast-dump-differs-from-twin", f"ast.dump differs for stream #{e.id} [{e.how}]", {"hist_seed": hseed, "nsteps": nsteps})
                elif calc_ast_hash(ra) != calc_ast_hash(rb):
                    ctx.violation("executor-ast-hash-differs-from-twin", f"calc_ast_hash differs for stream #{e.id} [{e.how}]", {"hist_seed": hseed, "nsteps": nsteps})
                leaked = [n for n in astx.walk_nodes(ra) if any(isinstance(getattr(n, f, None), dict) for f in n._fields)]
                if leaked:
                    ctx.violation("metadata-in-a-field", f"a node field holds a dict: {astx.unparse(ra)[:200]}", {"hist_seed": hseed, "nsteps": nsteps})
        if not probe(trace[-1] if trace else "start"):
            ok = False
            break
    ctx.case("".join(kinds), nontrivial=consecutive >= 2 and sib_conflict)
    ctx.count("histories")
    ctx.count("consecutive-QMetaData", consecutive)
    if sib_conflict:
        ctx.count("histories-with-sibling-conflict")
    if len(ctx.samples) < 3:
        ctx.sample({"history_seed": hseed, "ops": "".join(kinds), "trace_head": [str(t)[:80] for t in trace[:6]]})


def directed(ctx):
    from func_adl.ast.meta_data import lookup_query_metadata

    hist = History(random.Random(0), [], n_datasets=1)
    root = hist.streams[0]
    a = hist.qmetadata(root, {"a": 1})
    b = hist.qmetadata(a, {"b": 2})
    c = hist.qmetadata(b, {"a": 3})
    s1 = hist.qmetadata(root, {"a": "s1"})
    z = hist.qmetadata(c, {"a": 0, "flag": False})
    z2 = hist.qmetadata(root, {"s": ""})
    n1 = hist.qmetadata(c, {"a": None})
    n2 = hist.derive(n1, "Select", "lambda e: e", None, "string")
    n3 = hist.qmetadata(n2, {"b": [True, -0.0]})
    n4 = hist.qmetadata(hist.qmetadata(n3, {"b": [1, 0.0]}), {"c": {"calib": 1}})
    n5 = hist.qmetadata(n4, {"c": {"calib": True}})
    checks = [(n1, "a", None), (n2, "a", None), (n2, "b", 2), (n3, "b", [True, -0.0]), (n4, "b", [1, 0.0]), (n4, "c", {"calib": 1}), (n5, "c", {"calib": True}), (n5, "a", None),
              (z, "a", 0), (z, "flag", False), (z, "b", 2), (z2, "s", ""), (b, "a", 1), (b, "b", 2), (c, "a", 3), (c, "b", 2), (a, "b", None), (root, "a", None), (s1, "a", "s1"), (a, "a", 1)]
    for e, k, exp in checks:
        got = lookup_query_metadata(e.s, k)
        ctx.case(f"directed:{e.how}:{k}", True)
        ctx.count("lookup-probes")
        if differs(got, exp):
            why = "earlier-key-lost" if exp is not None and got is None else ("sees-unset-key" if exp is None else "wrong-value")
            ctx.violation(f"lookup:{why}", f"directed: lookup({e.how}, {k!r}) = {got!r}, expected {exp!r}", {"directed": True})


def bare_roots(ctx):
    """streams whose bottom node is no call: ObjectStream(ast.Name(..)) - what the library itself builds to follow a nested lambda
    and hands to callbacks. QMetaData directly on such a root, consecutively, through operators; short random histories"""
    import ast

    from func_adl import ObjectStream
    from func_adl.ast.meta_data import lookup_query_metadata

    for hseed in range(12):
        rnd = random.Random(hseed * 31 + ctx.seed)
        root = ObjectStream(ast.Name(id="e", ctx=ast.Load()))
        streams = [(root, {}, "root")]
        if hseed % 3:
            # the other shapes a stream's bottom can have: an attribute / a subscript of a name, and - above a stream that already
            # carries query metadata - a query in METHOD form or an attribute / subscript of it, as a back end or a user may assemble it
            d0 = {rnd.choice(KEYS): rnd.choice([1, "x", (1, 2)])}
            base = root.QMetaData(dict(d0))
            shape = hseed % 6
            if shape == 1:
                node, how0 = ast.Attribute(value=base.query_ast, attr="jets", ctx=ast.Load()), "(root.QMetaData).jets"
            elif shape == 2:
                node, how0 = ast.Subscript(value=base.query_ast, slice=ast.Constant(value=0), ctx=ast.Load()), "(root.QMetaData)[0]"
            elif shape == 4:
                node, how0 = ast.Call(func=ast.Attribute(value=base.query_ast, attr="Select", ctx=ast.Load()), args=[ast.parse("lambda x: x.pt", mode="eval").body], keywords=[]), "(root.QMetaData).Select(..) in method form"
            else:
                node, how0 = ast.Attribute(value=ast.Call(func=ast.Attribute(value=base.query_ast, attr="First", ctx=ast.Load()), args=[], keywords=[]), attr="trks", ctx=ast.Load()), "(root.QMetaData).First().trks"
            streams.append((ObjectStream(node), dict(d0), how0 + f" {d0}"))
        for step in range(rnd.randint(3, 12)):
            s, model, how = rnd.choice(streams[-4:])
            k = rnd.random()
            if k < 0.5:
                d = {rnd.choice(KEYS): rnd.choice([1, 2, "x", (1, 2), 0, False, ""])}
                ns, nm, nh = s.QMetaData(dict(d)), {**model, **d}, how + f".QMetaData({d})"
            elif k < 0.7:
                ns, nm, nh = s.Select("lambda x: x.pt"), dict(model), how + ".Select"
            elif k < 0.85:
                ns, nm, nh = s.Where("lambda x: x.pt > 1"), dict(model), how + ".Where"
            else:
                ns, nm, nh = s.MetaData({"m": step}), dict(model), how + ".MetaData"
            streams.append((ns, nm, nh))
            for st, mo, ho in streams:
                for key in KEYS:
                    ctx.count("lookup-probes")
                    ctx.evaluations += 1
                    got, exp = lookup_query_metadata(st, key), mo.get(key)
                    if differs(got, exp):
                        why = "earlier-key-lost" if exp is not None and got is None else ("sees-unset-key" if exp is None else "wrong-value")
                        ctx.violation(f"lookup:{why}", f"stream rooted in a bare name: lookup({ho[-160:]}, {key!r}) = {got!r}, model says {exp!r}", {"bare_roots": True})
                        return
        ctx.case(f"bare-root-history:{hseed}", True)
    ctx.count("bare-root-histories", 12)


def nested_streams(ctx, nhist=10):
    """stage functions handed over as ast.Lambda objects whose body was built with the library itself - a stream rooted in the lambda's
    parameter (the way the library builds its own nested streams) on which QMetaData was used: those values are not on the outer
    stream's derivation path, whatever the order in which nodes are visited"""
    import ast

    from func_adl import ObjectStream
    from func_adl.ast.meta_data import lookup_query_metadata

    for hseed in range(nhist):
        rnd = random.Random(hseed * 77 + ctx.seed * 1009 + ctx.shard)
        hist = History(random.Random(hseed), [], n_datasets=1)
        streams = [(hist.streams[0].s, {}, "ds")]
        for step in range(rnd.randint(3, 10)):
            s, model, how = rnd.choice(streams[-4:])
            k = rnd.random()
            if k < 0.35:
                d = {rnd.choice(KEYS): rnd.choice([1, 2, "x", (1, 2), 0, False, "", None])}
                ns, nm, nh = s.QMetaData(dict(d)), {**model, **d}, how + f".QMetaData({d})"
            else:
                inner = ObjectStream(ast.Name(id="x", ctx=ast.Load()))
                for _ in range(rnd.randint(1, 2)):
                    inner = inner.QMetaData({rnd.choice(KEYS): rnd.choice(["inner", 7, (0,)])})
                    if rnd.random() < 0.5:
                        inner = inner.Select("lambda j: j.pt")
                lam_ = ast.Lambda(args=ast.arguments(posonlyargs=[], args=[ast.arg(arg="x")], kwonlyargs=[], kw_defaults=[], defaults=[]), body=inner.query_ast)
                op = rnd.choice(["Select", "SelectMany", "Where"]) if k < 0.9 else "Select"
                try:
                    ns = getattr(s, op)(lam_)
                except ValueError:
                    continue
                nm, nh = dict(model), how + f".{op}(<lambda whose body is a library-built stream with its own QMetaData>)"
            streams.append((ns, nm, nh))
            for st, mo, ho in streams:
                for key in KEYS:
                    ctx.count("lookup-probes")
                    ctx.evaluations += 1
                    got, exp = lookup_query_metadata(st, key), mo.get(key)
                    if differs(got, exp):
                        why = "earlier-key-lost" if exp is not None and got is None else ("sees-unset-key" if exp is None else "wrong-value")
                        ctx.violation(f"lookup:{why}:value-of-a-stream-inside-a-lambda", f"lookup({ho[-220:]}, {key!r}) = {got!r}, the derivation path says {exp!r}", {"nested_streams": True})
                        return
        ctx.case(f"nested-stream-history:{hseed}", True)
    ctx.count("nested-stream-histories", nhist)


def callback_qmetadata(ctx, nhist=40):
    """query metadata set by a CALLBACK while an operator is being built (func_adl_callback handing back s.QMetaData({..})) sits on the
    derivation path like any other: it hides what was set before it, and setting the old value again afterwards counts"""
    from func_adl import EventDataset, func_adl_callback
    from func_adl.ast.meta_data import lookup_query_metadata

    cell = [{}]

    def cb(s_, a):
        return (s_.QMetaData(dict(cell[0])) if cell[0] else s_), a

    class Evt:
        @func_adl_callback(cb)
        def tagged(self) -> float: ...

        def met(self) -> float: ...

    class DS(EventDataset):
        async def execute_result_async(self, a, title=None):
            return a

    class FileDS(DS):
        "a dataset with value semantics: two handles on the same file are equal and hash alike (every stream derived from it is a copy of it)"

        def __init__(self, item_type, name):
            super().__init__(item_type)
            self.name = name

        def __eq__(self, other):
            return isinstance(other, FileDS) and other.name == self.name

        def __hash__(self):
            return hash(("FileDS", self.name))

    for h in range(nhist):
        rnd = random.Random(ctx.seed * 911 + ctx.shard * 17 + h)
        streams = [(DS(Evt) if h % 2 else FileDS(Evt, "run2.root"), {}, "ds")]
        for step in range(rnd.randint(4, 12)):
            s_, model, how = rnd.choice(streams[-3:])
            k = rnd.random()
            d = {rnd.choice(["a", "b"]): rnd.choice([1, 2, "x", 0, None])}
            if k < 0.45:
                ns, nm, nh = s_.QMetaData(dict(d)), {**model, **d}, how + f".QMetaData({d})"
            elif k < 0.8:
                cell[0] = d
                ns, nm, nh = s_.Select("lambda e: e if e.tagged() > 1 else e"), {**model, **d}, how + f".Select(<a callback sets {d}>)"
                cell[0] = {}
            else:
                ns, nm, nh = s_.Where("lambda e: e.met() > 1"), dict(model), how + ".Where"
            streams.append((ns, nm, nh))
            for st, mo, ho in streams:
                for key in ("a", "b"):
                    ctx.count("lookup-probes")
                    ctx.evaluations += 1
                    got, exp = lookup_query_metadata(st, key), mo.get(key)
                    if differs(got, exp):
                        why = "earlier-key-lost" if exp is not None and got is None else ("sees-unset-key" if exp is None else "wrong-value")
                        ctx.violation(f"lookup:{why}:metadata-set-by-a-callback", f"lookup({ho[-260:]}, {key!r}) = {got!r}, the derivation path says {exp!r}", {"callback_qmetadata": True})
                        return
        ctx.case(f"callback-qmetadata-history:{h}", True)
    ctx.count("callback-qmetadata-histories", nhist)


def shard_main(ctx):
    if ctx.shard in (1, 4, 7):
        callback_qmetadata(ctx)
    if ctx.shard == 0:
        directed(ctx)
        bare_roots(ctx)
    if ctx.shard in (0, 2, 5):
        nested_streams(ctx)
    for i in range(N_CASES[ctx.tier]):
        if ctx.out_of_time():
            ctx.count("stopped-by-time-budget")
            break
        hseed = (ctx.seed * 1000 + ctx.shard) * 100003 + i + 16
        run_history(ctx, hseed, random.Random(hseed).randint(10, 60))


def replay(ctx, witness):
    if witness.get("callback_qmetadata"):
        callback_qmetadata(ctx)
    elif witness.get("nested_streams"):
        nested_streams(ctx)
    elif witness.get("bare_roots"):
        bare_roots(ctx)
    elif witness.get("directed"):
        directed(ctx)
    else:
        run_history(ctx, witness["hist_seed"], witness["nsteps"])
