"""C20 - the query hash identifies structure and nothing else (DESIGN.md section 4, C20)."""
import ast
import json
import os
import random
import subprocess
import sys

from .. import astx, modgen
from ..astx import C, N
from ..core import PY, REPO, VERIF
from ..gen_expr import Gen

N_CASES = {"quick": 350, "thorough": 150000}
TIME_BUDGET = {"quick": 60, "thorough": 270}
META = {
    "rule": "base queries from the C02 generator and from the fluent API; for each: equal-structure variants (re-formatted "
    "source: whitespace, redundant parentheses, line breaks, comments, quote style; shifted linenos; executor / _q_metadata / "
    "arbitrary non-field attributes attached; string vs ast vs callable supply; DAG vs tree copy) MUST hash equal, single-edit "
    "mutants (operator swapped, name renamed, constant value / type changed, arguments swapped, nesting added/removed, keyword "
    "renamed, Constant(-1) vs -1, u'' kind, edit at the very end of a long query, pairs differing only in non-ASCII / astral characters) MUST differ; every AST seen goes through an "
    "online bijection table structural-key <-> hash; 4 subprocesses with different PYTHONHASHSEED and import order re-hash a "
    "fixed corpus; distinct by structural key; non-trivial = a (base, variant) or (base, mutant) pair was compared",
    "assumptions": [
        "structurally identical = same node types and _fields values, an absent optional field being the same as None (own serializer, ctx included)",
        "MD5 collisions ignored",
    ],
    "floor_evaluations": {"quick": 5000, "thorough": 50000},
    "floor_nontrivial": {"quick": 1000, "thorough": 10000},
    "threads": 3,
    "anchors": ["func_adl/ast/ast_hash.py"],
}


class Table:
    def __init__(self, ctx):
        self.ctx = ctx
        self.k2h = {}
        self.h2k = {}

    def see(self, a, what):
        from func_adl.ast.ast_hash import calc_ast_hash

        key = astx.dump_fields(a, ctx=True)
        try:
            hv = calc_ast_hash(a)
        except Exception as e:
            self.ctx.violation(f"exc:{type(e).__name__}", f"calc_ast_hash raised {type(e).__name__}: {e} on {astx.unparse(a)[:300]}", {"text": astx.unparse(a), "what": what})
            return None
        self.ctx.count("hash-events")
        if not isinstance(hv, str) or not hv:
            self.ctx.violation("not-a-string", f"calc_ast_hash returned {hv!r}", {"text": astx.unparse(a)})
            return None
        old = self.k2h.get(key)
        if old is not None and old != hv:
            self.ctx.violation("same-structure-different-hash:" + what, f"{what}: same structural key, hashes {old} and {hv} | {astx.unparse(a)[:300]}", {"text": astx.unparse(a), "what": what})
        self.k2h.setdefault(key, hv)
        ok = self.h2k.get(hv)
        if ok is not None and ok != key:
            self.ctx.violation("different-structure-same-hash:" + what, f"{what}: hash {hv} for two structures | {astx.unparse(a)[:200]} | other key {ok[:200]}", {"text": astx.unparse(a), "what": what})
        self.h2k.setdefault(hv, key)
        return hv


def reformat(rnd, text):
    """Same expression, different surface."""
    k = rnd.randint(0, 5)
    if k == 0:
        return "(" + text + ")"
    if k == 1:
        return "(\n    " + text + "\n)  # trailing comment"
    if k == 2:
        return "   " + text.replace(", ", " ,   ") + "   "
    if k == 3:
        return text.replace("(", "(\n ").replace(")", "\n)") if "'" not in text and '"' not in text else "((" + text + "))"
    if k == 4:
        return text.replace("'", '"') if '"' not in text and "\\" not in text else text
    return "\n\n" + text


def mutants(rnd, a):
    """Single-edit structural mutants of tree a (each a new tree)."""
    out = []
    nodes = [n for n in astx.walk_nodes(a)]

    def edit(pred, fn, tag):
        cands = [i for i, n in enumerate(nodes) if pred(n)]
        if not cands:
            return
        i = rnd.choice(cands)
        b = astx.clone(a)
        bn = [n for n in astx.walk_nodes(b)]
        # walk order is deterministic for equal structure
        fn(bn[i])
        out.append((tag, b))

    OPS = {"Select": "Where", "Where": "Select", "SelectMany": "Select", "Count": "First", "First": "Count", "len": "Count"}
    edit(lambda n: isinstance(n, ast.Name) and n.id in OPS, lambda n: setattr(n, "id", OPS[n.id]), "operator-swapped")
    edit(lambda n: isinstance(n, ast.Attribute) and n.attr in OPS, lambda n: setattr(n, "attr", OPS[n.attr]), "operator-swapped-method")
    edit(lambda n: isinstance(n, ast.BinOp) and isinstance(n.op, ast.Add), lambda n: setattr(n, "op", ast.Sub()), "binop-swapped")
    edit(lambda n: isinstance(n, ast.Compare), lambda n: setattr(n, "ops", [ast.LtE() if not isinstance(n.ops[0], ast.LtE) else ast.Lt()]), "cmp-swapped")
    edit(lambda n: isinstance(n, ast.Attribute) and n.attr not in OPS, lambda n: setattr(n, "attr", n.attr + "_"), "attribute-renamed")
    edit(lambda n: isinstance(n, ast.Constant) and type(n.value) is int, lambda n: setattr(n, "value", n.value + 1), "constant-value")
    edit(lambda n: isinstance(n, ast.Constant) and type(n.value) is int, lambda n: setattr(n, "value", float(n.value)), "constant-type-float")
    edit(lambda n: isinstance(n, ast.Constant) and type(n.value) is int and n.value in (0, 1), lambda n: setattr(n, "value", bool(n.value)), "constant-type-bool")
    edit(lambda n: isinstance(n, ast.Constant) and type(n.value) is int, lambda n: setattr(n, "value", str(n.value)), "constant-type-str")
    edit(lambda n: isinstance(n, ast.Constant) and type(n.value) is str, lambda n: setattr(n, "kind", "u"), "constant-kind-u")
    edit(lambda n: isinstance(n, ast.Constant) and type(n.value) is str, lambda n: setattr(n, "value", n.value + "\u00e9"), "string-gains-non-ascii-char")
    edit(lambda n: isinstance(n, ast.Attribute), lambda n: setattr(n, "attr", n.attr + "\u00e8"), "attribute-gains-non-ascii-char")
    edit(lambda n: isinstance(n, ast.BinOp) and astx.dump_fields(n.left) != astx.dump_fields(n.right), lambda n: (lambda l, r: (setattr(n, "left", r), setattr(n, "right", l)))(n.left, n.right), "operands-swapped")
    edit(lambda n: isinstance(n, (ast.Tuple, ast.List)) and len(n.elts) >= 2 and astx.dump_fields(n.elts[0]) != astx.dump_fields(n.elts[1]), lambda n: n.elts.reverse() if astx.dump_fields(n.elts) != astx.dump_fields(list(reversed(n.elts))) else n.elts.append(C(0)), "elements-reordered")
    edit(lambda n: isinstance(n, ast.Lambda), lambda n: setattr(n, "body", ast.Tuple(elts=[n.body], ctx=ast.Load())), "nesting-added")
    edit(lambda n: isinstance(n, ast.keyword), lambda n: setattr(n, "arg", (n.arg or "") + "_"), "keyword-renamed")
    edit(lambda n: isinstance(n, ast.Tuple), lambda n: setattr(n, "elts", n.elts + [C(None)]), "element-added")
    edit(lambda n: isinstance(n, ast.Call) and len(n.args) >= 1, lambda n: n.args.append(C(0)), "argument-added")
    edit(lambda n: isinstance(n, ast.UnaryOp) and isinstance(n.op, ast.USub), lambda n: setattr(n, "op", ast.UAdd()), "unary-swapped")
    # rename a bound variable consistently in one lambda (alpha-variant = different structure)
    lams = [i for i, n in enumerate(nodes) if isinstance(n, ast.Lambda) and n.args.args]
    if lams:
        i = rnd.choice(lams)
        b = astx.clone(a)
        bl = [n for n in astx.walk_nodes(b)][i]
        old = bl.args.args[0].arg
        bl.args.args[0].arg = old + "_r"
        for n in astx.walk_nodes(bl.body):
            if isinstance(n, ast.Name) and n.id == old:
                n.id = old + "_r"
        out.append(("parameter-renamed", b))
    return out


class Blob:
    pass


def annotate(rnd, a):
    """Tree copy with non-field annotations hung on random nodes."""
    b = astx.clone(a)
    for n in astx.walk_nodes(b):
        if rnd.random() < 0.3:
            k = rnd.randint(0, 4)
            if k == 0:
                n._q_metadata = {"k": rnd.random()}
            elif k == 1:
                n._func_adl_executor = (lambda *a: None)
            elif k == 2:
                n._eds_object = Blob()
            elif k == 3:
                n._old_ast = astx.C(rnd.random())
            else:
                n.lineno, n.col_offset, n.end_lineno, n.end_col_offset = rnd.randint(1, 99), rnd.randint(0, 80), 100, 3
    return b


CORPUS = [
    "Select(EventDataset(), lambda e: e.jets.Select(lambda j: j.pt * 2.5).Where(lambda p: p > 30))",
    "ResultTTree(Select(EventDataset(), lambda e: (e.x, 'a', True, None, 1.0, 1, b'x')), ['c'], 't', 'f.root')",
    "Where(SelectMany(EventDataset(), lambda e: e.jets), lambda j: {'a': j.pt, 'b': [j.eta, -1]}['a'] > (0 if j.q else 1))",
]


def child_hashes(env_seed, import_first):
    code = (
        "import sys, json, ast\n"
        f"sys.path.insert(0, {REPO!r})\n"
        + ("import func_adl, time, random\n" if import_first else "import hashlib, collections\n")
        + "from func_adl.ast.ast_hash import calc_ast_hash\n"
        f"corpus = {CORPUS!r}\n"
        "print(json.dumps([calc_ast_hash(ast.parse(t, mode='eval').body) for t in corpus]))\n"
    )
    env = dict(os.environ)
    env["PYTHONHASHSEED"] = str(env_seed)
    r = subprocess.run([PY, "-B", "-c", code], capture_output=True, text=True, timeout=60, env=env)
    if r.returncode != 0:
        return ("error", r.stderr[-300:])
    return ("ok", json.loads(r.stdout))


def cross_process(ctx, table):
    from func_adl.ast.ast_hash import calc_ast_hash

    here = [calc_ast_hash(astx.parse_expr(t)) for t in CORPUS]
    for a in CORPUS:
        table.see(astx.parse_expr(a), "corpus")
    for k, (hs, imp) in enumerate([(1, True), (2, False), (12345, True), ("random", False)]):
        st, got = child_hashes(hs, imp)
        if st != "ok":
            ctx.count("inconclusive:child-failed")
            ctx.notes.setdefault("child_errors", []).append(got)
            continue
        ctx.case(f"xproc:{hs}", True)
        ctx.count("cross-process-runs")
        if got != here:
            ctx.violation("process-dependent", f"PYTHONHASHSEED={hs}: child hashes {got} != parent {here}", {"hashseed": hs})


def supply_modes(ctx, table, rnd, n):
    """The same lambda as string / ast / callable, through the real fluent API."""
    bodies = []
    for i in range(n):
        m = rnd.randint(1, 9)
        bodies.append(rnd.choice([
            f"e.a{m} + {m}", f"e.jets.Select(lambda j: j.pt > {m})", f"(e.x{m}, e.y)", f"e.m{m}(1, k={m})", f"e.x if e.y > {m} else e.z",
            f"{{'k{m}': e.x, 'j': e.y}}", f"e.x[{m}]", f"-e.x{m}", f"e.s == 'q{m}'",
        ]))
    src = modgen.DS_HEADER + "def good(js): return js.Select(lambda j: j.pt)\ndef twice(x): return x * 2\n" + "def build(ds):\n    out = []\n"
    for b in bodies:
        src += f"    out.append(ds.Select(lambda e: {b}))\n"
        src += f"    out.append(ds.Select(lambda e: (   {b}  )  # comment\n        ))\n"
    src += "    return out\n"
    m = modgen.load(src, "c20")
    ds = m.DS()
    try:
        streams = m.build(ds)
    except Exception as e:
        ctx.count("supply-modes:build-raised:" + type(e).__name__)
        modgen.unload(m)
        return
    for i, b in enumerate(bodies):
        text = f"lambda e: {b}"
        try:
            s_str = ds.Select(text)
            s_ast = ds.Select(ast.parse(text, mode="eval").body)
        except Exception as e:
            ctx.count("supply-modes:raised:" + type(e).__name__)
            continue
        hs = []
        for s, how in [(streams[2 * i], "callable"), (streams[2 * i + 1], "callable-reformatted"), (s_str, "string"), (s_ast, "ast")]:
            # grouped by the ctx-insensitive key: a Name with and without an explicit Load() is the same query to the user
            hs.append((how, table.see(s.query_ast, "supply-mode:" + how), astx.dump_fields(s.query_ast, ctx=False)))
        ctx.case("supply:" + text, True)
        ctx.count("supply-mode-groups")
        keys = {k for _, _, k in hs}
        if len(keys) == 1 and len({h for _, h, _ in hs}) != 1:
            ctx.violation("supply-mode-dependent", f"{text}: {[(w, h) for w, h, _ in hs]}", {"text": text})
        elif len(keys) != 1:
            ctx.count("supply-mode:structures-differ(not judged here; C10/C03)")
    # the same selection written inline (text) and through captured helpers / called lambdas (callable)
    hsrc = modgen.DS_HEADER + ("def good(js): return js.Select(lambda j: j.pt)\n"
                               "def deep(js): return js.Select(lambda j: j.trks.Select(lambda t: t.pt + j.pt))\n"
                               "def h1(ds): return ds.Select(lambda e: good(e.jets))\n"
                               "def h2(ds): return ds.Select(lambda e: (lambda js: js.Select(lambda j: j.pt))(e.jets))\n"
                               "def h3(ds): return ds.Select(lambda j: deep(j.jets))\n")
    hm = modgen.load(hsrc, "c20h")
    hds = hm.DS()
    for fn, text in [("h1", "lambda e: e.jets.Select(lambda j: j.pt)"), ("h2", "lambda e: e.jets.Select(lambda j: j.pt)"), ("h3", None)]:
        try:
            s_call = getattr(hm, fn)(hds)
        except Exception as e:
            ctx.count("supply-modes:helper-raised:" + type(e).__name__)
            continue
        ctx.case("supply-helper:" + fn, True)
        ctx.count("supply-mode-helper-groups")
        h_call = table.see(s_call.query_ast, "supply-mode:callable-with-helper")
        if text is None:
            text = astx.unparse(s_call.query_ast.args[1])  # what was recorded, written as text
        s_text = hds.Select(text)
        if astx.dump_fields(s_call.query_ast, ctx=False) == astx.dump_fields(s_text.query_ast, ctx=False):
            if table.see(s_text.query_ast, "supply-mode:text-of-inlined") != h_call:
                ctx.violation("supply-mode-dependent:helper", f"{fn}: the query built through a helper hashes differently from the same query given as text {text!r}", {"text": text})
        else:
            ctx.count("supply-mode:helper-structures-differ(not judged)")
    modgen.unload(hm)
    modgen.unload(m)


BUILT_AGAIN_SRC = modgen.DS_HEADER + '''
def hard_h(x, cut): return x.jets.Where(lambda j: j.pt > cut)
def b0(ds): return ds.Select(lambda j_1: j_1.events.Select(lambda j: (lambda cut: j.jets.Where(lambda j: j.pt > cut))(j.met)))
def b1(ds): return ds.Select(lambda e_1: (lambda c: e_1.jets.Select(lambda e: (lambda d: e.trks.Where(lambda e: e.pt > d + c))(e.pt)))(e_1.met))
def b2(ds): return ds.Select(lambda j_1: j_1.events.Select(lambda j: hard_h(j, j.met)))
def b3(ds): return ds.Select(lambda j_1, *, j_1_1=2: j_1.events.Select(lambda j: (lambda cut: j.jets.Where(lambda j: j.pt > cut * j_1_1))(j.met)))
def b4(ds): return ds.Select(lambda e: (lambda cut: e.jets.Where(lambda j: j.pt > cut))(e.met))
'''


def built_again(ctx):
    """history: the same source built again and again in one process, other queries in between (names that have to be made up while a
    query is built - a binder renamed because its first new name is taken - must not depend on what was built before)"""
    from func_adl.ast.ast_hash import calc_ast_hash

    m = modgen.load(BUILT_AGAIN_SRC, "c20b")
    seen = {}
    for rnd_i in range(4):
        for name in ("b0", "b1", "b2", "b3", "b4", "b2", "b0"):
            try:
                q = getattr(m, name)(m.DS()).query_ast
            except Exception as e:
                ctx.count("built-again:raised:" + type(e).__name__)
                continue
            h = calc_ast_hash(q)
            ctx.case(f"built-again:{name}:{rnd_i}", True)
            ctx.count("built-again:queries")
            first = seen.setdefault(name, (h, astx.unparse(q)))
            if first[0] != h:
                ctx.violation("same-source-built-again-hashes-differently", f"{name} built again in the same process: {first[1][:160]} then {astx.unparse(q)[:160]}", {"built_again": True})
                modgen.unload(m)
                return
    modgen.unload(m)


def deep_pairs(ctx):
    """scale boundary: pairs of very deep queries differing in one place (a constant at the bottom, the nesting of the last
    lambda's calls). A RecursionError is not judged; when both hashes are returned they must differ."""
    import ast

    from func_adl.ast.ast_hash import calc_ast_hash

    def chain(n, bottom, last):
        q = astx.parse_expr(f"Select(ds, lambda e: {bottom})")
        for i in range(n):
            q = ast.Call(func=ast.Name(id="Select", ctx=ast.Load()), args=[q, astx.parse_expr(f"lambda v{i % 3}: v{i % 3}")], keywords=[])
        return ast.Call(func=ast.Name(id="Select", ctx=ast.Load()), args=[q, astx.parse_expr(last)], keywords=[])

    for n in (40, 150, 300, 450, 700):
        for tag, a, b in [
            ("constant-at-the-bottom", chain(n, "e.x + 1", "lambda z: z"), chain(n, "e.x + 2", "lambda z: z")),
            ("nesting-of-the-last-lambda", chain(n, "e.x", "lambda e: g(f(e, f), e())"), chain(n, "e.x", "lambda e: g(f(e), f(e))")),
            ("argument-order-in-the-middle", chain(n, "h(e.a, e.b)", "lambda z: z"), chain(n, "h(e.b, e.a)", "lambda z: z")),
        ]:
            ctx.case(f"deep-pair:{n}:{tag}", True)
            try:
                ha, hb = calc_ast_hash(a), calc_ast_hash(b)
            except RecursionError:
                ctx.count(f"deep-pair:{n}:RecursionError (not judged)")
                continue
            ctx.count(f"deep-pair:{n}:hashed")
            if ha == hb:
                ctx.violation("different-structure-same-hash:deep", f"two chains of {n} operators differing in {tag} hash the same ({ha})", {"deep": n, "tag": tag})


def hand_built_annotated(ctx):
    """queries with nodes built by hand without their ctx field (what code that assembles queries writes), carrying the dataset
    object on the EventDataset() node the way real queries do: hashing must not copy or touch what hangs on the nodes, the
    annotation must not change the hash"""
    import ast

    from func_adl.ast.ast_hash import calc_ast_hash

    def build(with_ctx):
        kw = {"ctx": ast.Load()} if with_ctx else {}
        e = ast.Name(id="e", **kw)
        lam = ast.Lambda(args=ast.arguments(posonlyargs=[], args=[ast.arg(arg="e")], kwonlyargs=[], kw_defaults=[], defaults=[]),
                         body=ast.Attribute(value=e, attr="pt", **kw))
        ds = ast.Call(func=ast.Name(id="EventDataset", **kw), args=[], keywords=[])
        return ast.Call(func=ast.Name(id="Select", **kw), args=[ds, lam], keywords=[])

    for with_ctx in (True, False):
        plain, annotated = build(with_ctx), build(with_ctx)
        obj = astx.attach_object(annotated)
        annotated._q_metadata = {"marker": astx.Uncopyable()}
        ctx.case(f"hand-built-annotated:ctx={with_ctx}", True)
        try:
            h1, h2 = calc_ast_hash(plain), calc_ast_hash(annotated)
        except Exception as e:
            ctx.violation(f"exc:{type(e).__name__}:annotated", f"hashing a hand-built query (ctx fields {'present' if with_ctx else 'left out'}) that carries its dataset object raised {type(e).__name__}: {e}", {"hand_built": with_ctx})
            continue
        if h1 != h2 or obj.copied or annotated._q_metadata["marker"].copied:
            ctx.violation("annotation-changes-the-hash", f"hand-built query, ctx {'present' if with_ctx else 'left out'}: hash without / with node annotations {h1} / {h2}; objects on the nodes copied {obj.copied}x", {"hand_built": with_ctx})
        ctx.count("hand-built-annotated-queries")


def typed_queries(ctx, table):
    """queries the type follower has worked on (defaults filled in, also inside the defaults of nested / stage lambdas, callbacks'
    rewrites): the same query built twice, built from a copy, and its deep copy hash alike - the table sees them all"""
    import copy
    from typing import Iterable

    from func_adl import EventDataset
    from func_adl.ast.ast_hash import calc_ast_hash

    class Jet:
        def pt(self, scale: float = 1.0) -> float: ...

    class Ev:
        def rho(self, kind: int = 0) -> float: ...
        def jets(self, cone: float = 0.4) -> Iterable[Jet]: ...

    class DS(EventDataset):
        async def execute_result_async(self, a, title=None):
            return a

    for text in ("lambda e: e.jets().Select(lambda j, *, r=e.rho(): j.pt() - r)", "lambda e, *, k=1: e.rho() * k", "lambda e: e.jets().Where(lambda j, r=e.rho(1): j.pt(2.0) > r).Count()",
                 "lambda e: e.jets(cone=0.6).Select(lambda j: (j.pt(), e.rho()))", "lambda e: {'n': e.jets().Count(), 'rho': e.rho()}"):
        ctx.case("typed-query:" + text, True)
        ctx.count("typed-queries-hashed")
        try:
            a, b = DS(Ev).Select(text).query_ast, DS(Ev).Select(text).query_ast
        except Exception as e:
            ctx.count("typed-queries:build-raised:" + type(e).__name__)
            continue
        hs = {"built": table.see(a, "typed-query"), "built again": table.see(b, "typed-query"), "deep copy": calc_ast_hash(copy.deepcopy(a)), "fields-only copy": calc_ast_hash(astx.clone(a))}
        if len(set(hs.values())) != 1:
            ctx.violation("same-structure-different-hash:typed-query", f"{text}: one query, hashes {hs}", {"text": text})


def shard_main(ctx):
    if ctx.shard in (0, 2):
        typed_queries(ctx, Table(ctx))
    if ctx.shard == 0:
        hand_built_annotated(ctx)
    if ctx.shard in (0, 1, 3):
        deep_pairs(ctx)
    if ctx.shard == 1 % ctx.nshards and ctx.tier == "thorough":
        from ..core import repo_tests_under_monitors

        repo_tests_under_monitors(ctx, "C20")
    table = Table(ctx)
    if ctx.shard == 0:
        cross_process(ctx, table)
    supply_modes(ctx, table, random.Random(ctx.seed * 77 + ctx.shard), 12 if ctx.tier == "quick" else 200)
    if ctx.shard == 3 % ctx.nshards:
        built_again(ctx)
    for i in range(N_CASES[ctx.tier]):
        if ctx.out_of_time():
            ctx.count("stopped-by-time-budget")
            break
        rnd = random.Random((ctx.seed * 1000 + ctx.shard) * 100003 + i + 20)
        g = Gen(rnd, naming=["distinct", "identical", "reuse"][i % 3], method_form=[0.0, 0.5, 1.0][(i // 3) % 3])
        try:
            q, _ = g.chain(rnd.randint(1, 5), rnd.randint(1, 3))
        except Exception as e:
            ctx.count("generator-failed:" + type(e).__name__)
            continue
        if astx.size(q) > 400:
            continue
        text = astx.unparse(q)
        base = astx.parse_expr(text)
        hb = table.see(base, "base")
        kb = astx.dump_fields(base, ctx=True)
        if hb is None:
            continue
        # must-equal variants
        for j in range(3):
            t2 = reformat(rnd, text)
            try:
                v = astx.parse_expr(t2)
            except SyntaxError:
                ctx.count("reformat:syntax-error(harness)")
                continue
            if astx.dump_fields(v, ctx=True) != kb:
                ctx.count("reformat:structure-changed(harness)")
                continue
            ctx.case(kb + f"|fmt{j}", True)
            hv = table.see(v, "reformatted")
            if hv != hb:
                ctx.violation("depends-on-formatting", f"{text[:200]!r} vs {t2[:200]!r}: {hb} != {hv}", {"text": text, "variant": t2})
        sh = astx.parse_expr(text)
        ast.increment_lineno(sh, rnd.randint(1, 500))
        ctx.case(kb + "|lineno", True)
        if table.see(sh, "lineno-shifted") != hb:
            ctx.violation("depends-on-positions", f"lineno shifted: {text[:200]}", {"text": text})
        an = annotate(rnd, base)
        ctx.case(kb + "|annot", True)
        if table.see(an, "annotated") != hb:
            ctx.violation("depends-on-non-field-annotations", f"annotated copy hashes differently: {text[:200]}", {"text": text})
        # a DAG of the same structure (shared sub-trees)
        dag = astx.clone(base)
        for n in astx.walk_nodes(dag):
            if isinstance(n, ast.BinOp) and astx.dump_fields(n.left) == astx.dump_fields(n.right):
                n.right = n.left
        ctx.case(kb + "|dag", True)
        if table.see(dag, "dag") != hb:
            ctx.violation("depends-on-sharing", f"DAG copy hashes differently: {text[:200]}", {"text": text})
        # repeat (time / id dependence inside one process)
        if table.see(astx.clone(base), "recomputed") != hb:
            ctx.violation("not-repeatable", f"second computation differs: {text[:200]}", {"text": text})
        # must-differ mutants
        for tag, mt in mutants(rnd, base):
            km = astx.dump_fields(mt, ctx=True)
            if km == kb:
                ctx.count("mutant:no-structural-change(harness)")
                continue
            ctx.case(km, True)
            ctx.count("mutant:" + tag)
            hm = table.see(mt, "mutant:" + tag)
            if hm == hb:
                ctx.violation("insensitive-to:" + tag, f"{tag}: {text[:200]} and {astx.unparse(mt)[:200]} hash equal", {"text": text, "mutant": astx.unparse(mt), "tag": tag})
        if len(ctx.samples) < 3 and rnd.random() < 0.02:
            ctx.sample({"base": text, "hash": hb, "variants": ["reformatted", "lineno-shifted", "annotated", "dag"], "mutants": [t for t, _ in mutants(rnd, base)][:6]})
    # long query, edit at the very end (truncation)
    rnd = random.Random(ctx.seed + ctx.shard)
    long_text = "Select(EventDataset(), lambda e: (" + ", ".join(f"e.a{i} + {i}" for i in range(400)) + ", %d))"
    h1 = table.see(astx.parse_expr(long_text % 1), "long")
    h2 = table.see(astx.parse_expr(long_text % 2), "long-edited-at-end")
    ctx.case("long-tail", True)
    if h1 == h2:
        ctx.violation("insensitive-to:edit-at-end-of-long-query", "two 400-element queries differing in the last constant hash equal", {"text": "long"})
    # queries that differ only in non-ASCII / astral characters (names, attributes, string constants)
    uni = [("e.f('<status word at 0x1F>')", "e.f('<status word at 0x2F>')"), ("e.Collection('<block at 0xA0>')", "e.Collection('<block at 0xB0>')"),
           ("e.f('<function f at 0x7f00aa>')", "e.f('<function f at 0x7f00ab>')"), ("e.f('a  b')", "e.f('a b')"), ("e.f('Load()')", "e.f('Store()')"),
           ("e.f(\"x', ctx=Load())\")", "e.f(\"x', ctx=Store())\")"), ("e.f('lineno=1')", "e.f('lineno=2')"),
           ("e.s\u00e9lection", "e.s\u00e8lection"), ("e.f('donn\u00e9es_\u00b5.root')", "e.f('donn\u00e9es_\u00b1.root')"), ("e.f('\U0001F600')", "e.f('\U0001F601')"),
           ("e.f('\u4e2d')", "e.f('\u6587')"), ("\u00e9v.x", "\u00e8v.x"), ("e.f('a\u0301')", "e.f('\u00e1')")]
    for a, b in uni:
        ta, tb = f"Select(EventDataset(), lambda e: {a})".replace("lambda e: \u00e9v", "lambda \u00e9v: \u00e9v").replace("lambda e: \u00e8v", "lambda \u00e8v: \u00e8v"), None
        tb = f"Select(EventDataset(), lambda e: {b})".replace("lambda e: \u00e9v", "lambda \u00e9v: \u00e9v").replace("lambda e: \u00e8v", "lambda \u00e8v: \u00e8v")
        ctx.case("non-ascii:" + a, True)
        ctx.count("mutant:non-ascii-pair")
        ha, hb = table.see(astx.parse_expr(ta), "non-ascii"), table.see(astx.parse_expr(tb), "non-ascii")
        if ha is not None and ha == hb:
            ctx.violation("insensitive-to:non-ascii-character", f"{ta!r} and {tb!r} hash equal", {"text": ta, "mutant": tb, "tag": "non-ascii-character"})
    # a wide character vs the latin-1 reading of its UTF-8 bytes (byte-level encodings must not collide)
    for cp in [0x161, 0x142, 0x3b1, 0x444, 0x4e2d, 0x1F600, 0x100, 0x7ff, 0x20ac]:
        wide = chr(cp)
        moji = wide.encode("utf-8").decode("latin-1")
        ta, tb = f"Select(EventDataset(), lambda e: e.f({wide!r}))", f"Select(EventDataset(), lambda e: e.f({moji!r}))"
        ctx.case(f"mojibake:{cp:x}", True)
        ctx.count("mutant:wide-char-vs-latin1-mojibake")
        ha, hb = table.see(astx.parse_expr(ta), "wide-char"), table.see(astx.parse_expr(tb), "mojibake")
        if ha is not None and ha == hb:
            ctx.violation("insensitive-to:wide-char-vs-mojibake", f"{ta!r} and {tb!r} hash equal", {"text": ta, "mutant": tb, "tag": "wide-char-vs-mojibake"})
    # hashing must not leave state behind on the nodes: hash, then derive other structures from the same node objects
    import copy as _copy

    for text in ["Select(MetaData(EventDataset(), {}), lambda e: e.x + 1)", "Where(Select(EventDataset(), lambda e: (e.a, e.b)), lambda t: t[0] > 1)"]:
        a = astx.parse_expr(text)
        h0 = table.see(a, "before-derivation")
        # (1) shallow copy of the top node (what QMetaData / the metadata cleaner do) with one child replaced
        c = _copy.copy(a)
        c.args = [a.args[0], astx.parse_expr("lambda z: z.other")]
        ctx.case("stale:" + text + ":shallow-copy", True)
        ctx.count("mutant:shallow-copy-with-new-child")
        hc = table.see(c, "shallow-copy-with-new-child")
        if hc == h0:
            ctx.violation("insensitive-to:edit-on-a-shallow-copy-of-a-hashed-node", f"{text}: a shallow copy with another lambda hashes like the original", {"text": text})
        # (2) the node itself edited in place after it was hashed
        a.args[1].body = astx.parse_expr("e.y - 2")
        ctx.case("stale:" + text + ":in-place", True)
        ctx.count("mutant:in-place-edit-after-hash")
        if table.see(a, "edited-in-place") == h0:
            ctx.violation("insensitive-to:in-place-edit-after-hashing", f"{text}: edited after hashing, hash unchanged", {"text": text})
    # (3) through the real API: hash the stream, execute it (empty MetaData cleaned away), hash what the executor got
    from func_adl import EventDataset as _EDS

    class _DS(_EDS):
        async def execute_result_async(self, aa, title=None):
            return aa

    d1 = _DS()
    s_md = d1.MetaData({}).Select("lambda e: e.pt").Where("lambda p: p > 1")
    s_plain = d1.Select("lambda e: e.pt").Where("lambda p: p > 1")
    table.see(s_md.query_ast, "stream-with-empty-metadata")
    got = s_md.value()
    ctx.case("stale:api", True)
    ctx.count("api-clean-then-hash")
    if astx.dump_fields(got, ctx=True) == astx.dump_fields(s_plain.query_ast, ctx=True) and table.see(got, "executor-ast") != table.see(s_plain.query_ast, "same-query-without-metadata"):
        ctx.violation("same-structure-different-hash:after-cleaning", "the AST handed to the executor (empty MetaData removed) hashes differently from the same query built without MetaData", {"text": "api"})
    # Constant(-1) vs UnaryOp(USub, 1): print alike, differ structurally
    a1 = astx.parse_expr("f(x)[0]")
    a1.slice = astx.C(-1)
    a2 = astx.parse_expr("f(x)[-1]")
    ctx.case("neg-const", True)
    if table.see(a1, "Constant(-1)") == table.see(a2, "UnaryOp(-1)"):
        ctx.violation("insensitive-to:constant-vs-unaryop", "Constant(-1) and -1 hash equal", {"text": "f(x)[-1]"})
    ctx.notes["table_sizes"] = {"structures": len(table.k2h), "hashes": len(table.h2k)}
    modgen.cleanup()


def replay(ctx, witness):
    if witness.get("built_again"):
        built_again(ctx)
        modgen.cleanup()
        return
    if "hand_built" in witness:
        hand_built_annotated(ctx)
        return
    table = Table(ctx)
    if "hashseed" in witness:
        cross_process(ctx, table)
        return
    rnd = random.Random(0)
    text = witness.get("text", "f(x)")
    if text == "long" or text == "f(x)[-1]":
        ctx.tier = "quick"
        N_CASES["quick"] = 0
        shard_main(ctx)
        return
    base = astx.parse_expr(text)
    hb = table.see(base, "base")
    for _ in range(5):
        if table.see(annotate(rnd, base), "annotated") != hb:
            ctx.violation("depends-on-non-field-annotations", text[:200], witness)
            break
    sh = astx.parse_expr(text)
    ast.increment_lineno(sh, 7)
    if table.see(sh, "lineno") != hb:
        ctx.violation("depends-on-positions", text[:200], witness)
    if "variant" in witness and table.see(astx.parse_expr(witness["variant"]), "fmt") != hb:
        ctx.violation("depends-on-formatting", text[:200], witness)
    if "mutant" in witness and table.see(astx.parse_expr(witness["mutant"]), "mutant") == hb:
        ctx.violation("insensitive-to:" + witness.get("tag", "?"), text[:200], witness)
