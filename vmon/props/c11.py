"""C11 - streams are immutable values (DESIGN.md section 4, C11)."""
import ast
import random

from .. import astx
from ..history import History, ImmutabilityMonitor

N_CASES = {"quick": 30, "thorough": 15000}
TIME_BUDGET = {"quick": 60, "thorough": 270}
META = {
    "rule": "random histories of 20-120 API events over forests (1-3 datasets: typed with class/method callbacks, typed plain, untyped; "
    "heavy branching from shared parents): Select/Where/SelectMany (string and ast supply; typed calls whose defaults are filled in "
    "nested lambdas), MetaData (empty and non-empty, on interior nodes), QMetaData, the four result terminals and their aliases, "
    "value()/value_async() with and without override executor, title, failing executors; online invariant: after EVERY event the "
    "(fields-only dump of query_ast, item_type, _q_metadata annotations) of EVERY stream ever created equals its snapshot at creation; "
    "distinct by operation-kind sequence; non-trivial = the history contains an execution after an empty MetaData and >= 3 branches "
    "from one parent",
    "assumptions": [
        "an ast.Lambda object supplied by the caller is used for one operator call only in the random histories; re-using one lambda "
        "object across typed streams is a separate directed case (known finding F14)",
    ],
    "floor_evaluations": {"quick": 5000, "thorough": 100000},
    "floor_nontrivial": {"quick": 50, "thorough": 1000},
    "floor_counters": {"quick": {"imm:stream-checks": 100000}, "thorough": {"imm:stream-checks": 1000000}},
    "anchors": ["func_adl/object_stream.py", "func_adl/ast/meta_data.py", "func_adl/type_based_replacement.py", "func_adl/event_dataset.py"],
}


def run_history(ctx, hseed, nsteps, mon_factory=None):
    rnd = random.Random(hseed)
    mon = ImmutabilityMonitor(ctx)
    hist = History(rnd, [mon], n_datasets=rnd.randint(1, 3))
    hist.trace = []
    kinds = []
    empty_md_then_exec = False
    had_empty_md = False
    for step in range(nsteps):
        k = rnd.random()
        live = hist.live()
        e = rnd.choice(live[-12:] if rnd.random() < 0.6 else live)
        if k < 0.45:
            if e.terminal:
                continue
            ne = hist.random_derive(e)
            kinds.append("D")
            hist.trace.append(("derive", e.id, ne.how if ne else "refused"))
        elif k < 0.57:
            if e.terminal:
                continue
            d = {} if rnd.random() < 0.5 else {"k": rnd.randint(0, 3)}
            hist.metadata(e, d)
            had_empty_md = had_empty_md or not d
            kinds.append("M0" if not d else "M")
            hist.trace.append(("MetaData", e.id, d))
        elif k < 0.67:
            d = {rnd.choice("abc"): rnd.choice([0, 1, 2, 3, ["f1.root"], ["f1.root", "f2.root"], ["f3.root"]]) for _ in range(rnd.randint(1, 2))}
            hist.qmetadata(e, d)
            kinds.append("Q")
            hist.trace.append(("QMetaData", e.id, d))
        elif k < 0.75:
            if e.terminal:
                continue
            hist.terminal(e)
            kinds.append("T")
            hist.trace.append(("terminal", e.id))
        else:
            hist.execute(e, override=rnd.random() < 0.2, title=rnd.choice([None, "t"]), fail=rnd.random() < 0.15)
            kinds.append("X")
            if had_empty_md:
                empty_md_then_exec = True
            hist.trace.append(("execute", e.id))
        ctx.case(None)
    # branching factor
    from collections import Counter

    fan = Counter(e.parent.id for e in hist.streams if e.parent is not None)
    nontrivial = empty_md_then_exec and fan and max(fan.values()) >= 3
    ctx.case("".join(kinds), nontrivial=bool(nontrivial))
    ctx.count("histories")
    for mk, mv in hist.mode_counts.items():
        ctx.count("supply:" + mk, mv)
    ctx.count("streams-created", len(hist.streams))
    for kk in set(kinds):
        ctx.count("ops:" + kk, kinds.count(kk))
    if len(ctx.samples) < 3:
        ctx.sample({"history_seed": hseed, "steps": nsteps, "ops": "".join(kinds)[:120], "streams": len(hist.streams), "first_events": [str(t)[:100] for t in hist.trace[:6]]})
    return hist


def directed(ctx):
    """Deterministic scenarios from the property's 'must catch' list and section 7."""
    from func_adl import EventDataset

    rnd = random.Random(1)
    mon = ImmutabilityMonitor(ctx)
    hist = History(rnd, [mon], n_datasets=1, typed_share=1.0)
    hist.trace = ["directed: MetaData({}) interior + value()"]
    root = hist.streams[0]
    a = hist.metadata(root, {})
    b = hist.derive(a, "Select", "lambda e: e.met()", "num", "string")
    c = hist.derive(a, "Where", "lambda e: e.met() > 1", None, "ast")
    hist.execute(b, how="value")
    hist.execute(c, how="value_async")
    hist.execute(a, how="value")
    q = hist.qmetadata(b, {"a": 1})
    hist.qmetadata(q, {"b": 2})
    hist.execute(q)
    t = hist.terminal(b)
    hist.execute(t)
    ctx.case("directed-empty-metadata", True)


def directed_shared_lambda(ctx):
    """F14: one ast.Lambda object given to two typed streams whose signatures differ."""
    from typing import Iterable

    from func_adl import EventDataset

    class JetA:
        def pt(self) -> float: ...

    class JetB:
        def pt(self, scale: float = 2.0) -> float: ...

    class EvA:
        def jets(self) -> Iterable[JetA]: ...

    class EvB:
        def jets(self, cone: float = 0.4) -> Iterable[JetB]: ...

    class DS(EventDataset):
        async def execute_result_async(self, a, title=None):
            return a

    import ast as _ast

    text = "lambda e: e.jets().Select(lambda j: j.pt() + 1)"
    # the caller's object: a bare ast.Lambda, or what ast.parse made of the text (a Module holding it)
    for form, lam in (("ast.Lambda", astx.parse_expr(text)), ("ast.Module", _ast.parse(text)), ("ast.Module, top-level call", _ast.parse("lambda e: e.jets().Count()"))):
        s1 = DS(EvA).Select(lam)
        before = astx.dump_fields(s1.query_ast)
        kept = _ast.dump(lam)
        s2 = DS(EvB).Select(lam)
        ctx.case("directed-shared-lambda-object:" + form, True)
        ctx.count("directed:shared-lambda-object")
        if astx.dump_fields(s1.query_ast) != before:
            ctx.violation(
                "shared-user-lambda-object-edited-in-place",
                f"one {form} object supplied to two typed streams: deriving the second changed the first: {astx.unparse(s1.query_ast)}",
                {"directed": "shared-lambda"},
            )
        elif _ast.dump(lam) != kept:
            ctx.violation("shared-user-lambda-object-edited-in-place", f"the caller's own {form} object was edited: {_ast.unparse(lam)}", {"directed": "shared-lambda"})


def flat_snapshot(a):
    """what a tree is, read without recursion (ast.walk is iterative): for chains too deep for any recursive reader"""
    import ast as _ast

    out = []
    for n in _ast.walk(a):
        out.append((type(n).__name__, tuple((f, v if isinstance(v, (str, int, float, bool, bytes, type(None))) else (len(v) if isinstance(v, list) else None)) for f, v in _ast.iter_fields(n))))
    return out


def directed_deep_chain(ctx):
    """scale boundary: a derivation chain deeper than recursive readers of the tree can follow (200-400 stages), executed on a back end
    that edits the AST it is handed in place. Whether value() succeeds or gives up with RecursionError, no stream changes"""
    from func_adl import EventDataset

    from ..history import vandalise

    class DS(EventDataset):
        async def execute_result_async(self, a, title=None):
            import ast as _ast

            for n in _ast.walk(a):  # (a back end that edits in place, written without recursion)
                if isinstance(n, _ast.Call) and isinstance(n.func, _ast.Name) and n.func.id == "EventDataset":
                    n.args.append(_ast.Constant(value="root://site//file.root"))
                elif isinstance(n, _ast.Attribute):
                    n.attr = n.attr + "_b"
            return 1

    for depth in (120, 250, 300, 420):
        root = DS()
        s = root
        mid = None
        for i in range(depth):
            s = s.Select("lambda e: e.x") if i % 3 else s.Where("lambda e: e.y > 1")
            if i == depth // 2:
                mid = s
        snaps = [(x, flat_snapshot(x.query_ast)) for x in (root, mid, s)]
        ctx.case(f"directed-deep-chain:{depth}", True)
        ctx.count("directed:deep-chain-executions")
        try:
            s.value()
            ctx.count("directed:deep-chain-executed")
        except RecursionError:
            ctx.count("directed:deep-chain-gave-up-with-RecursionError (not judged)")
        for x, snap in snaps:
            if flat_snapshot(x.query_ast) != snap:
                ctx.violation("stream-changed:deep-chain-executed-on-an-editing-back-end", f"a chain of {depth} stages executed on a back end that edits its AST in place: a stream's query changed (root now {type(root.query_ast).__name__} with {len(getattr(root.query_ast, 'args', []))} arguments)", {"directed": "deep-chain"})
                return


def directed_shared_toplevel(ctx):
    """One ast.Lambda object whose body is a TOP-LEVEL call that type following rewrites (defaults filled), given first to an
    untyped stream, then to typed ones (also through a refused Where): the earlier streams must not change. (The original
    tree returns a new lambda here; only nested positions are edited in place - that is the recorded finding F14.)"""
    from func_adl import EventDataset

    class EvA:
        def met(self, scale: int = 3) -> float: ...

    class EvB:
        def met(self, scale: int = 3, shift: int = 8) -> float: ...

    class DS(EventDataset):
        async def execute_result_async(self, a, title=None):
            return a

    lam = astx.parse_expr("lambda e: e.met()")
    streams = [DS().Select(lam)]
    snaps = [astx.dump_fields(streams[0].query_ast)]
    for make in (lambda: DS(EvA).Select(lam), lambda: DS(EvB).Select(lam), lambda: DS(EvA).Where(lam), lambda: DS().SelectMany(lam)):
        try:
            streams.append(make())
            snaps.append(astx.dump_fields(streams[-1].query_ast))
        except ValueError:
            pass
        ctx.case("directed-shared-toplevel", True)
        ctx.count("directed:shared-toplevel-lambda-steps")
        for i, (s, snap) in enumerate(zip(streams, snaps)):
            if astx.dump_fields(s.query_ast) != snap:
                ctx.violation("shared-lambda-object:top-level-rewrite-leaked", f"one ast.Lambda object (body = a top-level typed call) shared between streams: stream #{i} changed to {astx.unparse(s.query_ast)[:200]}", {"directed": "shared-toplevel"})
                return


def directed_after_refusals(ctx):
    """history: derivations the library refuses INSIDE a nested stage lambda (a nested Where that is no test, a record key that is
    not there, a missing required argument), their queries dropped and collected, and then caller-built lambda objects shared
    between streams that are followed differently. Whatever the refused derivations left behind, the stream built first keeps its
    query (objects made after a collection may take the addresses of the dropped ones)"""
    import gc
    from typing import Iterable

    from func_adl import EventDataset

    class JetA:
        def pt(self) -> float: ...

        def tag(self, wp: int) -> bool: ...

    class JetB:
        def pt(self, scale: float = 2.0) -> float: ...

    class EvA:
        def jets(self) -> Iterable[JetA]: ...

    class EvB:
        def jets(self, cone: float = 0.4) -> Iterable[JetB]: ...

    class DS(EventDataset):
        async def execute_result_async(self, a, title=None):
            return a

    refused = [
        "lambda e: e.jets().Where(lambda j: j.pt())",
        "lambda e: e.jets().Select(lambda j: {'a': j.pt()}).Select(lambda r: r.b)",
        "lambda e: e.jets().Select(lambda j: j.tag())",
        "lambda e: e.jets().Select(lambda j: j.pt()).Where(lambda p: p + 1)",
        "lambda e: e.jets().Where(f=lambda j: j.pt())",
    ]
    shared_texts = ["lambda e: e.jets().Select(lambda j: j.pt() + 1)", "lambda e: e.jets().Where(lambda j: j.pt() > 1).Select(lambda j: j.pt())", "lambda j: j.pt()"]
    n_refused = 0
    for rnd_i in range(40 if ctx.tier == "quick" else 400):
        for t in refused:
            for how in (lambda: DS(EvA).Select(t), lambda: DS(EvA).Select(astx.parse_expr(t)), lambda: DS(EvA).Where(t)):
                try:
                    how()
                except ValueError:
                    n_refused += 1
                except Exception:
                    ctx.count("directed:after-refusals:other-exception")
        if rnd_i % 2:
            gc.collect()
        lams = [astx.parse_expr(shared_texts[(rnd_i + k) % 2]) for k in range(12)]
        for lam in lams:
            s1 = DS(EvA).Select(lam)
            before = astx.dump_fields(s1.query_ast)
            kept = ast.dump(lam)
            DS(EvB).Select(lam)
            ctx.case(None)
            ctx.count("directed:shared-lambda-objects-after-refused-nested-derivations")
            if astx.dump_fields(s1.query_ast) != before or ast.dump(lam) != kept:
                ctx.violation("shared-user-lambda-object-edited-in-place:after-refused-nested-derivations", f"after {n_refused} refused nested derivations (their queries dropped): one ast.Lambda object supplied to two typed streams, deriving the second changed the first (or the caller's object): {astx.unparse(s1.query_ast)[:160]}", {"directed": "after-refusals"})
                return
    ctx.case("directed-after-refusals", True)
    ctx.count("directed:refused-nested-derivations", n_refused)


def directed_during_nested_stage(ctx):
    """history that overlaps: WHILE one derivation is inside a nested stage lambda (in a method callback of a model class, which may
    take its time), a caller-built lambda object is given to two streams that are followed differently - by the callback itself
    (re-entrant, one thread), and by a second thread that runs exactly in that window (the two threads hand over with events, no
    sleeping). The stream built first keeps its query"""
    import threading
    from typing import Iterable

    from func_adl import EventDataset, func_adl_callback

    class QA:
        def q(self) -> float: ...

    class QB:
        def q(self, scale: float = 2.0) -> float: ...

    class EvA:
        def things(self) -> Iterable[QA]: ...

    class EvB:
        def things(self, cone: float = 0.4) -> Iterable[QB]: ...

    class DS(EventDataset):
        async def execute_result_async(self, a, title=None):
            return a

    found = []

    def share_one_lambda(where):
        for text in ("lambda e: e.things().Select(lambda t: t.q() + 1)", "lambda e: e.things().Where(lambda t: t.q() > 1).Count()"):
            lam = astx.parse_expr(text)
            s1 = DS(EvA).Select(lam)
            before = astx.dump_fields(s1.query_ast)
            kept = ast.dump(lam)
            DS(EvB).Select(lam)
            ctx.count("directed:shared-lambda-objects-while-another-derivation-is-in-a-nested-stage")
            if astx.dump_fields(s1.query_ast) != before or ast.dump(lam) != kept:
                found.append(f"{where}: one ast.Lambda object supplied to two typed streams while another derivation was inside a nested stage: deriving the second changed the first (or the caller's object): {astx.unparse(s1.query_ast)[:160]}")

    mode = {"how": None}
    inside, done = threading.Event(), threading.Event()

    def cb(s, a):
        if mode["how"] == "re-entrant":
            share_one_lambda("from the callback itself")
        elif mode["how"] == "second-thread":
            inside.set()
            if not done.wait(20):
                ctx.count("inconclusive:second-thread-did-not-finish")
        return s, a

    class Jet:
        @func_adl_callback(cb)
        def pt(self) -> float: ...

    class Ev:
        def jets(self) -> Iterable[Jet]: ...

    outer = ["lambda e: e.jets().Select(lambda j: j.pt())", "lambda e: e.jets().Select(lambda j: j.pt()).Where(lambda p: p > 1).Count()", "lambda e: e.jets().Where(f=lambda j: j.pt() > 2)"]
    for text in outer:
        mode["how"] = "re-entrant"
        DS(Ev).Select(text)
        mode["how"] = "second-thread"
        inside.clear()
        done.clear()

        def second():
            if not inside.wait(20):
                ctx.count("inconclusive:callback-never-entered")
                return
            try:
                share_one_lambda("from a second thread")
            finally:
                done.set()

        th = threading.Thread(target=second)
        th.start()
        DS(Ev).Select(text)
        done.set()
        th.join(30)
        mode["how"] = None
        ctx.case("directed-during-nested-stage:" + text, True)
    for f in found[:1]:
        ctx.violation("shared-user-lambda-object-edited-in-place:during-another-nested-stage", f, {"directed": "during-nested-stage"})


def shard_main(ctx):
    if ctx.shard == 1 % ctx.nshards:
        from ..core import repo_tests_under_monitors

        repo_tests_under_monitors(ctx, "C11")
    if ctx.shard == 0:
        directed(ctx)
        directed_shared_lambda(ctx)
        directed_shared_toplevel(ctx)
        directed_deep_chain(ctx)
    if ctx.shard == 2 % ctx.nshards:
        directed_after_refusals(ctx)
    if ctx.shard == 4 % ctx.nshards:
        directed_during_nested_stage(ctx)
    for i in range(N_CASES[ctx.tier]):
        if ctx.out_of_time():
            ctx.count("stopped-by-time-budget")
            break
        hseed = (ctx.seed * 1000 + ctx.shard) * 100003 + i
        n = random.Random(hseed).randint(20, 120)
        before = len(ctx.violations)
        hist = run_history(ctx, hseed, n)
        for v in ctx.violations[before:]:
            v["witness"]["hist_seed"] = hseed
            v["witness"]["nsteps"] = n


def replay(ctx, witness):
    if witness.get("directed") == "during-nested-stage":
        directed_during_nested_stage(ctx)
    elif witness.get("directed") == "after-refusals":
        directed_after_refusals(ctx)
    elif witness.get("directed") == "deep-chain":
        directed_deep_chain(ctx)
    elif witness.get("directed") == "shared-toplevel":
        directed_shared_toplevel(ctx)
    elif witness.get("directed") == "shared-lambda":
        directed_shared_lambda(ctx)
    elif "hist_seed" in witness:
        run_history(ctx, witness["hist_seed"], witness["nsteps"])
    else:
        directed(ctx)
