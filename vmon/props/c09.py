"""C09 - callbacks fire at every matching call site; their metadata reaches the stream (DESIGN.md section 4, C09)."""
import ast
import copy
import itertools
import random
from typing import Iterable

from .. import astx, modgen
from ..core import REPO

N_CASES = {"quick": 1500, "thorough": 250000}
TIME_BUDGET = {"quick": 60, "thorough": 270}
META = {
    "rule": "generated models Event/Jet/Trk (Jet and Trk inherit methods from a Particle base class, which may carry callbacks of its own) with harness-owned callbacks placed at random on classes, methods, both, function processors and "
    "parameterized properties, each callback optionally rewriting the call site (rename method / append argument); generated lambdas "
    "with 1-6 marked call sites (unique integer marker per site) at lambda depth 0-3 inside Select/Where/SelectMany of the stream and of "
    "typed collections, several sites per lambda, sites in both branches of a conditional, parameter tuples of ints and strs; oracle "
    "from the generator's placement table: every site with a callback was invoked (class-level before method-level), no invocation "
    "for a marker that is not in the query or has no such callback, for r = s.Op(lam) every site's MetaData token is found on the "
    "args[0] chain of r between the operator and s.query_ast, the emitted lambda holds the callback's rewrite at that site, "
    "parameterized sites lost their [param] subscript and the callback received literal-equal parameters; distinct by (placement, "
    "lambda text); non-trivial = a site with a callback at depth >= 1 or >= 2 callback-bearing sites",
    "assumptions": [
        "multiplicities of invocations are reported, not judged (the property does not promise exactly-once)",
        "class-level callbacks are not judged at parameterized-property call sites",
        "string / ast supply (parameters by value through captured names: C04's mechanism)",
    ],
    "floor_evaluations": {"quick": 2500, "thorough": 50000},
    "floor_nontrivial": {"quick": 800, "thorough": 10000},
    "anchors": ["func_adl/type_based_replacement.py", "func_adl/util_ast.py", "func_adl/object_stream.py"],
}

LOG = []
_tok = itertools.count(1)


def marker_of(call):
    for n in astx.walk_nodes(ast.Call(func=ast.Name(id="_", ctx=ast.Load()), args=list(call.args), keywords=list(call.keywords))):
        if isinstance(n, ast.Constant) and type(n.value) is int and n.value >= 1000:
            return n.value
    return None


def top_marker(call):
    """marker among the call's own direct arguments"""
    for a in list(call.args) + [k.value for k in call.keywords]:
        if isinstance(a, ast.Constant) and type(a.value) is int and a.value >= 1000:
            return a.value
    return None


def make_cb(cbid, kind, rewrite, parameterized=False):
    def cb(s, a, *params):
        tok = next(_tok)
        LOG.append({"cb": cbid, "kind": kind, "marker": top_marker(a), "params": params, "tok": tok, "t": len(LOG), "node": astx.unparse(a)})
        s2 = s.MetaData({"tok": tok, "cb": cbid})
        new_a = a
        if rewrite == "rename" and isinstance(a.func, ast.Attribute):
            new_a = copy.copy(a)
            new_a.func = ast.Attribute(value=a.func.value, attr=a.func.attr + "_rw", ctx=ast.Load())
        elif rewrite == "addarg":
            new_a = copy.copy(a)
            new_a.args = list(a.args) + [ast.Constant(value=777)]
        if parameterized:
            return s2, new_a, (float if parameterized is True else parameterized)
        return s2, new_a

    if sum(map(ord, str(cbid))) % 5 == 0:
        # a callback that is a callable OBJECT python counts as false (a recorder that is a list of what it has seen, still empty)
        class _Recorder(list):
            def __call__(self, s, a, *params):
                return cb(s, a, *params)

        return _Recorder()
    return cb


class Placement:
    """random placement of callbacks over a fixed class skeleton"""

    def __init__(self, rnd, uid):
        from func_adl import func_adl_callable, func_adl_callback, func_adl_parameterized_call

        self.cls_cb = {}  # class name -> (cbid, rewrite)
        self.meth_cb = {}  # (cls, method) -> (cbid, rewrite)
        self.func_cb = {}
        self.prop_cb = {}
        self.uid = uid
        R = lambda: rnd.choice([None, None, "rename", "addarg"])  # noqa

        self.shared_cb = {}  # class name -> the ONE function object registered on the class and on some of its methods

        def cls_deco(name):
            if rnd.random() < 0.4:
                rw = R()
                if rnd.random() < 0.3:
                    rw = None
                    self.cls_cb[name] = (f"class:{name}", rw)
                    self.shared_cb[name] = make_cb(f"class:{name}", "class", rw)
                    return func_adl_callback(self.shared_cb[name])
                self.cls_cb[name] = (f"class:{name}", rw)
                return func_adl_callback(make_cb(f"class:{name}", "class", rw))
            return lambda c: c

        def m_deco(cls, m):
            if cls in self.shared_cb and rnd.random() < 0.5:
                # the very same function object is registered for the method too: two registrations, two invocations per site
                self.meth_cb[(cls, m)] = (f"class:{cls}", None)
                return func_adl_callback(self.shared_cb[cls])
            if rnd.random() < 0.4:
                rw = R()
                self.meth_cb[(cls, m)] = (f"method:{cls}.{m}", rw)
                return func_adl_callback(make_cb(f"method:{cls}.{m}", "method", rw))
            return lambda f: f

        def p_deco(cls, p, rtype=True):
            rw = R()
            self.prop_cb[(cls, p)] = (f"prop:{cls}.{p}", rw)
            return func_adl_parameterized_call(make_cb(f"prop:{cls}.{p}", "prop", rw, parameterized=rtype))

        @cls_deco("Particle")
        class Particle:
            @m_deco("Particle", "mass")
            def mass(self, tag: int = 0) -> float: ...
            @m_deco("Particle", "phi")
            def phi(self, tag: int = 0) -> float: ...
            def mass_rw(self, tag: int = 0, extra: int = 0) -> float: ...
            def phi_rw(self, tag: int = 0, extra: int = 0) -> float: ...

        @cls_deco("Trk")
        class Trk(Particle):
            @m_deco("Trk", "pt")
            def pt(self, tag: int = 0) -> float: ...
            @m_deco("Trk", "q")
            def q(self, tag: int = 0) -> int: ...
            def pt_rw(self, tag: int = 0, extra: int = 0) -> float: ...
            def q_rw(self, tag: int = 0, extra: int = 0) -> int: ...

        @cls_deco("Jet")
        class Jet(Particle):
            @m_deco("Jet", "pt")
            def pt(self, tag: int = 0) -> float: ...
            @m_deco("Jet", "eta")
            def eta(self, tag: int = 0) -> float: ...
            @m_deco("Jet", "trks")
            def trks(self, tag: int = 0) -> Iterable[Trk]: ...

            @p_deco("Jet", "getAttr")
            @property
            def getAttr(self): ...

            # a parameterized property whose callback says the result is a Trk (a class with callbacks and defaults of its own)
            @p_deco("Jet", "link", Trk)
            @property
            def link(self): ...

        @cls_deco("Event")
        class Event:
            @m_deco("Event", "jets")
            def jets(self, tag: int = 0) -> Iterable[Jet]: ...
            @m_deco("Event", "met")
            def met(self, tag: int = 0) -> float: ...
            @m_deco("Event", "trks")
            def trks(self, tag: int = 0) -> Iterable[Trk]: ...

            @p_deco("Event", "info")
            @property
            def info(self): ...

            @p_deco("Event", "lead", Jet)
            @property
            def lead(self): ...

        self.Event, self.Jet, self.Trk = Event, Jet, Trk
        self.fname = f"c09f{uid}"
        rw = rnd.choice([None, "addarg"])
        has_proc = rnd.random() < 0.6
        if has_proc:
            self.func_cb[self.fname] = (f"func:{self.fname}", rw)

        def f(x: float, tag: int = 0) -> float: ...

        f.__name__ = self.fname
        func_adl_callable(make_cb(f"func:{self.fname}", "func", rw) if has_proc else None)(f)
        self.METHODS = {"Event": ["met"], "Jet": ["pt", "eta", "mass", "phi"], "Trk": ["pt", "q", "mass", "phi"]}
        self.DEFINED_ON = {("Jet", "mass"): "Particle", ("Jet", "phi"): "Particle", ("Trk", "mass"): "Particle", ("Trk", "phi"): "Particle"}
        self.COLLS = {"Event": [("jets", "Jet"), ("trks", "Trk")], "Jet": [("trks", "Trk")], "Trk": []}
        self.PROPS = {"Event": ["info"], "Jet": ["getAttr"], "Trk": []}
        self.TYPED_PROPS = {"Event": [("lead", "Jet")], "Jet": [("link", "Trk")], "Trk": []}

    def cleanup(self):
        from func_adl import type_based_replacement as tbr

        tbr._global_functions.pop(self.fname, None)
        for k in list(tbr._g_parameterized_callbacks):
            tbr._g_parameterized_callbacks.pop(k, None)


PARAMS = ["5", "'a'", "'float', 7", "1, 2, 3", "'x.y'"]


class SiteGen:
    def __init__(self, rnd, pl):
        self.r, self.pl = rnd, pl
        self.m = itertools.count(1000 + rnd.randint(0, 50) * 10)
        self.sites = {}  # marker -> dict(kind, cls, name, depth, expected cbs [(cbid, kind, rewrite)], params)
        self.k = 0
        self.inherited = False

    def site(self, cls, name, depth, kind="method", params=None):
        mk = next(self.m)
        cbs = []
        if kind == "method":
            # class-level: the callback registered on the class of the OBJECT (a subclass without its own callback
            # inherits its base's); method-level: the callback on the method, wherever it is defined
            defined_on = self.pl.DEFINED_ON.get((cls, name), cls)
            if cls in self.pl.cls_cb:
                cbs.append(self.pl.cls_cb[cls] + ("class",))
            elif cls in ("Jet", "Trk") and "Particle" in self.pl.cls_cb:
                cbs.append(self.pl.cls_cb["Particle"] + ("class",))
            if (defined_on, name) in self.pl.meth_cb:
                cbs.append(self.pl.meth_cb[(defined_on, name)] + ("method",))
            if defined_on != cls:
                self.inherited = True
        elif kind == "func":
            if name in self.pl.func_cb:
                cbs.append(self.pl.func_cb[name] + ("func",))
        else:
            cbs.append(self.pl.prop_cb[(cls, name)] + ("prop",))
        self.sites[mk] = {"kind": kind, "cls": cls, "name": name, "depth": depth, "cbs": cbs, "params": params}
        return mk

    def call(self, recv, cls, name, depth):
        mk = self.site(cls, name, depth)
        return f"{recv}.{name}({mk})" if self.r.random() < 0.6 else f"{recv}.{name}(tag={mk})"

    def scalar(self, v, cls, depth):
        r = self.r
        k = r.random()
        if k < 0.4 or depth >= 3:
            return self.call(v, cls, r.choice(self.pl.METHODS[cls]), depth)
        if k < 0.5 and self.pl.PROPS[cls]:
            p = r.choice(self.pl.PROPS[cls])
            params = r.choice(PARAMS)
            mk = self.site(cls, p, depth, kind="prop", params=params)
            return f"{v}.{p}[{params}]({mk})"
        if k < 0.56 and self.pl.TYPED_PROPS[cls]:
            # typed result of a parameterized property, used at once as the receiver of a callback-bearing method
            p, rcls = r.choice(self.pl.TYPED_PROPS[cls])
            params = r.choice(PARAMS)
            mk = self.site(cls, p, depth, kind="prop", params=params)
            self.typed_prop_chains = getattr(self, "typed_prop_chains", 0) + 1
            return self.call(f"{v}.{p}[{params}]({mk})", rcls, r.choice(self.pl.METHODS[rcls]), depth)
        if k < 0.6:
            mk = self.site("func", self.pl.fname, depth, kind="func")
            return f"{self.pl.fname}({self.scalar(v, cls, depth)}, {mk})"
        if k < 0.7:
            return f"({self.scalar(v, cls, depth)} + {self.scalar(v, cls, depth)})"
        if k < 0.78:
            return f"({self.scalar(v, cls, depth)} if {self.scalar(v, cls, depth)} > 1 else {self.scalar(v, cls, depth)})"
        if not self.pl.COLLS[cls]:
            return self.call(v, cls, r.choice(self.pl.METHODS[cls]), depth)
        cm, elem = r.choice(self.pl.COLLS[cls])
        coll = self.call(v, cls, cm, depth)
        self.k += 1
        w = r.choice([f"w{self.k}", v])
        kk = r.random()
        if kk < 0.35:
            return f"{coll}.Where(lambda {w}: {self.scalar(w, elem, depth + 1)} > 1).Count()"
        if kk < 0.6:
            return f"{coll}.Select(lambda {w}: {self.scalar(w, elem, depth + 1)}).Count()"
        if kk < 0.8:
            return self.call(f"{coll}{r.choice(['.First()', '.First()', '[0]', '[-1]', '[2 - 1]'])}", elem, r.choice(self.pl.METHODS[elem]), depth)
        return f"{coll}.Select(lambda {w}: {self.scalar(w, elem, depth + 1)}).First()"

    def seq(self, v, cls, depth):
        cm, elem = self.r.choice(self.pl.COLLS[cls])
        coll = self.call(v, cls, cm, depth)
        if self.r.random() < 0.6:
            self.k += 1
            w = f"w{self.k}"
            return f"{coll}.Select(lambda {w}: {self.scalar(w, elem, depth + 1)})"
        return coll


def chain_tokens(r_ast, s_ast):
    """MetaData dictionaries on the args[0] chain of r_ast between the operator and s_ast"""
    out = []
    node = r_ast.args[0]
    steps = 0
    while node is not s_ast and steps < 10000:
        steps += 1
        if isinstance(node, ast.Call) and isinstance(node.func, ast.Name) and node.func.id == "MetaData":
            try:
                out.append(ast.literal_eval(node.args[1]))
            except Exception:
                out.append(None)
            node = node.args[0]
        else:
            return out, False
    return out, node is s_ast


def run_case(ctx, rnd, pl, ds):
    g = SiteGen(rnd, pl)
    v = rnd.choice(["e", "evt"])
    op = rnd.choice(["Select", "Select", "Where", "SelectMany"])
    if op == "Where":
        body = f"{g.scalar(v, 'Event', 0)} > 1"
    elif op == "SelectMany":
        body = g.seq(v, "Event", 0)
    else:
        body = g.scalar(v, "Event", 0) if rnd.random() < 0.7 else g.seq(v, "Event", 0)
    text = f"lambda {v}: {body}"
    key = f"{sorted(pl.cls_cb)}{sorted(pl.meth_cb)}{sorted(pl.func_cb)}|{op}|{text}"
    bearing = [m for m, s in g.sites.items() if s["cbs"]]
    nt = any(g.sites[m]["depth"] >= 1 for m in bearing) or len(bearing) >= 2
    if g.inherited:
        ctx.count("cases-with-inherited-method-site")
    witness = {"op": op, "lambda": text, "class_cb": {k: v_[1] for k, v_ in pl.cls_cb.items()}, "method_cb": {f"{k[0]}.{k[1]}": v_[1] for k, v_ in pl.meth_cb.items()},
               "func_cb": {k: v_[1] for k, v_ in pl.func_cb.items()}, "prop_cb": {f"{k[0]}.{k[1]}": v_[1] for k, v_ in pl.prop_cb.items()}}
    del LOG[:]
    try:
        r = getattr(ds, op)(text if rnd.random() < 0.6 else astx.parse_expr(text))
    except Exception as e:
        ctx.case(key, nt)
        ctx.violation(f"exc:{type(e).__name__}@{astx.repo_frame(e, REPO)}", f"{op}({text}): {type(e).__name__}: {str(e)[:200]}", witness)
        return
    ctx.case(key, nt)
    ctx.count("invocations", len(LOG))
    ctx.count("sites", len(g.sites))
    ctx.count("sites-with-callback", len(bearing))
    log = list(LOG)
    # (1) every bearing site invoked; class before method
    by_site = {}
    for ev in log:
        by_site.setdefault(ev["marker"], []).append(ev)
    for mk in bearing:
        site = g.sites[mk]
        evs = by_site.get(mk, [])
        for cbid, rw, kind in site["cbs"]:
            if not any(e["cb"] == cbid for e in evs):
                ctx.violation(f"callback-not-invoked:{kind}:depth{min(site['depth'], 2)}", f"{op}({text}): site {mk} ({site['cls']}.{site['name']}, depth {site['depth']}) has callback {cbid} which never fired; log={[(e['cb'], e['marker']) for e in log][:12]}", witness)
                return
        kinds = [c[2] for c in site["cbs"]]
        ids = [c[0] for c in site["cbs"]]
        if len(ids) == 2 and ids[0] == ids[1]:
            # one function registered on the class and on the method: each registration fires
            ctx.count("sites-with-one-function-registered-twice")
            if sum(1 for e in evs if e["cb"] == ids[0]) < 2:
                ctx.violation("callback-registered-on-class-and-method-fired-once", f"{op}({text}): site {mk} ({site['cls']}.{site['name']}): the same function is registered on the class and on the method, it fired {sum(1 for e in evs if e['cb'] == ids[0])}x", witness)
                return
        elif "class" in kinds and "method" in kinds:
            cid = [c[0] for c in site["cbs"] if c[2] == "class"][0]
            mid = [c[0] for c in site["cbs"] if c[2] == "method"][0]
            fc = min(e["t"] for e in evs if e["cb"] == cid)
            fm = min(e["t"] for e in evs if e["cb"] == mid)
            if fc > fm:
                ctx.violation("method-callback-before-class-callback", f"{op}({text}): site {mk}: method-level callback fired before the class-level one", witness)
                return
            ctx.count("class-before-method-checked")
        ctx.count(f"multiplicity:{min(len(evs) // max(1, len(site['cbs'])), 3)}x")
    # (2) no spurious firing
    for ev in log:
        site = g.sites.get(ev["marker"])
        if site is None:
            ctx.violation("spurious-callback:unknown-site", f"{op}({text}): callback {ev['cb']} fired for a call that is not a generated site: {ev['node']}", witness)
            return
        if ev["cb"] not in [c[0] for c in site["cbs"]]:
            if site["kind"] == "prop" and ev["kind"] == "class":
                ctx.count("not-judged:class-callback-at-parameterized-site")
                continue
            ctx.violation(f"spurious-callback:{ev['kind']}", f"{op}({text}): callback {ev['cb']} fired at site {ev['marker']} ({site['cls']}.{site['name']}) where it is not registered", witness)
            return
        if site["kind"] == "prop":
            exp = ast.literal_eval(site["params"]) if True else None
            got = ev["params"][0] if ev["params"] else None
            if got != exp or type(got) is not type(exp):
                ctx.violation("parameters-not-by-value", f"{op}({text}): property callback at {ev['marker']} received {ev['params']!r}, expected {exp!r}", witness)
                return
            ctx.count("param-values-checked")
    # (3) metadata on the source chain, upstream of the operator
    dicts, reached = chain_tokens(r.query_ast, ds.query_ast)
    if not reached:
        ctx.violation("source-chain-broken", f"{op}({text}): args[0] chain of the result does not lead to the parent stream through MetaData wrappers only: {astx.unparse(r.query_ast.args[0])[:200]}", witness)
        return
    toks = {d.get("tok") for d in dicts if isinstance(d, dict)}
    for mk in bearing:
        site = g.sites[mk]
        for cbid, rw, kind in site["cbs"]:
            stoks = {e["tok"] for e in by_site.get(mk, []) if e["cb"] == cbid}
            if not (stoks & toks):
                ctx.violation(f"metadata-lost:{kind}:depth{min(site['depth'], 2)}", f"{op}({text}): MetaData of callback {cbid} at site {mk} (depth {site['depth']}) is not on the source chain; chain tokens {sorted(t for t in toks if t)} site tokens {sorted(stoks)}", witness)
                return
    ctx.count("metadata-chain-checked")
    # (4) rewrites present in the emitted lambda
    out = r.query_ast.args[1]
    calls_by_marker = {}
    for n in astx.walk_nodes(out):
        if isinstance(n, ast.Call):
            mk = top_marker(n)
            if mk is not None:
                calls_by_marker.setdefault(mk, []).append(n)
    for mk in bearing:
        site = g.sites[mk]
        cs = calls_by_marker.get(mk, [])
        if not cs:
            ctx.violation("site-vanished", f"{op}({text}): no call with marker {mk} in the emitted lambda {astx.unparse(out)[:200]}", witness)
            return
        c = cs[0]
        for cbid, rw, kind in site["cbs"]:
            if rw == "rename" and kind != "func":
                if not (isinstance(c.func, ast.Attribute) and c.func.attr.endswith("_rw")):
                    ctx.violation(f"rewrite-lost:rename:{kind}:depth{min(site['depth'], 2)}", f"{op}({text}): callback {cbid} renamed the method at site {mk} (depth {site['depth']}) but the emitted lambda has {astx.unparse(c)[:120]}", witness)
                    return
            if rw == "addarg":
                if not any(isinstance(a, ast.Constant) and a.value == 777 for a in c.args):
                    ctx.violation(f"rewrite-lost:addarg:{kind}:depth{min(site['depth'], 2)}", f"{op}({text}): callback {cbid} appended an argument at site {mk} (depth {site['depth']}) but the emitted lambda has {astx.unparse(c)[:120]}", witness)
                    return
        if site["kind"] == "prop" and isinstance(c.func, ast.Subscript):
            ctx.violation("param-subscript-not-removed", f"{op}({text}): emitted {astx.unparse(c)[:120]}", witness)
            return
    ctx.count("rewrites-checked")
    if len(ctx.samples) < 4 and nt and rnd.random() < 0.02:
        ctx.sample({"op": op, "lambda": text, "emitted": astx.unparse(r.query_ast)[:400], "invocations": [(e["cb"], e["marker"]) for e in log][:10]})


DIRECTED_SRC = modgen.DS_HEADER + '''
import ast
from dataclasses import dataclass
from typing import Iterable, TypeVar
from func_adl import func_adl_callable, func_adl_callback, func_adl_parameterized_call
LOG = []
T = TypeVar("T")
def cb_prop(s, a, param):
    LOG.append(("prop", param, ast.unparse(a)))
    return s.MetaData({"cb": "prop"}), a, float
def cb_m(s, a):
    LOG.append(("method", ast.unparse(a)))
    return s.MetaData({"cb": "method"}), a
import functools
def _traced(f):
    @functools.wraps(f)
    def w(*a, **k): return f(*a, **k)
    return w
import pathlib
def cb_m_path(s, a):
    # metadata that holds something that is no python literal
    LOG.append(("method", ast.unparse(a)))
    return s.MetaData({"cb": "method", "script": pathlib.PurePosixPath("a/b.sh"), "runs": range(2)}), a
def proc(s, a):
    LOG.append(("func", ast.unparse(a)))
    return s.MetaData({"cb": "func"}), a
# a registered function that has a python body of its own (one line, like a helper)
@func_adl_callable(proc)
def scale_impl_c09(x: float, by: float = 2.0) -> float: return x * by
# a model class that is a dataclass, with a parameterized property
@dataclass
class DataJet:
    n: int
    @func_adl_parameterized_call(cb_prop)
    @property
    def attr(self): ...
# a second parameterized property, on another class, built on the SAME getter function with another callback
def cb_prop2(s, a, param):
    LOG.append(("prop2", param, ast.unparse(a)))
    return s.MetaData({"cb": "prop2"}), a, float
class OtherJet:
    attr = func_adl_parameterized_call(cb_prop2)(property(DataJet.__dict__["attr"].fget))
class Jet:
    @func_adl_callback(cb_m)
    def pt(self) -> float: ...
    @func_adl_callback(cb_m_path)
    def eta(self) -> float: ...
    # the callback registered on a wrapper (a cache, any functools.wraps decorator) around the method
    @func_adl_callback(cb_m)
    @functools.lru_cache(maxsize=None)
    def mass(self, scale: float = 1.0) -> float: ...
    @func_adl_callback(cb_m)
    @_traced
    def phi(self) -> float: ...
# a model collection declaring an operator of its own, with its own parameter name
class JetColl(Iterable[T]):
    def Where(self, test) -> "JetColl[T]": ...
# a registered collection class that has the stream interface by delegation (it does not derive from ObjectStream)
from typing import Any, Generic
from func_adl import ObjectStream, register_func_adl_os_collection
@register_func_adl_os_collection
class DuckColl(Generic[T]):
    def __init__(self, a, item_type=Any):
        self._stream = ObjectStream(a, item_type)
    @property
    def query_ast(self): return self._stream.query_ast
    @property
    def item_type(self): return self._stream.item_type
    def Select(self, f, **kwargs):
        r = self._stream.Select(f, **kwargs)
        return DuckColl(r.query_ast, r.item_type)
    def Where(self, f, **kwargs):
        r = self._stream.Where(f, **kwargs)
        return DuckColl(r.query_ast, r.item_type)
def cb_evt_m(s, a):
    LOG.append(("evtmethod", ast.unparse(a)))
    return s.MetaData({"cb": "evtmethod"}), a
def cb_rewrites(s, a):
    # a callback that REWRITES its call site: one more argument (on a copy: the node it was handed stays as it was)
    LOG.append(("rw", ast.unparse(a)))
    new_a = copy.copy(a)
    new_a.args = list(a.args) + [ast.Constant(value="calib")]
    return s.MetaData({"cb": "rw"}), new_a
import copy
class Evt:
    def met(self) -> float: ...
    @func_adl_callback(cb_evt_m)
    def rho(self) -> float: ...
    @func_adl_callback(cb_rewrites)
    def cjets(self, name: str = "d") -> JetColl[Jet]: ...
    def djet(self) -> DataJet: ...
    def jets(self) -> JetColl[Jet]: ...
    def duck_jets(self) -> DuckColl[Jet]: ...
    def ojet(self) -> OtherJet: ...
def q_prop(ds): return ds.Select("lambda e: e.djet().attr['a'](1)")
def q_func(ds): return ds.Select(lambda e: scale_impl_c09(e.met()))
def q_func_nested(ds): return ds.Select(lambda e: e.jets().Select(lambda j: scale_impl_c09(j.pt(), by=3.0)))
# the registered function known to the query under another name
uno_c09 = scale_impl_c09
def q_func_alias(ds): return ds.Select(lambda e: uno_c09(e.met()))
def q_func_alias_nested(ds):
    f = scale_impl_c09
    return ds.Select(lambda e: e.jets().Select(lambda j: f(j.pt())))
# handed on as a value it is a helper like any other
@func_adl_callable(proc)
def one_c09(x: float) -> float: return x + 1
def q_func_as_value(ds): return ds.Select(lambda e: e.jets().Select(lambda j: j.pt()).Select(one_c09))
# python's own types as parameters of a parameterized property
def q_prop_types(ds): return ds.Select("lambda e: e.djet().attr[float, 'n'](1)")
# non-literal metadata coming out of a nested lambda
def q_md_nested(ds): return ds.Select("lambda e: e.jets().Select(lambda j: j.eta())")
def q_md_nested2(ds): return ds.Select("lambda e: e.jets().Select(lambda j: e.jets().Where(lambda k: k.eta() > j.eta()).Count())")
def q_wrapped_method(ds): return ds.Select("lambda e: e.jets().Select(lambda j: j.mass())")
def q_wrapped_method2(ds): return ds.Select("lambda e: e.jets().Where(lambda j: j.phi() > 1).Count()")
def q_own_kw(ds): return ds.Select("lambda e: e.jets().Where(test=lambda j: j.pt() > 30).Count()")
# a call site in the DEFAULT value of a parameter of a nested / stage lambda (evaluated where the lambda is written)
def q_default_nested(ds): return ds.Select("lambda e: e.jets().Where(lambda j, *, cut=scale_impl_c09(e.met()): j.pt() > cut).Count()")
def q_duck_collection(ds): return ds.Select("lambda e: e.duck_jets().Select(lambda j: j.pt())")
def q_duck_collection_where(ds): return ds.Select("lambda e: e.duck_jets().Where(lambda j: j.eta() > 1).Select(lambda j: j.pt())")
def q_prop_other(ds): return ds.Select("lambda e: e.ojet().attr['b'](2)")
def q_default_stage(ds): return ds.Select("lambda e, *, k=scale_impl_c09(1.5, by=4.0): e.met() * k")
# ... the default is evaluated where the nested lambda is WRITTEN: its own parameter (same name as the enclosing one) means nothing there
def q_default_same_name(ds): return ds.Select("lambda j: j.jets().Select(lambda j, *, s=j.rho(): j.pt() * s)")
# a helper / a called lambda that uses its parameter TWICE, given an argument with a rewriting call site below its top node: two
# call sites in the query, each handed to the callback as written, each carrying the rewrite once
def twice_c09(j): return j.pt() + j.pt()
def q_twice_helper(ds): return ds.Select(lambda e: twice_c09(e.cjets().First()))
def q_twice_called_lambda(ds): return ds.Select(lambda e: (lambda j: j.pt() + j.pt())(e.cjets().First()))
def q_twice_nested(ds): return ds.Select(lambda e: e.jets().Select(lambda k: twice_c09(e.cjets().First())))
# a VARIABLE of the query (a lambda parameter) that carries the name of a registered function and is called: no call site of that function
def q_param_named_like_registered(ds): return ds.Select("lambda scale_impl_c09: scale_impl_c09(1.5)")
def q_param_named_like_registered_nested(ds): return ds.Select("lambda e: e.jets().Select(lambda scale_impl_c09: scale_impl_c09(1.5))")
def q_param_named_like_registered_py(ds): return ds.Select(lambda one_c09: one_c09(1.5))
'''


def directed(ctx):
    """three placements the random skeleton does not have: a parameterized property on a DATACLASS model class, a registered
    function with a python body used from a python lambda, a model collection's own operator written with its own keyword"""
    m = modgen.load(DIRECTED_SRC, "c09d")
    want = {
        "q_prop": ([("prop",)], ["prop"], "attr(1)", "['a']"),
        "q_func": ([("func",)], ["func"], "scale_impl_c09(e.met(), 2.0)", None),
        "q_func_nested": ([("method",), ("func",)], ["method", "func"], "scale_impl_c09(j.pt(), 3.0)", None),
        "q_own_kw": ([("method",)], ["method"], "j.pt() > 30", None),
        "q_func_alias": ([("func",)], ["func"], "scale_impl_c09(e.met(), 2.0)", "uno_c09"),
        "q_func_alias_nested": ([("method",), ("func",)], ["method", "func"], "scale_impl_c09(j.pt(), 2.0)", "f(j"),
        "q_func_as_value": ([("method",)], ["method"], "j.pt()", None),
        "q_prop_types": ([("prop",)], ["prop"], "attr(1)", "[float"),
        "q_md_nested": ([("method",)], ["method"], "j.eta()", None),
        "q_wrapped_method": ([("method",)], ["method"], "j.mass(1.0)", None),
        "q_wrapped_method2": ([("method",)], ["method"], "j.phi() > 1", None),
        "q_md_nested2": ([("method",), ("method",)], ["method", "method"], "k.eta() > j.eta()", None),
        "q_default_nested": ([("method",), ("func",)], ["method", "func"], "cut=scale_impl_c09(e.met(), 2.0)", None),
        "q_default_stage": ([("func",)], ["func"], "k=scale_impl_c09(1.5, 4.0)", None),
        "q_default_same_name": ([("method",), ("evtmethod",)], ["method", "evtmethod"], "s=j.rho()", None),
        "q_prop_other": ([("prop2",)], ["prop2"], "attr(2)", "['b']"),
        "q_twice_helper": ([("rw",), ("rw",), ("method",), ("method",)], ["rw", "rw", "method", "method"], "e.cjets('d', 'calib').First().pt() + e.cjets('d', 'calib').First().pt()", "'calib', 'calib'"),
        "q_twice_called_lambda": ([("rw",), ("rw",), ("method",), ("method",)], ["rw", "rw", "method", "method"], "e.cjets('d', 'calib').First().pt() + e.cjets('d', 'calib').First().pt()", "'calib', 'calib'"),
        "q_twice_nested": ([("rw",), ("rw",), ("method",), ("method",)], ["rw", "rw", "method", "method"], "e.cjets('d', 'calib').First().pt() + e.cjets('d', 'calib').First().pt()", "'calib', 'calib'"),
        "q_param_named_like_registered": ([], [], "scale_impl_c09(1.5)", "2.0"),
        "q_param_named_like_registered_nested": ([], [], "scale_impl_c09(1.5))", "2.0"),
        "q_param_named_like_registered_py": ([], [], "one_c09(1.5)", "MetaData"),
        "q_duck_collection": ([("method",)], ["method"], "j.pt()", None),
        "q_duck_collection_where": ([("method",), ("method",)], ["method", "method"], "j.eta() > 1", None),
    }
    for name, (calls, mds, must_have, must_not_have) in want.items():
        ctx.case(f"directed:{name}", True)
        del m.LOG[:]
        w = {"directed": name}
        try:
            s = getattr(m, name)(m.DS(m.Evt))
        except Exception as e:
            ctx.violation(f"directed:exc:{type(e).__name__}", f"{name}: {type(e).__name__}: {str(e)[:200]}", w)
            continue
        if name == "q_prop_types" and [c[1] for c in m.LOG] != [(float, "n")]:
            ctx.violation("directed:parameters-not-passed-by-value", f"{name}: the callback received {[c[1] for c in m.LOG]}, the subscript holds (float, 'n')", w)
            continue
        handed = [c[1] for c in m.LOG if c[0] == "rw"]
        if any(h != "e.cjets('d')" for h in handed):
            ctx.violation("directed:callback-handed-another-sites-rewrite", f"{name}: the rewriting callback was handed {handed}; each call site is written e.cjets('d')", w)
            continue
        got_calls = sorted(c[:1] for c in m.LOG)
        if got_calls != sorted(calls):
            ctx.violation("directed:callback-invocations-differ", f"{name}: callbacks invoked {m.LOG}, expected one each of {calls}", w)
            continue
        text = astx.unparse(s.query_ast)
        chain, node = [], s.query_ast.args[0]
        while isinstance(node, ast.Call) and isinstance(node.func, ast.Name) and node.func.id == "MetaData":
            d = node.args[1]
            chain.append(next((v.value for k, v in zip(d.keys, d.values) if isinstance(k, ast.Constant) and k.value == "cb"), None) if isinstance(d, ast.Dict) else None)
            node = node.args[0]
        if sorted(chain) != sorted(mds):
            ctx.violation("directed:metadata-not-on-the-source-chain", f"{name}: MetaData upstream of the operator {chain}, expected {mds}: {text[:200]}", w)
            continue
        if must_have not in text or (must_not_have and must_not_have in text):
            ctx.violation("directed:emitted-call-site-differs", f"{name}: emitted {text[:240]} (expected to contain {must_have!r}" + (f" and not {must_not_have!r})" if must_not_have else ")"), w)
            continue
        ctx.count("directed-placements-checked")
    modgen.unload(m)
    modgen.cleanup()


REGISTRY_SRC = modgen.DS_HEADER + '''
import ast
from typing import Iterable
from func_adl import func_adl_callable
LOG = []
def processor(version):
    def process(s, a):
        LOG.append((version, ast.unparse(a)))
        return s.MetaData({"cb": version}), ast.Call(func=ast.Name(id="calib_" + version, ctx=ast.Load()), args=a.args, keywords=[])
    return process
class Jet:
    def pt(self) -> float: ...
class Evt:
    def met(self) -> float: ...
    def jets(self) -> Iterable[Jet]: ...
# the declaration of a notebook cell / a reloaded module: run again it gives the same name a new function object and a new processor
def declare_a(k):
    @func_adl_callable(processor("a%d" % k))
    def calibrated_c09(pt: float, scale: float = 1.0 + k / 100) -> float: return pt * scale
    return calibrated_c09
def declare_b(k):
    @func_adl_callable(processor("b%d" % k))
    def smeared_c09(pt: float, width: float = 2.0 + k / 100) -> float: ...
    return smeared_c09
def q_a(ds, calibrated_c09): return ds.Select(lambda e: e.jets().Select(lambda j: calibrated_c09(j.pt())))
def q_a_top(ds, calibrated_c09): return ds.Select(lambda e: calibrated_c09(e.met()))
def q_a_alias(ds, fn): return ds.Select(lambda e: e.jets().Select(lambda j: fn(j.pt())))
def q_b(ds, smeared_c09): return ds.Select(lambda e: e.jets().Select(lambda j: smeared_c09(j.pt())))
def q_b_text(ds, unused): return ds.Select("lambda e: e.jets().Select(lambda j: smeared_c09(j.pt()))")
'''


def registry_history(ctx, nhist=16):
    """the registry of func_adl_callable functions has a history of its own: a name declared again (a notebook cell run twice, a module
    reloaded) stands for the new function and its new processor, reset_global_functions() empties it, declarations after a reset count.
    Queries from python lambdas in a file (the capture pass decides between 'registered function' and 'helper to paste') and from text."""
    from func_adl.type_based_replacement import reset_global_functions

    m = modgen.load(REGISTRY_SRC, "c09r")
    for h in range(nhist):
        rnd = random.Random(ctx.seed * 7177 + ctx.shard * 131 + h)
        reset_global_functions()
        cur = {"a": None, "b": None}  # what is registered now: (function object, version, default)
        k = 0
        trace = []
        for step in range(rnd.randint(6, 16)):
            r = rnd.random() if step else 0.0
            if r < 0.27:
                k += 1
                which = rnd.choice("ab")
                fn = (m.declare_a if which == "a" else m.declare_b)(k)
                cur[which] = (fn, f"{which}{k}", (1.0 if which == "a" else 2.0) + k / 100)
                trace.append(f"declare {which}{k}")
                continue
            if r < 0.33:
                reset_global_functions()
                cur = {"a": None, "b": None}
                trace.append("reset_global_functions()")
                continue
            which = rnd.choice("ab")
            if cur[which] is None:
                continue
            fn, version, dflt = cur[which]
            qname = rnd.choice(["q_a", "q_a_top", "q_a_alias"] if which == "a" else ["q_b", "q_b_text"])
            trace.append(f"{qname}({version})")
            del m.LOG[:]
            w = {"registry_history": True}
            ctx.case(f"registry-history:{h}:{step}:{qname}", True)
            ctx.count("registry-history-queries")
            try:
                s = getattr(m, qname)(m.DS(m.Evt), fn)
            except Exception as e:
                ctx.violation(f"registry-history:exc:{type(e).__name__}", f"{' ; '.join(trace)}: {type(e).__name__}: {str(e)[:200]}", w)
                break
            text = astx.unparse(s.query_ast)
            fired = [v for v, _ in m.LOG]
            if fired != [version]:
                ctx.violation("registry-history:processor-of-the-function-in-force-not-run-once", f"history {' ; '.join(trace)}: processors run {m.LOG}, the function in force is {version}: {text[:200]}", w)
                break
            node, chain = s.query_ast.args[0], []
            while isinstance(node, ast.Call) and isinstance(node.func, ast.Name) and node.func.id == "MetaData":
                chain.append(ast.literal_eval(node.args[1]).get("cb"))
                node = node.args[0]
            if chain != [version]:
                ctx.violation("registry-history:metadata-not-on-the-source-chain", f"history {' ; '.join(trace)}: MetaData upstream {chain}, expected [{version!r}]: {text[:200]}", w)
                break
            arg = "e.met()" if qname == "q_a_top" else "j.pt()"
            if f"calib_{version}({arg}, {dflt!r})" not in text:
                ctx.violation("registry-history:emitted-call-site-differs", f"history {' ; '.join(trace)}: expected calib_{version}({arg}, {dflt!r}) in {text[:240]}", w)
                break
    reset_global_functions()
    modgen.unload(m)
    modgen.cleanup()
    ctx.count("registry-histories", nhist)


def shard_main(ctx):
    from func_adl import EventDataset

    if ctx.shard in (0, 2, 4):
        registry_history(ctx)
    if ctx.shard == 0:
        directed(ctx)

    class DS(EventDataset):
        async def execute_result_async(self, a, title=None):
            return a

    n = N_CASES[ctx.tier]
    i = 0
    while i < n and not ctx.out_of_time():
        prnd = random.Random((ctx.seed * 1000 + ctx.shard) * 7919 + i)
        pl = Placement(prnd, f"{ctx.shard}_{i}")
        ds = DS(pl.Event)
        for j in range(25):
            rnd = random.Random((ctx.seed * 1000 + ctx.shard) * 100003 + i)
            run_case(ctx, rnd, pl, ds)
            i += 1
        pl.cleanup()
        ctx.count("placements")


def replay(ctx, witness):
    if "registry_history" in witness:
        registry_history(ctx)
        return
    if "directed" in witness:
        directed(ctx)
        return
    ctx.count("replay: re-running shard 0 of the quick workload (placements are regenerated from the seed)")
    N_CASES["replay"] = 250
    TIME_BUDGET["replay"] = 60
    shard_main(ctx)
