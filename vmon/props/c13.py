"""C13 - python values embedded in a query keep their exact value (DESIGN.md section 4, C13)."""
import ast
import random
import warnings
from typing import Iterable

from .. import astx, modgen, valgen
from ..core import REPO

N_CASES = {"quick": 400, "thorough": 500000}
TIME_BUDGET = {"quick": 60, "thorough": 270}
META = {
    "rule": "hostile values (strings over quote/backslash/newline/bracket/operator/unicode alphabets + code-like payloads, big and "
    "negative ints, finite floats incl. -0.0/1e300/5e-324, bools, None, bytes, list/tuple/dict nestings to depth 3) fed to every "
    "embedding entry point: MetaData, AsPandasDF/AsAwkwardArray columns, AsROOTTTree file/tree/columns, AsParquetFiles, the lower-case "
    "aliases, declared defaults of typed methods and func_adl_callable functions, captured module globals / closure cells, as_ast and "
    "as_literal directly; oracle: ast.literal_eval of the argument node == value with deep type equality, no exception, no "
    "SyntaxWarning; constant-type scan of every emitted lambda; distinct by (entry point, repr(value)); non-trivial = the value "
    "contains a quote/backslash/newline/non-ASCII character, a container, or a non-str scalar",
    "assumptions": [
        "inside emitted lambdas None and containers may arrive as an equal literal or be refused with ValueError (property's last sentence); "
        "str/int/float/bool/bytes must arrive",
        "non-finite floats are outside the property",
    ],
    "floor_evaluations": {"quick": 20000, "thorough": 200000},
    "floor_nontrivial": {"quick": 3000, "thorough": 30000},
    "threads": 3,
    "anchors": ["func_adl/util_ast.py", "func_adl/object_stream.py"],
}

CAP_SRC = modgen.DS_HEADER + '''
G = 0
def with_global(ds):
    return ds.Select(lambda e: e.f(G))
def with_global_where(ds):
    return ds.Where(lambda e: e.s == G)
def with_global_many(ds):
    return ds.SelectMany(lambda e: e.g(G))
def with_global_deep(ds):
    return ds.Select(lambda e: e.jets.Select(lambda j: j.trks.Where(lambda t: t.pt > G)))
def with_global_deep4(ds):
    return ds.Select(lambda e: e.jets.Select(lambda j: j.trks.Select(lambda t: t.hits.Select(lambda h: (h.x, G)))))
def with_global_param(ds):
    # the value as the parameter of a parameterized call on an object nothing is known about
    return ds.Select(lambda e: e.getAttribute[G]('pt'))
def with_global_param_nested(ds):
    return ds.Select(lambda e: e.jets.Select(lambda j: j.calo().energy[G, 'em'](1)))
def with_global_slice(ds):
    return ds.Select(lambda e: e.table[G])
class _Cfg:
    "an attribute-style configuration object: what it holds is served by __getattr__"
    def __getattr__(self, name):
        if name == "val":
            return G
        raise AttributeError(name)
CFG = _Cfg()
def with_getattr(ds):
    return ds.Select(lambda e: e.f(CFG.val))
def hard_h(e, cut):
    # a helper that hands the value it is given on to an inner stage lambda with the name=name early-binding idiom
    return e.jets.Where(lambda j, *, cut=cut: j.pt > cut)
def with_global_via_helper_default(ds):
    return ds.Select(lambda e: hard_h(e, G))
def with_global_via_own_default(ds):
    return ds.Select(lambda e: e.jets.Where(lambda j, G=G: j.pt > G))
def make_closure_deep(v):
    def inner(ds):
        return ds.Select(lambda e: e.jets.Select(lambda j: j.trks.Where(lambda t: t.pt > v)))
    return inner
def make_closure(v):
    def inner(ds):
        return ds.Select(lambda e: (e.x, v))
    return inner
'''


def leval(node):
    with warnings.catch_warnings(record=True) as w:
        warnings.simplefilter("always")
        v = ast.literal_eval(node)
    return v, [str(x.message) for x in w if issubclass(x.category, SyntaxWarning)]


def nontrivial(v):
    if isinstance(v, str):
        return any(c in v for c in "'\"\\\n\r") or any(ord(c) > 127 for c in v)
    return True


class Mon:
    def __init__(self, ctx):
        self.ctx = ctx

    def check_node(self, entry, v, node):
        """The argument node must evaluate back to v."""
        ctx = self.ctx
        ctx.case(f"{entry}|{type(v).__name__}|{v!r}", nontrivial(v))
        ctx.count("entry:" + entry)
        try:
            got, warns = leval(node)
        except Exception as e:
            ctx.violation(f"not-a-literal:{entry}", f"{entry}: value {v!r} arrived as {astx.unparse(node)[:200]} ({type(e).__name__}: {e})", {"entry": entry, "value": repr(v)})
            return
        if warns:
            ctx.violation(f"parsed-as-code:{entry}", f"{entry}: value {v!r} produced SyntaxWarning {warns[0]!r}", {"entry": entry, "value": repr(v)})
            return
        if not valgen.deep_equal(got, v):
            ctx.violation(f"value-altered:{entry}", f"{entry}: gave {v!r} ({type(v).__name__}), query holds {got!r} ({type(got).__name__})", {"entry": entry, "value": repr(v)})

    def raised(self, entry, v, e):
        ctx = self.ctx
        ctx.case(f"{entry}|{type(v).__name__}|{v!r}", nontrivial(v))
        ctx.count("entry:" + entry)
        ctx.violation(f"raised:{entry}:{type(e).__name__}", f"{entry}: value {v!r} -> {type(e).__name__}: {str(e)[:200]}", {"entry": entry, "value": repr(v)})

    def scan_lambda(self, entry, lam):
        for n in astx.walk_nodes(lam):
            if isinstance(n, ast.Constant) and type(n.value) not in (str, int, float, bool, complex, bytes):
                self.ctx.violation(f"non-transportable-constant:{entry}", f"{entry}: emitted lambda holds Constant of type {type(n.value).__name__}: {astx.unparse(lam)[:200]}", {"entry": entry, "value": repr(n.value)})
                return
        self.ctx.count("lambda-constant-scans")


def run_value(mon, ds, capmod, v, rnd):
    from func_adl.util_ast import as_ast, as_literal

    ctx = mon.ctx

    def attempt(entry, fn, pick):
        try:
            r = fn()
        except Exception as e:
            mon.raised(entry, v, e)
            return
        try:
            node = pick(r)
        except (IndexError, AttributeError) as e:
            ctx.case(f"{entry}|{type(v).__name__}|{v!r}", True)
            ctx.violation(f"embedded-value-missing:{entry}", f"{entry}: value {v!r} is not where the query should hold it ({type(e).__name__}: {e}): {astx.unparse(r if isinstance(r, ast.AST) else r.query_ast)[:200]}", {"entry": entry, "value": repr(v)})
            return
        mon.check_node(entry, v, node)

    # direct helpers
    attempt("as_ast", lambda: as_ast(v), lambda r: r)
    if not isinstance(v, (list, tuple, dict)):
        attempt("as_literal", lambda: as_literal(v), lambda r: r)
    # metadata dictionaries: as value and as key
    attempt("MetaData.value", lambda: ds.MetaData({"k": v}), lambda s: s.query_ast.args[1].values[0])
    # two consecutive MetaData blocks whose dictionaries compare equal but hold different values (1 / True / 1.0, 0.0 / -0.0), seen
    # where a back end sees them: in the AST value() hands to the executor
    tw = None
    if isinstance(v, bool):
        tw = int(v)
    elif isinstance(v, int) and v in (0, 1):
        tw = bool(v)
    elif isinstance(v, int) and abs(v) < 2**53:
        tw = float(v)
    elif isinstance(v, float) and v == 0.0:
        tw = -v
    elif isinstance(v, float) and v.is_integer() and abs(v) < 2**53:
        tw = int(v)
    if tw is not None:
        def unwrap(a, depth):
            # the executor receives Select(MetaData(MetaData(ds, {k: v}), {k: tw}), ...)
            n = a.args[0]
            for _ in range(depth):
                n = n.args[0]
            return n.args[1].values[0]

        chain = lambda: ds.MetaData({"k": v}).MetaData({"k": tw}).Select("lambda e: e.x").value()  # noqa
        attempt("MetaData.value-then-equal-neighbour(executor)", chain, lambda a: unwrap(a, 1))
        ctx.count("entry:MetaData.equal-neighbour-pairs")
        try:
            got = leval(unwrap(chain(), 0))[0]
            if got != tw or type(got) is not type(tw) or (isinstance(tw, float) and repr(got) != repr(tw)):
                mon.ctx.violation("value-altered:MetaData.equal-neighbour(executor)", f"MetaData({{'k': {v!r}}}).MetaData({{'k': {tw!r}}}): the executor's AST holds {got!r} ({type(got).__name__}) for the second block", {"entry": "MetaData.equal-neighbour", "value": repr(v)})
        except Exception as e:
            mon.ctx.violation(f"raised:MetaData.equal-neighbour(executor):{type(e).__name__}", f"MetaData({{'k': {v!r}}}).MetaData({{'k': {tw!r}}}).value(): {type(e).__name__}: {str(e)[:160]}", {"entry": "MetaData.equal-neighbour", "value": repr(v)})
    if isinstance(v, str):
        attempt("MetaData.key", lambda: ds.MetaData({v: 1}), lambda s: s.query_ast.args[1].keys[0])
        # names
        attempt("AsROOTTTree.filename", lambda: ds.AsROOTTTree(v, "t", ["c"]), lambda s: s.query_ast.args[3])
        attempt("AsROOTTTree.treename", lambda: ds.AsROOTTTree("f", v, ["c"]), lambda s: s.query_ast.args[2])
        attempt("as_ROOT_tree.filename", lambda: ds.as_ROOT_tree(v, "t", "c"), lambda s: s.query_ast.args[3])
        attempt("AsParquetFiles.filename", lambda: ds.AsParquetFiles(v, ["c"]), lambda s: s.query_ast.args[2])
        attempt("as_parquet.filename", lambda: ds.as_parquet(v), lambda s: s.query_ast.args[2])
        for name in ("AsPandasDF", "as_pandas", "AsAwkwardArray", "as_awkward"):
            attempt(name + ".column-str", lambda name=name: getattr(ds, name)(v), lambda s: s.query_ast.args[1].elts[0])
            attempt(name + ".column-list", lambda name=name: getattr(ds, name)(["a", v]), lambda s: s.query_ast.args[1].elts[1])
        attempt("AsROOTTTree.columns", lambda: ds.AsROOTTTree("f", "t", [v, "b"]), lambda s: s.query_ast.args[1].elts[0])
        attempt("AsParquetFiles.columns", lambda: ds.AsParquetFiles("f", v), lambda s: s.query_ast.args[1].elts[0])
    # declared defaults of a typed method and of a registered function
    transportable = valgen.is_scalar_transportable(v)
    if transportable and not isinstance(v, (list, tuple, dict)) and v is not None:
        # declared default of a record class whose constructor call is lowered to a dictionary: a namedtuple made with defaults= and
        # given ANOTHER default since, the old way; a dataclass field
        import collections
        import dataclasses

        from func_adl.ast.syntatic_sugar import resolve_syntatic_sugar

        NTv = collections.namedtuple("NTv", "x y", defaults=("stale-x", "stale-y"))
        NTv.__new__.__defaults__ = (v,)
        DCv = dataclasses.make_dataclass("DCv", [("x", float), ("y", object, dataclasses.field(default=v))])
        for entry, cls in (("namedtuple.default-replaced-on-__new__", NTv), ("dataclass.field-default", DCv)):
            call = ast.Call(func=ast.Constant(value=cls), args=[ast.Constant(value=1.5)], keywords=[])
            attempt(entry, lambda call=call: resolve_syntatic_sugar(astx.lam(["e"], call)), lambda r: dict(zip([k.value for k in r.body.keys], r.body.values))["y"])

    class Evt:
        def m(self, a=v) -> float: ...
        def f(self, a) -> float: ...

    from func_adl import func_adl_callable

    def c13_func(x: float, a=v) -> float: ...

    # registration is global and by name: every collector (thread) registers under a name of its own
    fname = f"c13_func_{ctx.shard}"
    c13_func.__name__ = c13_func.__qualname__ = fname
    func_adl_callable()(c13_func)

    # the same declaration reached through inheritance: plain subclass, and a diamond where only the second base overrides
    class Base0:
        def im(self, a="base-default") -> float: ...
        def dm(self, a="base-default") -> float: ...

    class Left(Base0):
        pass

    class Right(Base0):
        def dm(self, a=v) -> float: ...

    class Mid(Evt):
        pass

    class Evt2(Left, Right, Mid):
        def mine(self) -> Iterable["Evt2"]: ...

    Evt2.mine.__annotations__["return"] = Iterable[Evt2]
    tds = type(ds)(Evt2)
    for entry, text, pick in [
        ("default.method.inherited", "lambda e: e.m()", lambda s: s.query_ast.args[1].body.args[0]),
        ("default.method.diamond", "lambda e: e.dm()", lambda s: s.query_ast.args[1].body.args[0]),
        ("default.method.diamond-nested", "lambda e: e.mine().Select(lambda f: f.dm())", lambda s: s.query_ast.args[1].body.args[0].body.args[0]),
        ("default.method", "lambda e: e.m()", lambda s: s.query_ast.args[1].body.args[0]),
        ("default.function", f"lambda e: {fname}(e.f(1))", lambda s: s.query_ast.args[1].body.args[1]),
    ]:
        try:
            s = tds.Select(text)
        except ValueError as e:
            if transportable:
                mon.raised(entry, v, e)
            else:
                ctx.count("refused-with-ValueError:" + entry)
                ctx.case(f"{entry}|{v!r}", True)
            continue
        except Exception as e:
            mon.raised(entry, v, e)
            continue
        mon.check_node(entry, v, pick(s))
        mon.scan_lambda(entry, s.query_ast.args[1])
    # captured variables (source constant, value varies at run time)
    capmod.G = v
    for entry, fn, pick in [
        ("capture.global.Select", capmod.with_global, lambda s: s.query_ast.args[1].body.args[0]),
        ("capture.global.Where", capmod.with_global_where, lambda s: s.query_ast.args[1].body.comparators[0]),
        ("capture.global.SelectMany", capmod.with_global_many, lambda s: s.query_ast.args[1].body.args[0]),
        ("capture.closure.Select", capmod.make_closure(v), lambda s: s.query_ast.args[1].body.elts[1]),
        ("capture.global.parameterized-call", capmod.with_global_param, lambda s: s.query_ast.args[1].body.func.slice),
        ("capture.global.parameterized-call-nested", capmod.with_global_param_nested, lambda s: s.query_ast.args[1].body.args[0].body.func.slice.elts[0]),
        ("capture.attribute-served-by-__getattr__", capmod.with_getattr, lambda s: s.query_ast.args[1].body.args[0]),
        ("capture.global.handed-on-by-a-helper-as-name=name-default", capmod.with_global_via_helper_default, lambda s: s.query_ast.args[1].body.args[0].args.kw_defaults[0]),
        ("capture.global.as-name=name-default", capmod.with_global_via_own_default, lambda s: s.query_ast.args[1].body.args[0].args.defaults[0]),
        ("capture.global.subscript", capmod.with_global_slice, lambda s: s.query_ast.args[1].body.slice),
        ("capture.global.depth3", capmod.with_global_deep, lambda s: s.query_ast.args[1].body.args[0].body.args[0].body.comparators[0]),
        ("capture.global.depth4", capmod.with_global_deep4, lambda s: s.query_ast.args[1].body.args[0].body.args[0].body.args[0].body.elts[1]),
        ("capture.closure.depth3", capmod.make_closure_deep(v), lambda s: s.query_ast.args[1].body.args[0].body.args[0].body.comparators[0]),
    ]:
        if callable(v):
            continue
        try:
            s = fn(ds)
        except ValueError as e:
            if transportable:
                mon.raised(entry, v, e)
            else:
                ctx.count("refused-with-ValueError:" + entry)
                ctx.case(f"{entry}|{v!r}", True)
            continue
        except Exception as e:
            mon.raised(entry, v, e)
            continue
        mon.check_node(entry, v, pick(s))
        mon.scan_lambda(entry, s.query_ast.args[1])


def twin_of(v):
    """a value that compares equal to v and is another value (1 / True / 1.0, 0.0 / -0.0), or None"""
    if isinstance(v, bool):
        return int(v)
    if isinstance(v, int) and v in (0, 1):
        return bool(v)
    if isinstance(v, int) and abs(v) < 2**53:
        return float(v)
    if isinstance(v, float) and v == 0.0:
        return -v
    if isinstance(v, float) and v.is_integer() and abs(v) < 2**53:
        return int(v)
    return None


def container_histories(mon, ds, rnd, rounds=6):
    """one container OBJECT handed to the library again and again while its owner goes on editing it in place - at the top and inside
    what it holds (a nested list appended to, a nested value replaced by one that only compares equal): every emission is the value of
    that moment"""
    import copy

    from func_adl.util_ast import as_ast

    ctx = mon.ctx
    block = {"code": ["a'b", "line\n2"], "options": {"scale": 1, "tags": ["x"]}, "n": [1, [2, (3, 4.0)]], "flag": True}
    cols = ["pt", "eta", "b'c"]
    trees = [["a", "b"], ["c"]]
    for rd in range(rounds):
        for entry, fn, pick, val in [
            ("as_ast(same container again)", lambda: as_ast(block), lambda r: r, block),
            ("MetaData(same container again)", lambda: ds.MetaData(block), lambda s: s.query_ast.args[1], block),
            ("MetaData.value(same container again)", lambda: ds.MetaData({"k": trees}), lambda s: s.query_ast.args[1].values[0], trees),
            ("AsPandasDF(same column list again)", lambda: ds.AsPandasDF(cols), lambda s: s.query_ast.args[1], cols),
            ("AsROOTTTree(same column list again)", lambda: ds.AsROOTTTree("f", "t", cols), lambda s: s.query_ast.args[1], cols),
            ("as_ast(same list again)", lambda: as_ast(trees), lambda r: r, trees),
        ]:
            try:
                node = pick(fn())
            except Exception as e:
                mon.raised(entry, copy.deepcopy(val), e)
                continue
            mon.check_node(entry, copy.deepcopy(val), node)
            ctx.count("container-history-emissions")
        # the owner edits: mostly inside
        k = rnd.randrange(8)
        if k == 0:
            block["code"].append(f"more{rd}")
        elif k == 1:
            block["options"]["scale"] = twin_of(block["options"]["scale"]) if rnd.random() < 0.6 else rd + 2
        elif k == 2:
            block["n"][1][0] = float(block["n"][1][0]) if isinstance(block["n"][1][0], int) else int(block["n"][1][0])
        elif k == 3:
            block["options"]["tags"] = list(block["options"]["tags"]) + ["y'"]
        elif k == 4:
            trees[1].append("m")
        elif k == 5:
            trees[0][0] = trees[0][0] + "\\"
        elif k == 6:
            cols[rnd.randrange(len(cols))] = f"col {rd}\"q"
        else:
            block["n"] = [True if x == 1 and not isinstance(x, bool) else x for x in block["n"]] if rnd.random() < 0.5 else block["n"] + [rd]
    ctx.count("container-histories")


CB_SRC = modgen.DS_HEADER + '''
from typing import Iterable
from func_adl import func_adl_callback
BLOCK = [None]
def cb_block(s, a):
    return s.MetaData(dict(BLOCK[0])), a
class CJet:
    @func_adl_callback(cb_block)
    def cal(self) -> float: ...
class CEvt:
    def jets(self) -> Iterable[CJet]: ...
    @func_adl_callback(cb_block)
    def met(self) -> float: ...
'''


def callback_blocks(mon, cbmod, v):
    """a metadata block a callback attaches - at the top of the stage lambda and at a call site inside a nested lambda - next to a block
    the stream carries already that compares equal to it and is another value (1 / True / 1.0): both are in the query, each as it is"""
    ctx = mon.ctx
    tw = twin_of(v)
    if tw is None:
        return
    tds = cbmod.DS(cbmod.CEvt)
    for entry, text in [("callback-block.top", "lambda e: e.met()"), ("callback-block.nested", "lambda e: e.jets().Select(lambda j: j.cal())"),
                        ("callback-block.nested-twice", "lambda e: e.jets().Where(lambda j: j.cal() > 1).Select(lambda j: j.cal())")]:
        cbmod.BLOCK[0] = {"factor": v}
        try:
            s = tds.MetaData({"factor": tw}).Select(text)
        except Exception as e:
            mon.raised(entry, v, e)
            continue
        blocks, node = [], s.query_ast.args[0]
        while isinstance(node, ast.Call) and isinstance(node.func, ast.Name) and node.func.id == "MetaData":
            blocks.append(node.args[1].values[0])
            node = node.args[0]
        ctx.count("entry:" + entry)
        ctx.case(f"{entry}|{v!r}", True)
        vals = []
        for b in blocks:
            try:
                vals.append(leval(b)[0])
            except Exception:
                vals.append("<not a literal>")
        if not any(valgen.deep_equal(x, v) for x in vals) or not any(valgen.deep_equal(x, tw) for x in vals):
            ctx.violation(f"value-altered:{entry}", f"{entry}: the stream carried {{'factor': {tw!r}}}, the callback attached {{'factor': {v!r}}}; upstream of the operator the query holds {vals!r}", {"entry": entry, "value": repr(v)})


WRITTEN = [
    "lambda e: None", "lambda e: ...", "lambda e: e.x == None", "lambda e: (e.x, None)", "lambda e: e.f(None)", "lambda e: e.f(k=...)",
    "lambda e: e.jets.Select(lambda j: None)", "lambda e: {'a': None}", "lambda e: [1, ...]", "lambda e: e.x if e.y else None",
    "lambda e: e.jets.Where(lambda j: j.pt > 1).Select(lambda j: (j.pt, None))", "lambda e: 1j", "lambda e: b'x'", "lambda e: 'a'",
]


def written_constants(mon, ds):
    """Constants written in the lambda itself (string / ast supply): the emitted lambda may only hold transportable ones."""
    ctx = mon.ctx
    for text in WRITTEN:
        for opname in ("Select", "SelectMany", "Where"):
            for mode in ("string", "ast"):
                entry = f"written.{opname}.{mode}"
                ctx.case(entry + "|" + text, True)
                ctx.count("entry:written-constant")
                try:
                    s = getattr(ds, opname)(text if mode == "string" else astx.parse_expr(text))
                except ValueError:
                    ctx.count("refused-with-ValueError:written-constant")
                    continue
                except Exception as e:
                    ctx.violation(f"raised:{entry}:{type(e).__name__}", f"{entry}: {text} -> {type(e).__name__}: {e}", {"entry": entry, "value": repr(text)})
                    continue
                mon.scan_lambda(entry, s.query_ast.args[1])


def subclass_values(ctx, ds):
    """values whose type is a SUBCLASS of a listed type (float subclass, IntEnum / (str, Enum) member, str subclass with its own
    __str__), alone and nested, at the entry points that embed through text: the literal holds the plain value"""
    import enum

    class GeV(float):
        pass

    class Col(enum.IntEnum):
        RED = 1

    class Color(str, enum.Enum):
        RED = "red"

    class Shout(str):
        def __str__(self):
            return "SHOUT!"

    from func_adl.util_ast import as_ast

    cases = [("as_ast", lambda v: as_ast(v)), ("MetaData.value", lambda v: ds.MetaData({"k": v}).query_ast.args[1].values[0]), ("MetaData.nested", lambda v: ds.MetaData({"k": [v, (v,)]}).query_ast.args[1].values[0].elts[0])]
    for v, t, plain in [(GeV(3.5), float, 3.5), (Col.RED, int, 1), (Color.RED, str, "red"), (Shout("quiet'"), str, "quiet'")]:
        for entry, fn in cases:
            ctx.case(f"subclass|{entry}|{type(v).__name__}", True)
            ctx.count("entry:subclass-of-a-listed-type")
            try:
                got = ast.literal_eval(fn(v))
            except Exception as e:
                ctx.violation(f"raised:{entry}:subclass:{type(e).__name__}", f"{entry}: value {v!r} of type {type(v).__name__} -> {type(e).__name__}: {str(e)[:120]}", {"entry": entry, "value": repr(v)})
                continue
            if got != plain or type(got) is not t:
                ctx.violation(f"value-altered:{entry}:subclass", f"{entry}: gave {v!r} ({type(v).__name__}, plain value {plain!r}), query holds {got!r} ({type(got).__name__})", {"entry": entry, "value": repr(v)})
    for col in (Color.RED, Shout("pt")):
        ctx.case(f"subclass|column|{type(col).__name__}", True)
        try:
            got = ast.literal_eval(ds.AsAwkwardArray([col]).query_ast.args[1].elts[0])
            want = str.__str__(col)
            if got != want or type(got) is not str:
                ctx.violation("value-altered:column:subclass", f"column name {col!r}: query holds {got!r}", {"entry": "column", "value": repr(col)})
        except Exception as e:
            ctx.violation(f"raised:column:subclass:{type(e).__name__}", f"column name {col!r}: {type(e).__name__}: {str(e)[:120]}", {"entry": "column", "value": repr(col)})


def shard_main(ctx):
    if ctx.shard == 1 % ctx.nshards and ctx.tier == "thorough":
        from ..core import repo_tests_under_monitors

        repo_tests_under_monitors(ctx, "C13")
    capmod = modgen.load(CAP_SRC, "c13cap")
    ds = capmod.DS()
    mon = Mon(ctx)
    rnd = ctx.rnd
    written_constants(mon, ds)
    cbmod = modgen.load(CB_SRC, "c13cb")
    container_histories(mon, ds, rnd)
    for v in (1, True, 1.0, 0, 0.0, -0.0, False, 3, 2.0):
        callback_blocks(mon, cbmod, v)
    if ctx.shard == 0:
        subclass_values(ctx, ds)
        for p in valgen.PAYLOADS:
            run_value(mon, ds, capmod, p, rnd)
        for v in [0.0, -0.0, 1e300, 5e-324, 10**40, True, None, b"a'b", [], (), {}, (1,), [("a", 1.5)], {"a'": ["b\\"]}]:
            run_value(mon, ds, capmod, v, rnd)
    for i in range(N_CASES[ctx.tier]):
        if ctx.out_of_time():
            ctx.count("stopped-by-time-budget")
            break
        v = valgen.gen_value(rnd)
        run_value(mon, ds, capmod, v, rnd)
        if i % 50 == 7:
            container_histories(mon, ds, rnd, rounds=4)
        if i % 10 == 3:
            callback_blocks(mon, cbmod, v)
        if len(ctx.samples) < 5 and rnd.random() < 0.01:
            ctx.sample({"value": repr(v), "entry_points": "all applicable"})
    modgen.cleanup()


def replay(ctx, witness):
    capmod = modgen.load(CAP_SRC, "c13cap")
    if "again" in witness.get("entry", ""):
        container_histories(Mon(ctx), capmod.DS(), random.Random(0), rounds=12)
        modgen.cleanup()
        return
    v = ast.literal_eval(witness["value"])
    if witness.get("entry", "").startswith("callback-block"):
        callback_blocks(Mon(ctx), modgen.load(CB_SRC, "c13cb"), v)
    run_value(Mon(ctx), capmod.DS(), capmod, v, random.Random(0))
    modgen.cleanup()
