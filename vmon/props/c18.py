"""C18 - simplification is total on well-formed queries (DESIGN.md section 4, C18)."""
import ast
import random

from .. import astx
from ..core import REPO, CaseTimeout, case_timeout
from ..gen_expr import GLOB, Gen, datasets
from ..refeval import evaluate
from . import c02

N_CASES = {"quick": 300, "thorough": 300000}
TIME_BUDGET = {"quick": 60, "thorough": 270}
META = {
    "rule": "C02's generator plus literal projections with in-range / out-of-range / negative (UnaryOp and Constant) / "
    "variable / slice / reduced-to-constant selectors on tuple and list literals and present / absent / variable / "
    "non-string keys on dict literals, directly and reached through fusion and beta reduction; outcome classifier at "
    "simplify_chained_calls().visit; distinct by dump of the input; non-trivial = the program contains a hostile "
    "selector or the simplifier changed it",
    "assumptions": [
        "termination is decided as bounded progress: a 4 s per-case watchdog, firing = inconclusive",
        "FuncADLIndexError is allowed exactly when the generator placed a constant index past the end of a literal",
        "reference interpreter for the semantic-intact half (as C02)",
    ],
    "floor_evaluations": {"quick": 2000, "thorough": 20000},
    "floor_nontrivial": {"quick": 800, "thorough": 8000},
    "threads": 3,
    "anchors": ["func_adl/ast/function_simplifier.py"],
}

DIRECTED = [
    "Select(EventDataset(), lambda e: (e.x, e.y)[e.x - e.x])",
    "Select(EventDataset(), lambda e: (e.x, e.y)[-1])",
    "Select(EventDataset(), lambda e: (e.x, e.y)[0:1])",
    "Select(EventDataset(), lambda e: [e.x, e.y][e.x - e.x])",
    "Select(EventDataset(), lambda e: [e.x, e.y][-1])",
    "Select(EventDataset(), lambda e: [e.x, e.y][:])",
    "Select(EventDataset(), lambda e: {'a': e.x}['a' if e.x > 0 else 'a'])",
    "Select(EventDataset(), lambda e: 1 if e.x > 0 else {'a': e.x}['b'])",
    "Select(EventDataset(), lambda e: 1 if e.x > 0 else {'a': e.x}.b)",
    "Select(EventDataset(), lambda e: {1: e.x, 2: e.y}[2])",
    "Select(Select(EventDataset(), lambda e: (e.x, e.y)), lambda t: t[-1])",
    "Select(Select(EventDataset(), lambda e: [e.x, e.y]), lambda t: t[0:1])",
    "Select(Select(EventDataset(), lambda e: {'a': e.x}), lambda t: 0 if t.a > 0 else t.b)",
    "Select(Where(EventDataset(), lambda e: Count(e.jets) > 0), lambda e: First(Select(e.jets, lambda j: (j.pt, j.eta)))[-1])",
    "Select(EventDataset(), lambda e: (lambda i: (e.x, e.y)[i])(1))",
]
DIRECTED_OOB = [
    "Select(EventDataset(), lambda e: (e.x, e.y)[2])",
    "Select(EventDataset(), lambda e: [e.x, e.y][5])",
    "Select(Select(EventDataset(), lambda e: (e.x, e.y)), lambda t: t[2])",
]


def judge(ctx, q, data, oob, info):
    from func_adl.ast.function_simplifier import FuncADLIndexError, simplify_chained_calls

    before = [evaluate(q, d, GLOB) for d in data]
    key = astx.dump_fields(q)
    hostile = any(f.startswith("selector:") for f in info.get("features", [])) or info.get("directed")
    witness = {"query": astx.unparse(q), "oob": oob, "info": info}
    if info.get("naming") == "arglike" and not ctx.threads:
        # what a fresh process (a back end receiving a query a client already simplified) starts from: the generated names and the
        # query's own arg_N binders are in the same range
        import func_adl.ast.function_simplifier as _fs

        _fs.argument_var_counter = 0
        ctx.count("cases-with-generated-name-counter-at-zero")
    try:
        # (every third case: ONE simplifier object is used for query after query, as a back end that keeps its transformer does)
        import threading as _thr

        _keep = _thr.current_thread().__dict__.setdefault("_verif_kept_simplifier", {})
        if ctx.evaluations % 3 == 1:
            _simp = _keep.setdefault("s", simplify_chained_calls())
            ctx.count("cases-simplified-by-a-reused-simplifier-object")
        else:
            _simp = simplify_chained_calls()
        out = _simp.visit(astx.clone(q))
    except FuncADLIndexError as e:
        ctx.case(key, nontrivial=True)
        ctx.count("outcome:FuncADLIndexError")
        if not oob:
            ctx.violation("unexpected-FuncADLIndexError", f"{e} | in: {witness['query'][:400]}", witness)
        return
    except Exception as e:
        ctx.case(key, nontrivial=True)
        fr = astx.repo_frame(e, REPO)
        ctx.violation(f"exc:{type(e).__name__}@{fr}", f"{type(e).__name__}: {e} | in: {witness['query'][:400]}", witness)
        return
    ctx.count("outcome:returned")
    changed = astx.dump_fields(out) != key
    ctx.case(key, nontrivial=bool(hostile or changed))
    wf = astx.well_formed(out)
    if wf:
        kind = wf.split(":", 1)[1].strip().split(" ")[0:2]
        ctx.violation("malformed-node:" + "-".join(kind), f"{wf} | in: {witness['query'][:400]}", witness)
        return
    tree = astx.clone(out)
    try:
        text = ast.unparse(tree)
    except Exception as e:
        ctx.violation(f"unparse-failed:{type(e).__name__}", f"{e} | in: {witness['query'][:400]}", witness)
        return
    try:
        compile(ast.fix_missing_locations(ast.Expression(body=astx.clone(out))), "<c18>", "eval")
    except Exception as e:
        ctx.violation(f"compile-failed:{type(e).__name__}", f"{e} | in: {witness['query'][:300]} | out: {text[:300]}", witness)
        return
    try:
        back = astx.parse_expr(text)
        if not astx.struct_eq(back, tree):
            # negative Constant(-1) unparses as UnaryOp: normalise by a second round trip
            if ast.unparse(back) != text:
                ctx.violation("roundtrip-differs", f"{astx.first_diff(back, tree)} | out: {text[:300]}", witness)
                return
            ctx.count("roundtrip:equal-after-normalisation")
    except SyntaxError as e:
        ctx.violation("reparse-failed", f"{e} | out: {text[:300]}", witness)
        return
    # DAG unparse anomaly is only an observation
    try:
        dag_text = ast.unparse(out)
        if dag_text != text:
            ctx.count("observation:dag-unparse-differs-from-tree-unparse")
    except Exception:
        ctx.count("observation:dag-unparse-raised")
    # semantically intact
    after = [evaluate(out, d, GLOB) for d in data]
    for di, (b, a) in enumerate(zip(before, after)):
        if b[0] == "ok" and a != b:
            mech = c02.classify(q, data)
            ctx.violation(
                f"not-intact:{mech}",
                f"dataset#{di}: before={str(b)[:200]} after={str(a)[:200]} | in: {witness['query'][:300]} | out: {text[:300]}",
                witness,
            )
            return
    if any(b[0] == "ok" for b in before[1:]):
        ctx.count("obligation:equality-checked")
    if len(ctx.samples) < 4 and hostile and ctx.rnd.random() < 0.05:
        ctx.sample({"in": witness["query"], "out": text, "oob": oob})


ODD_NAMES = ["arg_\u1369", "arg_\u0967", "arg_\u0663", "arg_\u19da", "arg_01", "arg_", "arg_1_", "arg_99999999999999999999", "arg_7", "\u03bc", "arg_\u1369\u136a", "Arg_3", "arg__2"]


def odd_parameter_name(rnd, q):
    """one lambda parameter of the query takes a name no generator of names would choose (an alpha-renaming: meaning unchanged)"""
    params = sorted({a.arg for n in ast.walk(q) if isinstance(n, ast.Lambda) for a in n.args.args})
    used = {n.id for n in ast.walk(q) if isinstance(n, ast.Name)} | set(params)
    new = rnd.choice(ODD_NAMES)
    if not params or new in used:
        return None
    old = rnd.choice(params)
    for n in ast.walk(q):
        if isinstance(n, ast.Name) and n.id == old:
            n.id = new
        elif isinstance(n, ast.arg) and n.arg == old:
            n.arg = new
    return new


class _NoCopy:
    """what real dataset objects hold: things nobody can copy or pickle"""

    def __deepcopy__(self, memo):
        raise TypeError("this connection cannot be copied")

    def __reduce_ex__(self, protocol):
        raise TypeError("this connection cannot be pickled")


REAL_STREAM_QUERIES = [
    (lambda ds: ds.Select("lambda e: (e.met, e.jets)[0] * 2").Where("lambda v: v > 1"), False),
    (lambda ds: ds.Select("lambda e: e.jets").Select("lambda js: js.Select(lambda j: j.pt)").Select("lambda pts: pts.Where(lambda p: p > 30).Count()"), False),
    (lambda ds: ds.SelectMany("lambda e: e.jets.Select(lambda j: (j.pt, j.eta))").Select("lambda t: t[1]"), False),
    (lambda ds: ds.Select("lambda e: {'a': e.x, 'b': e.y}").Select("lambda r: r.a + r['b']"), False),
    (lambda ds: ds.Where("lambda e: e.x > 1").Where("lambda e: e.y > 2").Select("lambda e: (lambda a: a.x)(e)"), False),
    (lambda ds: ds.Select("lambda e: (e.x, e.y)").Select("lambda t: t[2]"), True),
    (lambda ds: ds.MetaData({"k": 1}).Select("lambda e: e.jets.First().pt").QMetaData({"t": 1}).AsROOTTTree("f.root", "t", ["pt"]), False),
    (lambda ds: ds, False),
]


def real_streams(ctx):
    """queries built through the API on dataset OBJECTS as real back ends have them - holding a lock, an open file, a thread, things
    that refuse to be copied - whose root node carries the object; simplified the way a back end does it: visit(stream.query_ast)"""
    import threading

    from func_adl import EventDataset
    from func_adl.ast.function_simplifier import FuncADLIndexError, simplify_chained_calls

    def make(holding):
        class DS(EventDataset):
            def __init__(self):
                super().__init__()
                self.resource = holding()

            async def execute_result_async(self, a, title=None):
                return a

        return DS()

    holders = [("lock", threading.Lock), ("open-file", lambda: open(__file__)), ("generator", lambda: (i for i in range(3))), ("refuses-copies", _NoCopy),
               ("thread-local", threading.local), ("nothing-special", dict)]
    for hname, holding in holders:
        for qi, (build, oob) in enumerate(REAL_STREAM_QUERIES):
            ds = make(holding)
            try:
                s = build(ds)
            except Exception as e:
                ctx.count("harness:real-stream-not-built:" + type(e).__name__)
                continue
            ctx.case(f"real-stream|{hname}|{qi}", nontrivial=True)
            ctx.count("real-streams-simplified")
            witness = {"real_streams": True}
            try:
                out = simplify_chained_calls().visit(s.query_ast)
            except FuncADLIndexError as e:
                if not oob:
                    ctx.violation("unexpected-FuncADLIndexError", f"query #{qi} built through the API on a dataset holding {hname}: {e}", witness)
                continue
            except Exception as e:
                ctx.violation(f"exc:{type(e).__name__}@{astx.repo_frame(e, REPO)}", f"query #{qi} built through the API on a dataset object holding {hname}: {type(e).__name__}: {str(e)[:160]}", witness)
                continue
            if oob:
                ctx.count("observation:out-of-range-index-not-reported-on-real-stream")
            wf = astx.well_formed(out)
            if wf:
                ctx.violation("malformed-node:real-stream", f"{wf} | query #{qi} on a dataset holding {hname}", witness)
                continue
            try:
                text = ast.unparse(out)
                astx.parse_expr(text)
            except Exception as e:
                ctx.violation(f"unparse-failed:{type(e).__name__}", f"query #{qi} on a dataset holding {hname}: {e}", witness)
            if hname == "open-file":
                ds.resource.close()


def shard_main(ctx):
    if ctx.shard == 1 % ctx.nshards:
        real_streams(ctx)
    if ctx.shard == 0:
        data = datasets(random.Random(5))
        for t in DIRECTED:
            judge(ctx, astx.parse_expr(t), data, False, {"directed": t})
        for t in DIRECTED_OOB:
            judge(ctx, astx.parse_expr(t), data, True, {"directed": t})
        # user functions named like a call_ attribute of the transformer classes that is no documented operator (none on a right tree)
        from ..history import HANDLER_NAME_TEMPLATES, handler_named_functions

        for x in handler_named_functions():
            for t in HANDLER_NAME_TEMPLATES:
                ctx.count("queries-calling-a-function-named-like-an-undocumented-handler")
                q = astx.parse_expr(t.format(X=x))
                judge(ctx, q, data, False, {"directed": t.format(X=x)})
                # ... and such a call is left a call of that function
                from func_adl.ast.function_simplifier import simplify_chained_calls

                try:
                    out = simplify_chained_calls().visit(astx.clone(q))
                    if not any(isinstance(n, ast.Call) and isinstance(n.func, ast.Name) and n.func.id == x for n in ast.walk(out)):
                        ctx.violation("user-function-taken-for-a-handler", f"{t.format(X=x)}: the call of the user's function {x} is gone: {ast.dump(out)[:200]}", {"query": t.format(X=x), "oob": False, "info": {"directed": t.format(X=x)}})
                except Exception:
                    pass
        # programmatic negative Constant
        q = astx.parse_expr("Select(EventDataset(), lambda e: (e.x, e.y)[0])")
        q.args[1].body.slice = astx.C(-1)
        judge(ctx, q, data, False, {"directed": "(e.x, e.y)[Constant(-1)]"})
    for i in range(N_CASES[ctx.tier]):
        if ctx.out_of_time():
            ctx.count("stopped-by-time-budget")
            break
        rnd = random.Random((ctx.seed * 1000 + ctx.shard) * 100003 + i + 77)
        naming = ["distinct", "identical", "reuse", "arglike"][i % 4]
        g = Gen(rnd, naming=naming, method_form=[0.0, 0.5][(i // 4) % 2], hostile_sel=0.5, pack=0.4)
        g.odd_stage_functions = i % 2 == 0
        g.runtime_keys = 0.15 if i % 3 == 1 else 0.0
        if i % 8 == 7:
            # C02's targeted re-use families, with a hostile selector spliced in where a projection of the package is taken
            text = c02.targeted_capture(rnd)
            text = text.replace("[1]", rnd.choice(["[1]", "[-1]", "[1:][0]", "[(1 if 1 > 0 else 0)]"]), 1)
            try:
                q = astx.parse_expr(text)
            except SyntaxError:
                ctx.count("harness:targeted-syntax-error")
                continue
            g.feat.add("targeted-reuse-family")
            g.feat.add("selector:targeted")
        else:
            try:
                q, stages = g.chain(rnd.randint(1, 5), rnd.randint(2, 4))
            except Exception as e:
                ctx.count("generator-failed:" + type(e).__name__)
                continue
        if astx.size(q) > 400:
            ctx.count("skipped:input-too-large")
            continue
        if i % 6 == 5:
            odd = odd_parameter_name(rnd, q)
            if odd:
                g.feat.add("odd-parameter-name")
        for f in g.feat:
            ctx.count("feature:" + f)
        try:
            with case_timeout(4.0):
                judge(ctx, q, datasets(rnd), g.oob, {"naming": naming, "features": sorted(g.feat), "case": (ctx.seed, ctx.shard, i)})
        except CaseTimeout:
            ctx.count("inconclusive:case-timeout")


def replay(ctx, witness):
    if witness.get("real_streams"):
        real_streams(ctx)
        return
    q = astx.parse_expr(witness["query"])
    if "Constant(-1)" in str(witness.get("info", {}).get("directed", "")):
        q.args[1].body.slice = astx.C(-1)
    for s in range(3):
        judge(ctx, q, datasets(random.Random(s)), witness.get("oob", False), witness.get("info", {}))
