"""C18 - simplification is total on well-formed queries (DESIGN.md section 4, C18)."""
import ast
import random

from .. import astx
from ..core import REPO, CaseTimeout, case_timeout
from ..gen_expr import GLOB, Gen, datasets
from ..refeval import evaluate
from . import c02

N_CASES = {"quick": 300, "thorough": 300000}
TIME_BUDGET = {"quick": 60, "thorough": 270}
META = {
    "rule": "C02's generator plus literal projections with in-range / out-of-range / negative (UnaryOp and Constant) / "
    "variable / slice / reduced-to-constant selectors on tuple and list literals and present / absent / variable / "
    "non-string keys on dict literals, directly and reached through fusion and beta reduction; outcome classifier at "
    "simplify_chained_calls().visit; distinct by dump of the input; non-trivial = the program contains a hostile "
    "selector or the simplifier changed it",
    "assumptions": [
        "termination is decided as bounded progress: a 4 s per-case watchdog, firing = inconclusive",
        "FuncADLIndexError is allowed exactly when the generator placed a constant index past the end of a literal",
        "reference interpreter for the semantic-intact half (as C02)",
    ],
    "floor_evaluations": {"quick": 2000, "thorough": 20000},
    "floor_nontrivial": {"quick": 800, "thorough": 8000},
    "threads": 3,
    "anchors": ["func_adl/ast/function_simplifier.py"],
}

DIRECTED = [
    "Select(EventDataset(), lambda e: (e.x, e.y)[e.x - e.x])",
    "Select(EventDataset(), lambda e: (e.x, e.y)[-1])",
    "Select(EventDataset(), lambda e: (e.x, e.y)[0:1])",
    "Select(EventDataset(), lambda e: [e.x, e.y][e.x - e.x])",
    "Select(EventDataset(), lambda e: [e.x, e.y][-1])",
    "Select(EventDataset(), lambda e: [e.x, e.y][:])",
    "Select(EventDataset(), lambda e: {'a': e.x}['a' if e.x > 0 else 'a'])",
    "Select(EventDataset(), lambda e: 1 if e.x > 0 else {'a': e.x}['b'])",
    "Select(EventDataset(), lambda e: 1 if e.x > 0 else {'a': e.x}.b)",
    "Select(EventDataset(), lambda e: {1: e.x, 2: e.y}[2])",
    "Select(Select(EventDataset(), lambda e: (e.x, e.y)), lambda t: t[-1])",
    "Select(Select(EventDataset(), lambda e: [e.x, e.y]), lambda t: t[0:1])",
    "Select(Select(EventDataset(), lambda e: {'a': e.x}), lambda t: 0 if t.a > 0 else t.b)",
    "Select(Where(EventDataset(), lambda e: Count(e.jets) > 0), lambda e: First(Select(e.jets, lambda j: (j.pt, j.eta)))[-1])",
    "Select(EventDataset(), lambda e: (lambda i: (e.x, e.y)[i])(1))",
]
DIRECTED_OOB = [
    "Select(EventDataset(), lambda e: (e.x, e.y)[2])",
    "Select(EventDataset(), lambda e: [e.x, e.y][5])",
    "Select(Select(EventDataset(), lambda e: (e.x, e.y)), lambda t: t[2])",
]


def judge(ctx, q, data, oob, info):
    from func_adl.ast.function_simplifier import FuncADLIndexError, simplify_chained_calls

    before = [evaluate(q, d, GLOB) for d in data]
    key = astx.dump_fields(q)
    hostile = any(f.startswith("selector:") for f in info.get("features", [])) or info.get("directed")
    witness = {"query": astx.unparse(q), "oob": oob, "info": info}
    try:
        # (every third case: ONE simplifier object is used for query after query, as a back end that keeps its transformer does)
        import threading as _thr

        _keep = _thr.current_thread().__dict__.setdefault("_verif_kept_simplifier", {})
        if ctx.evaluations % 3 == 1:
            _simp = _keep.setdefault("s", simplify_chained_calls())
            ctx.count("cases-simplified-by-a-reused-simplifier-object")
        else:
            _simp = simplify_chained_calls()
        out = _simp.visit(astx.clone(q))
    except FuncADLIndexError as e:
        ctx.case(key, nontrivial=True)
        ctx.count("outcome:FuncADLIndexError")
        if not oob:
            ctx.violation("unexpected-FuncADLIndexError", f"{e} | in: {witness['query'][:400]}", witness)
        return
    except Exception as e:
        ctx.case(key, nontrivial=True)
        fr = astx.repo_frame(e, REPO)
        ctx.violation(f"exc:{type(e).__name__}@{fr}", f"{type(e).__name__}: {e} | in: {witness['query'][:400]}", witness)
        return
    ctx.count("outcome:returned")
    changed = astx.dump_fields(out) != key
    ctx.case(key, nontrivial=bool(hostile or changed))
    wf = astx.well_formed(out)
    if wf:
        kind = wf.split(":", 1)[1].strip().split(" ")[0:2]
        ctx.violation("malformed-node:" + "-".join(kind), f"{wf} | in: {witness['query'][:400]}", witness)
        return
    tree = astx.clone(out)
    try:
        text = ast.unparse(tree)
    except Exception as e:
        ctx.violation(f"unparse-failed:{type(e).__name__}", f"{e} | in: {witness['query'][:400]}", witness)
        return
    try:
        compile(ast.fix_missing_locations(ast.Expression(body=astx.clone(out))), "<c18>", "eval")
    except Exception as e:
        ctx.violation(f"compile-failed:{type(e).__name__}", f"{e} | in: {witness['query'][:300]} | out: {text[:300]}", witness)
        return
    try:
        back = astx.parse_expr(text)
        if not astx.struct_eq(back, tree):
            # negative Constant(-1) unparses as UnaryOp: normalise by a second round trip
            if ast.unparse(back) != text:
                ctx.violation("roundtrip-differs", f"{astx.first_diff(back, tree)} | out: {text[:300]}", witness)
                return
            ctx.count("roundtrip:equal-after-normalisation")
    except SyntaxError as e:
        ctx.violation("reparse-failed", f"{e} | out: {text[:300]}", witness)
        return
    # DAG unparse anomaly is only an observation
    try:
        dag_text = ast.unparse(out)
        if dag_text != text:
            ctx.count("observation:dag-unparse-differs-from-tree-unparse")
    except Exception:
        ctx.count("observation:dag-unparse-raised")
    # semantically intact
    after = [evaluate(out, d, GLOB) for d in data]
    for di, (b, a) in enumerate(zip(before, after)):
        if b[0] == "ok" and a != b:
            mech = c02.classify(q, data)
            ctx.violation(
                f"not-intact:{mech}",
                f"dataset#{di}: before={str(b)[:200]} after={str(a)[:200]} | in: {witness['query'][:300]} | out: {text[:300]}",
                witness,
            )
            return
    if any(b[0] == "ok" for b in before[1:]):
        ctx.count("obligation:equality-checked")
    if len(ctx.samples) < 4 and hostile and ctx.rnd.random() < 0.05:
        ctx.sample({"in": witness["query"], "out": text, "oob": oob})


def shard_main(ctx):
    if ctx.shard == 0:
        data = datasets(random.Random(5))
        for t in DIRECTED:
            judge(ctx, astx.parse_expr(t), data, False, {"directed": t})
        for t in DIRECTED_OOB:
            judge(ctx, astx.parse_expr(t), data, True, {"directed": t})
        # programmatic negative Constant
        q = astx.parse_expr("Select(EventDataset(), lambda e: (e.x, e.y)[0])")
        q.args[1].body.slice = astx.C(-1)
        judge(ctx, q, data, False, {"directed": "(e.x, e.y)[Constant(-1)]"})
    for i in range(N_CASES[ctx.tier]):
        if ctx.out_of_time():
            ctx.count("stopped-by-time-budget")
            break
        rnd = random.Random((ctx.seed * 1000 + ctx.shard) * 100003 + i + 77)
        naming = ["distinct", "identical", "reuse", "arglike"][i % 4]
        g = Gen(rnd, naming=naming, method_form=[0.0, 0.5][(i // 4) % 2], hostile_sel=0.5, pack=0.4)
        g.odd_stage_functions = i % 2 == 0
        g.runtime_keys = 0.15 if i % 3 == 1 else 0.0
        if i % 8 == 7:
            # C02's targeted re-use families, with a hostile selector spliced in where a projection of the package is taken
            text = c02.targeted_capture(rnd)
            text = text.replace("[1]", rnd.choice(["[1]", "[-1]", "[1:][0]", "[(1 if 1 > 0 else 0)]"]), 1)
            try:
                q = astx.parse_expr(text)
            except SyntaxError:
                ctx.count("harness:targeted-syntax-error")
                continue
            g.feat.add("targeted-reuse-family")
            g.feat.add("selector:targeted")
        else:
            try:
                q, stages = g.chain(rnd.randint(1, 5), rnd.randint(2, 4))
            except Exception as e:
                ctx.count("generator-failed:" + type(e).__name__)
                continue
        if astx.size(q) > 400:
            ctx.count("skipped:input-too-large")
            continue
        for f in g.feat:
            ctx.count("feature:" + f)
        try:
            with case_timeout(4.0):
                judge(ctx, q, datasets(rnd), g.oob, {"naming": naming, "features": sorted(g.feat), "case": (ctx.seed, ctx.shard, i)})
        except CaseTimeout:
            ctx.count("inconclusive:case-timeout")


def replay(ctx, witness):
    q = astx.parse_expr(witness["query"])
    if "Constant(-1)" in str(witness.get("info", {}).get("directed", "")):
        q.args[1].body.slice = astx.C(-1)
    for s in range(3):
        judge(ctx, q, datasets(random.Random(s)), witness.get("oob", False), witness.get("info", {}))
