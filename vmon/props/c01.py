"""C01 - a fluent query means what the user's python chain computes (DESIGN.md section 4, C01)."""
import ast
import random

from .. import astx, modgen
from ..core import REPO, CaseTimeout, case_timeout
from ..refeval import Seq, evaluate, norm

N_PROGRAMS = {"quick": 14, "thorough": 17500}
TIME_BUDGET = {"quick": 60, "thorough": 270}
META = {
    "rule": "generated modules (real files): a data model with real method bodies and defaults, 3 datasets (empty, small random with empty "
    "collections, distinguishing primes), a forest of 1-4 chains of 1-6 Select/Where/SelectMany stages branching from shared parents, an "
    "optional result-format terminal with hostile names; lambda bodies from typed templates over the python-executable subset "
    "(attributes, method calls with omitted defaults and keywords, arithmetic, comparisons, conditionals, tuples, dicts via "
    "dataclass/NamedTuple sugar, nested Select/Where/SelectMany/First/Count, single-for comprehensions, captured values, one-line "
    "helpers, inner fusions with deep name re-use, kw_only dataclasses); callable programs are first built once with OTHER captured values; each program in three supply modes (callable from the file, string, ast) x typed / untyped dataset; monitor: the AST "
    "received by the harness's executor on value(), read by the reference interpreter, vs the SAME python callables run eagerly by a "
    "mirror stream on the in-memory data; repeated after change_extension_functions_to_calls, aggregate_node_transformer, "
    "simplify_chained_calls (each alone and in the order shipped backends use); distinct by dump of the executor AST; non-trivial = the "
    "direct run succeeded on a non-empty dataset and the chain has >= 2 stages or a nested operator",
    "assumptions": [
        "Sum/Max/Min are not generated (their folds are seeded with 0 by design: C19)",
        "dataclass sugar is used with all fields given (python fills defaults, the lowered dict does not)",
        "user methods are pure",
    ],
    "floor_evaluations": {"quick": 1500, "thorough": 15000},
    "floor_nontrivial": {"quick": 300, "thorough": 4000},
    "threads": 3,
    "anchors": ["func_adl/object_stream.py", "func_adl/util_ast.py", "func_adl/ast/syntatic_sugar.py", "func_adl/type_based_replacement.py",
                "func_adl/ast/func_adl_ast_utils.py", "func_adl/ast/aggregate_shortcuts.py", "func_adl/ast/function_simplifier.py"],
}

MODEL = '''
from dataclasses import dataclass
from typing import Iterable, NamedTuple
from vmon.refeval import Seq
import math

class Trk:
    def __init__(self, uid, pt, q):
        self._uid, self._pt, self._q = uid, pt, q
        self.idx = uid
    def pt(self, scale: float = 2.0) -> float:
        return self._pt * scale
    def q(self) -> int:
        return self._q

class Jet:
    def __init__(self, uid, pt, eta, trks):
        self._uid, self._pt, self._eta, self._trks = uid, pt, eta, Seq(trks)
        self.idx = uid
    def pt(self, scale: float = 1.0, shift: int = 0) -> float:
        return self._pt * scale + shift
    def eta(self) -> float:
        return self._eta
    def trks(self, minpt: float = 0.0) -> Iterable[Trk]:
        return Seq(t for t in self._trks if t._pt >= minpt)
    def ntrk(self) -> int:
        return len(self._trks)

class Event:
    def __init__(self, uid, met, nvtx, jets, trks):
        self._uid, self._met, self._nvtx, self._jets, self._trks = uid, met, nvtx, Seq(jets), Seq(trks)
        self.run = uid * 100
    def jets(self, minpt: float = 0.0, maxeta: float = 1000.0) -> Iterable[Jet]:
        return Seq(j for j in self._jets if j._pt >= minpt and j._eta <= maxeta)
    def met(self, scale: float = 1.0) -> float:
        return self._met * scale
    def nvtx(self) -> int:
        return self._nvtx
    def trks(self) -> Iterable[Trk]:
        return self._trks

@dataclass
class Pair:
    a: float
    b: float

class NPair(NamedTuple):
    a: float
    b: float

from dataclasses import field
@dataclass
class KPair:
    k: float = field(kw_only=True)
    a: float
    b: float

CUT = 25.0
SHIFT = 3
def scaled(x): return x * 2.0 + SHIFT_IN_HELPER
SHIFT_IN_HELPER = 1.0
def jet_ok(j): return j.pt() > 20.0 and j.eta() < 3.0
def lead_pt(js): return js.Select(lambda j: j.pt()).First()
def scaled_by(x, k=3.0, off=SHIFT_IN_HELPER): return x * k + off
def trk_sums(j): return j.trks().Select(lambda t: j.trks().Select(lambda h: h.pt() + t.pt() * 100 + j.pt()))
def trk_prod(j, w): return j.trks().Select(lambda t: j.trks().Select(lambda t_1: t_1.pt() * t.pt() + w))
'''

PRIMES = [2, 3, 5, 7, 11, 13, 17, 19, 23, 29, 31, 37, 41, 43, 47, 53, 59, 61, 67, 71, 73, 79, 83, 89, 97, 101, 103, 107, 109, 113, 127, 131, 137, 139, 149, 151, 157, 163, 167, 173, 179, 181, 191, 193, 197, 199, 211, 223, 227, 229]


def make_datasets(m, rnd):
    c = [rnd.randint(0, 10)]
    uid = [1]

    def nxt():
        c[0] += 1
        return float(PRIMES[c[0] % len(PRIMES)]) + (0.5 if c[0] % 3 == 0 else 0.0)

    def u():
        uid[0] += 1
        return uid[0]

    def trk():
        return m.Trk(u(), nxt(), rnd.choice([-1, 1]))

    def jet(maxt):
        return m.Jet(u(), nxt(), nxt() / 40.0, [trk() for _ in range(rnd.randint(0, maxt))])

    def event(maxj, maxt):
        return m.Event(u(), nxt(), rnd.randint(0, 4), [jet(maxt) for _ in range(rnd.randint(0, maxj))], [trk() for _ in range(rnd.randint(0, maxt))])

    return [[], [event(2, 2) for _ in range(rnd.randint(1, 3))], [event(3, 3) for _ in range(3)]]


# templates: kind -> list of (result kind, body with {v} the parameter and {k} a constant, mode restrictions)
ANY = ("callable", "string", "ast")
CALLABLE = ("callable",)
SELECT = {
    "Event": [
        ("num", "{v}.met()", ANY), ("num", "{v}.met(scale=2.0)", ANY), ("num", "{v}.nvtx() + {k}", ANY), ("num", "{v}.run", ANY),
        ("num", "{v}.jets().Count()", ANY), ("num", "{v}.jets({k}.0).Where(lambda j: j.eta() < 2.0).Count()", ANY),
        ("num", "{v}.jets(maxeta=2.0, minpt={k}.0).Count() * 2", ANY), ("num", "{v}.met() if {v}.nvtx() > 1 else -1.0", ANY),
        ("num", "len([j for j in {v}.jets() if j.pt() > {k}])", ANY), ("num", "{v}.met() * {k} - {v}.nvtx() / 2", ANY),
        ("num", "{v}.met() + CUT", CALLABLE), ("num", "scaled({v}.met())", CALLABLE), ("num", "scaled_by({v}.met())", CALLABLE), ("num", "scaled_by({v}.met(), off={v}.nvtx())", CALLABLE),
        ("seqnum", "{v}.jets().Select(lambda j: scaled_by(j.pt(), {v}.met()))", CALLABLE), ("num", "{v}.jets().Where(lambda j: jet_ok(j)).Count()", CALLABLE),
        ("num", "{v}.met() + math.pi", CALLABLE), ("num", "{v}.jets().Select(lambda {v}: {v}.pt()).Count()", ANY),
        ("seqJet", "{v}.jets()", ANY), ("seqJet", "{v}.jets(minpt={k}.0)", ANY), ("seqJet", "[j for j in {v}.jets() if j.pt() > {k}]", ANY),
        ("seqJet", "{v}.jets().Where(lambda j: j.pt({k}.0) > {v}.met())", ANY), ("seqTrk", "{v}.trks()", ANY),
        ("seqTrk", "{v}.jets().SelectMany(lambda j: j.trks())", ANY),
        ("seqnum", "{v}.jets().Select(lambda j: j.pt(scale=2.0))", ANY), ("seqnum", "[j.pt() + {v}.met() for j in {v}.jets()]", ANY),
        ("seqnum", "{v}.jets().Select(lambda j: j.trks({k}.0).Count())", ANY), ("seqnum", "[j.pt(shift={k}) for j in {v}.jets() if j.ntrk() > 0 if j.trks().First().pt() > 1]", ANY),
        ("seqnum", "{v}.jets().Select(lambda j: j.pt() + SHIFT)", CALLABLE),
        ("tup", "({v}.met(), {v}.nvtx())", ANY), ("tup", "({v}.jets().Count(), {v}.met({k}.0))", ANY),
        ("dic", "Pair(a={v}.met(), b={v}.nvtx())", CALLABLE), ("dic", "NPair({v}.met(), b={v}.jets().Count())", CALLABLE), ("dic", "Pair({v}.nvtx(), {v}.met())", CALLABLE),
        ("dic", "KPair({v}.nvtx(), {v}.met(), k={v}.run)", CALLABLE), ("dic", "KPair({v}.met(), k={v}.run, b={v}.nvtx())", CALLABLE),
        ("tupseq", "({v}.jets(), {v}.met())", ANY), ("Event", "{v}", ANY),
        # a record written with keys that compare equal and differ in type (python: one key, the last value), taken apart by a later stage
        ("kdic", "{{1: {v}.met(), True: {v}.nvtx(), 2: {v}.met() * 2}}", ANY), ("kdic", "{{True: {v}.nvtx(), 1: {v}.met(), 2.0: {v}.met(), 2: {v}.nvtx()}}", ANY),
        # a nested lambda / comprehension re-using the name of the enclosing parameter, which is used again AFTER it (the classes of the
        # two variables declare the same method with other defaults / other parameters)
        ("num", "{v}.jets().Select(lambda {v}: {v}.trks().Count()).Count() + {v}.trks().Count()", ANY),
        ("seqnum", "{v}.jets().Select(lambda j: j.trks().Select(lambda j: j.pt()).Count() * 1000 + j.pt())", ANY),
        ("seqnum", "{v}.jets().Select(lambda j: len([j.pt() for j in j.trks()]) * 1000 + j.pt(shift={k}))", ANY),
        # inner fusion inside the stage lambda: an argument mentioning the stage variable is substituted below lambdas re-using names
        ("seqnum", "{v}.jets().Select(lambda j: (j, {v}.met())).Select(lambda t: t[0].pt() + t[1])", ANY),
        ("deep", "{v}.jets().Select(lambda j: (j, {v}.met())).Select(lambda t: t[0].trks().Select(lambda {v}: {v}.pt() + t[1]))", ANY),
        ("deep", "{v}.jets().Select(lambda j: (j, {v}.met())).Select(lambda t: t[0].trks().Select(lambda k: t[0].trks().Select(lambda {v}: {v}.pt() + t[1] + k.pt())))", ANY),
        ("deep", "{v}.jets().Select(lambda j: {{'j': j, 'm': {v}.nvtx()}}).Select(lambda j: j.j.trks().Select(lambda t: j.j.trks().Select(lambda {v}: {v}.pt() * j.m)))", ANY),
        ("seqnum", "{v}.jets().Where(lambda j: j.ntrk() > 0).Select(lambda j: (j.trks(), {v}.met())).Select(lambda {v}: {v}[0].Select(lambda j: j.pt() + {v}[1]).Count())", ANY),
        # the stage variable occurs ONLY inside a nested lambda of the packaged tuple; the next stage takes it apart under a lambda re-using its name
        ("deep", "{v}.jets().Where(lambda j: j.ntrk() > 0).Select(lambda j: (j, j.trks().Select(lambda t: t.pt() + {v}.met()))).Select(lambda p: p[0].trks().Select(lambda {v}: {v}.pt() * p[1].First()))", ANY),
        ("deep", "{v}.jets().Where(lambda j: j.ntrk() > 0).Select(lambda j: {{'j': j, 's': j.trks().Select(lambda t: t.pt() + {v}.nvtx())}}).Select(lambda j: j.j.trks().Select(lambda {v}: {v}.pt() * j.s.First()))", ANY),
        # helpers with two levels of nested lambdas, called with a variable named like the innermost binder
        ("deep", "{v}.jets().Select(lambda h: trk_sums(h))", CALLABLE), ("deep", "{v}.jets().Select(lambda t: trk_sums(t))", CALLABLE),
        ("deep", "{v}.jets().Select(lambda t: trk_prod(t, {v}.met()))", CALLABLE), ("deep", "{v}.jets().Select(lambda t_1: trk_prod(t_1, t_1.pt()))", CALLABLE),
    ],
    "deep": [("num", "{v}.Count()", ANY), ("deep", "{v}", ANY)],
    "Jet": [
        ("num", "{v}.pt()", ANY), ("num", "{v}.pt(shift={k})", ANY), ("num", "{v}.pt({k}.0, 1) + {v}.eta()", ANY), ("num", "{v}.ntrk()", ANY),
        ("num", "{v}.trks().Count()", ANY), ("num", "{v}.trks(minpt={k}.0).Select(lambda t: t.pt()).Count()", ANY), ("num", "{v}.idx", ANY),
        ("num", "{v}.trks().Select(lambda {v}: {v}.pt()).Count() * 1000 + {v}.pt()", ANY), ("num", "len([{v}.pt() for {v} in {v}.trks()]) * 1000 + {v}.pt(shift={k})", ANY),
        ("num", "scaled({v}.pt())", CALLABLE), ("num", "scaled_by({v}.pt(), {k}.0)", CALLABLE), ("num", "scaled_by({v}.eta())", CALLABLE), ("num", "{v}.pt() - CUT", CALLABLE),
        ("seqTrk", "{v}.trks()", ANY), ("seqnum", "[t.pt({k}.0) for t in {v}.trks()]", ANY), ("seqnum", "{v}.trks().Select(lambda t: t.pt() * {v}.pt())", ANY),
        ("tup", "({v}.pt(), {v}.eta())", ANY), ("dic", "Pair(a={v}.pt(), b={v}.eta())", CALLABLE),
    ],
    "Trk": [("num", "{v}.pt()", ANY), ("num", "{v}.pt(scale={k}.0)", ANY), ("num", "{v}.q() * {v}.pt()", ANY), ("tup", "({v}.pt(), {v}.q())", ANY), ("num", "{v}.idx", ANY)],
    "num": [("num", "{v} * 2", ANY), ("num", "{v} + {k}", ANY), ("num", "{v} if {v} > {k} else 0", ANY), ("tup", "({v}, {v} * {k})", ANY), ("num", "{v} + CUT", CALLABLE), ("num", "scaled({v})", CALLABLE)],
    "tup": [("num", "{v}[0] + {v}[1]", ANY), ("num", "{v}[1]", ANY), ("tup", "({v}[1], {v}[0])", ANY), ("num", "{v}[0] * {k}", ANY)],
    "dic": [("num", "{v}.a * {v}.b", ANY), ("num", "{v}.a + {k}", ANY), ("num", "{v}['b']", ANY), ("tup", "({v}.b, {v}.a)", ANY)],
    "kdic": [("num", "{v}[1] + {v}[2]", ANY), ("num", "{v}[1]", ANY), ("tup", "({v}[2], {v}[1])", ANY)],
    "tupseq": [("num", "{v}[0].Count() + {v}[1]", ANY), ("seqnum", "{v}[0].Select(lambda j: j.pt() + {v}[1])", ANY), ("seqJet", "{v}[0]", ANY),
               ("seqnum", "[j.pt() * {v}[1] for j in {v}[0] if j.pt() > {k}]", ANY)],
    "seqJet": [("num", "{v}.Count()", ANY), ("seqnum", "{v}.Select(lambda j: j.pt())", ANY), ("num", "len({v})", ANY), ("seqJet", "{v}.Where(lambda j: j.pt() > {k})", ANY),
               ("num", "{v}.Where(lambda j: j.ntrk() > 0).Select(lambda j: j.trks().First().pt()).Count()", ANY), ("num", "lead_pt({v}) if {v}.Count() > 0 else 0.0", CALLABLE)],
    "seqTrk": [("num", "{v}.Count()", ANY), ("seqnum", "[t.pt() for t in {v}]", ANY)],
    "seqnum": [("num", "{v}.Count()", ANY), ("seqnum", "{v}.Select(lambda x: x * {k})", ANY), ("seqnum", "{v}.Where(lambda x: x > {k})", ANY), ("num", "len({v})", ANY)],
}
WHERE = {
    "Event": [("{v}.met() > {k}", ANY), ("{v}.jets().Count() > 0", ANY), ("{v}.jets({k}.0).Count() >= 1 and {v}.nvtx() < 4", ANY), ("{v}.met() > CUT", CALLABLE),
              ("len([j for j in {v}.jets() if j.pt() > {k}]) > 0", ANY), ("{v}.jets().Where(lambda j: j.pt() > {v}.met()).Count() == 0", ANY)],
    "Jet": [("{v}.pt() > {k}", ANY), ("{v}.eta() < 2.0 or {v}.pt(shift={k}) > 60", ANY), ("{v}.ntrk() > 0", ANY), ("jet_ok({v})", CALLABLE),
            ("{v}.trks().Where(lambda t: t.pt() > {k}).Count() > 0", ANY)],
    "Trk": [("{v}.pt() > {k}", ANY), ("{v}.q() == 1", ANY)],
    "num": [("{v} > {k}", ANY), ("{v} > {k} and {v} < 150", ANY), ("{v} > CUT", CALLABLE)],
    "tup": [("{v}[0] > {k}", ANY), ("{v}[0] > {v}[1]", ANY)],
    "dic": [("{v}.a > {k}", ANY), ("{v}['b'] >= 1", ANY)],
    "tupseq": [("{v}[0].Count() > 0", ANY), ("{v}[1] > {k}", ANY)],
    "seqJet": [("{v}.Count() > 0", ANY), ("{v}.Where(lambda j: j.pt() > {k}).Count() > 0", ANY)],
    "seqTrk": [("{v}.Count() > 0", ANY)],
    "seqnum": [("{v}.Count() > 1", ANY)],
    "deep": [("{v}.Count() >= 0", ANY)],
}
SEQ_ELEM = {"seqJet": "Jet", "seqTrk": "Trk", "seqnum": "num"}
TERMINALS = [("AsROOTTTree", ("f'i\"le.root", "tr ee", ["col a", "b'c"])), ("AsPandasDF", (["x"],)), ("AsAwkwardArray", ("c\\d",)), ("AsParquetFiles", ("out.parquet", ["c"]))]
TERM_NODE = {"AsROOTTTree": "ResultTTree", "AsPandasDF": "ResultPandasDF", "AsAwkwardArray": "ResultAwkwardArray", "AsParquetFiles": "ResultParquet"}


class PyStream:
    """Mirror stream: python itself applies the very same callables to in-memory sequences."""

    def __init__(self, seq):
        self.seq = Seq(seq)

    def Select(self, f):
        return PyStream(f(x) for x in self.seq)

    def Where(self, f):
        return PyStream(x for x in self.seq if f(x))

    def SelectMany(self, f):
        return PyStream(y for x in self.seq for y in f(x))


class ProgGen:
    def __init__(self, rnd, mode):
        self.r, self.mode = rnd, mode
        self.nested = False

    def pick(self, table, kind):
        opts = [t for t in table.get(kind, []) if self.mode in t[-1]]
        return self.r.choice(opts) if opts else None

    def stage(self, kind):
        """-> (op, lambda text, new kind) or None"""
        r = self.r
        v = r.choice(["e", "x", "j", "v"])
        k = r.choice([1, 2, 10, 30, 50])
        ops = ["Select", "Select", "Where"]
        if any(t[0] in SEQ_ELEM for t in SELECT.get(kind, []) if self.mode in t[-1]) or kind in SEQ_ELEM:
            ops.append("SelectMany")
        op = r.choice(ops)
        if op == "Where":
            t = self.pick(WHERE, kind)
            if t is None:
                return None
            body = t[0].format(v=v, k=k)
            nk = kind
        elif op == "SelectMany":
            if kind in SEQ_ELEM and r.random() < 0.5:
                body, nk = v, SEQ_ELEM[kind]
            else:
                opts = [t for t in SELECT.get(kind, []) if self.mode in t[-1] and t[0] in SEQ_ELEM]
                if not opts:
                    return None
                t = r.choice(opts)
                body, nk = t[1].format(v=v, k=k), SEQ_ELEM[t[0]]
        else:
            t = self.pick(SELECT, kind)
            if t is None:
                return None
            body, nk = t[1].format(v=v, k=k), t[0]
        if "lambda" in body or " for " in body:
            self.nested = True
        return op, f"lambda {v}: {body}", nk


def gen_program(rnd, mode):
    """a forest: list of chains; chain = list of (parent index or None, op, lambda text); plus terminals"""
    g = ProgGen(rnd, mode)
    nodes = [{"parent": None, "kind": "Event", "op": None, "text": None, "depth": 0}]
    nchains = rnd.randint(1, 4)
    leaves = []
    for c in range(nchains):
        start = rnd.randrange(len(nodes))  # branch from a shared parent
        cur = start
        for s in range(rnd.randint(1, 6)):
            st = g.stage(nodes[cur]["kind"])
            if st is None:
                break
            op, text, nk = st
            nodes.append({"parent": cur, "kind": nk, "op": op, "text": text, "depth": nodes[cur]["depth"] + 1})
            cur = len(nodes) - 1
        if cur != start:
            term = rnd.choice(TERMINALS) if rnd.random() < 0.3 else None
            leaves.append((cur, term))
    return nodes, leaves, g.nested


def module_source(nodes, leaves, mode):
    src = [modgen.DS_HEADER, MODEL]
    src.append("def build(ds, PS, eager=False):")
    src.append("    s = {0: ds}")
    src.append("    p = {0: PS}")
    for i, n in enumerate(nodes):
        if n["parent"] is None:
            continue
        par = n["parent"]
        if mode == "callable":
            arg = n["text"]
        elif mode == "string":
            arg = repr(n["text"])
        else:
            arg = f"ast.parse({n['text']!r}, mode='eval').body"
        # one statement per stage; a stage that raises is recorded (and inherited by its descendants), not fatal
        src.append("    try:")
        src.append(f"        s[{i}] = s[{par}].{n['op']}({arg}) if not isinstance(s[{par}], Exception) else s[{par}]")
        src.append("    except Exception as ex:")
        src.append(f"        s[{i}] = ex")
        # (interactive use: every stream is looked at as soon as it exists, the next stage is derived from a stream that has run)
        src.append(f"    if eager and not isinstance(s[{i}], Exception): s[{i}].value()")
    src.append("    return s, p")
    return "import ast\n" + "\n".join(src) + "\n"


def passes():
    from func_adl.ast.aggregate_shortcuts import aggregate_node_transformer
    from func_adl.ast.func_adl_ast_utils import change_extension_functions_to_calls
    from func_adl.ast.function_simplifier import simplify_chained_calls

    return [
        ("to-function-form", lambda a: change_extension_functions_to_calls(a)),
        ("aggregate-shortcuts", lambda a: aggregate_node_transformer().visit(a)),
        ("simplify", lambda a: simplify_chained_calls().visit(a)),
        ("backend-order", lambda a: simplify_chained_calls().visit(aggregate_node_transformer().visit(change_extension_functions_to_calls(a)))),
        ("function-form+simplify", lambda a: simplify_chained_calls().visit(change_extension_functions_to_calls(a))),
    ]


def long_chain(n):
    """scale boundary: one chain of n ordinary stages (what a generated analysis script can produce)"""
    nodes = [{"parent": None, "kind": "Event", "op": None, "text": None, "depth": 0}]
    nodes.append({"parent": 0, "kind": "num", "op": "Select", "text": "lambda e: e.met()", "depth": 1})
    for i in range(n):
        op, text = ("Select", f"lambda x: x + {i % 3}") if i % 4 else ("Where", f"lambda v: v > -{i + 1}")
        nodes.append({"parent": len(nodes) - 1, "kind": "num", "op": op, "text": text, "depth": len(nodes)})
    return nodes, [(len(nodes) - 1, None)], False


def run_program(ctx, rnd, mode, typed, info, program=None):
    nodes, leaves, nested = program or gen_program(rnd, mode)
    if not leaves:
        ctx.count("trivial:empty-program")
        return
    src = module_source(nodes, leaves, mode)
    try:
        m = modgen.load(src, "c01")
    except SyntaxError as e:
        ctx.count("harness:generated-module-syntax-error")
        ctx.notes.setdefault("syntax_errors", []).append(str(e)[:200])
        return
    datasets = make_datasets(m, rnd)
    ds = m.DS(m.Event) if typed else m.DS()
    witness = {"mode": mode, "typed": typed, "source": src[src.index("def build"):], "info": info}
    # direct runs (python itself), one mirror stream per dataset
    directs = []
    build_error = None
    try:
        if mode == "callable":
            # the same lambdas are first used with OTHER captured values (state kept between calls must not leak)
            # (also the values the one-line helpers read: a helper pasted into one query says nothing about the next query)
            keep = (m.CUT, m.SHIFT, m.SHIFT_IN_HELPER)
            m.CUT, m.SHIFT, m.SHIFT_IN_HELPER = -12345.5, 77, -4096.0
            try:
                m.build(m.DS(m.Event) if typed else m.DS(), PyStream([]))
            except Exception:
                pass
            m.CUT, m.SHIFT, m.SHIFT_IN_HELPER = keep
        eager = rnd.random() < 0.3
        if eager:
            ctx.count("programs-built-with-every-stream-executed-as-soon-as-it-exists")
        streams, _ = m.build(ds, PyStream([]), eager)
        del ds.calls[:]
    except Exception as e:
        build_error = e
    for data in datasets:
        try:
            _, p = m.build(m.DS(), PyStream(data)) if False else (None, None)
        except Exception:
            p = None
        directs.append(None)
    # the direct chains must not involve func_adl at all: re-run build's python half only
    def direct_for(data):
        p = {0: PyStream(data)}
        env = dict(vars(m))
        for i, n in enumerate(nodes):
            if n["parent"] is None:
                continue
            par = p.get(n["parent"])
            if par is None or isinstance(par, Exception):
                p[i] = par
                continue
            try:
                f = eval(n["text"], env)
                p[i] = getattr(par, n["op"])(f)
                p[i].seq  # force
            except Exception as e:
                p[i] = e
        return p

    directs = [direct_for(d) for d in datasets]
    if build_error is not None:
        # a refusal while building: only a violation if python runs the whole forest fine on real data
        ok_everywhere = all(not isinstance(directs[di][leaf], Exception) for di in (1, 2) for leaf, _ in leaves)
        ctx.case(src, nontrivial=True)
        if ok_everywhere:
            kind = "ValueError" if isinstance(build_error, ValueError) else type(build_error).__name__
            ctx.violation(f"build-raised:{kind}@{astx.repo_frame(build_error, REPO)}", f"{mode}/{'typed' if typed else 'untyped'}: building the chain raised {type(build_error).__name__}: {str(build_error)[:200]} although python runs it\n{witness['source'][:800]}", witness)
        else:
            ctx.count("trivial:build-raised-and-python-fails-too")
        modgen.unload(m)
        return
    plist = passes()
    from ..refeval import OPS

    # only FUNCTIONS of the module may stay in a query by name (a helper that cannot be inlined is left as a call); plain values
    # (CUT, SHIFT, constants a helper's body uses) must have been frozen into the query as literals
    glob = {k: v for k, v in vars(m).items() if k not in OPS and not k.startswith("__") and callable(v)}
    for leaf, term in leaves:
        s = streams[leaf]
        tname = None
        if isinstance(s, Exception):
            # a stage on this path raised while building: only a violation if python runs that path fine on real data
            ok_path = all(not isinstance(directs[di][leaf], Exception) and directs[di][leaf] is not None for di in (1, 2))
            ctx.case(src + str(leaf), nontrivial=True)
            if ok_path:
                kind = type(s).__name__
                ctx.violation(f"build-raised:{kind}@{astx.repo_frame(s, REPO)}", f"{mode}/{'typed' if typed else 'untyped'}: building the chain raised {kind}: {str(s)[:200]} although python runs it\n{witness['source'][:800]}", {**witness, "leaf": leaf})
            else:
                ctx.count("trivial:build-raised-and-python-fails-too")
            continue
        if term is not None:
            tname, targs = term
            try:
                s = getattr(s, tname)(*targs)
            except Exception as e:
                ctx.case(src + str(leaf) + tname, True)
                ctx.violation(f"terminal-raised:{type(e).__name__}", f"{tname}{targs!r} raised {type(e).__name__}: {str(e)[:200]}", witness)
                continue
        try:
            s.value()
        except Exception as e:
            ctx.case(src + str(leaf), True)
            ctx.violation(f"value-raised:{type(e).__name__}", f"value() raised {type(e).__name__}: {str(e)[:200]}\n{witness['source'][:600]}", witness)
            continue
        recv = ds.calls[-1][0]
        key = astx.dump_fields(recv)
        chain_len = nodes[leaf]["depth"]
        any_ok_nonempty = False
        problems = None
        variants = [("executor-ast", recv)]
        for pname, fn in plist:
            try:
                variants.append((pname, fn(astx.clone(recv))))
            except Exception as e:
                variants.append((pname, e))
        for di, data in enumerate(datasets):
            d = directs[di][leaf]
            if isinstance(d, Exception) or d is None:
                ctx.count("trivial:direct-run-raised")
                continue
            exp = norm(d.seq)
            if tname is not None:
                exp = ("T", "RESULT", TERM_NODE[tname], exp) + tuple(norm(x) for x in _term_args(tname, term[1]))
            if di > 0 and data:
                any_ok_nonempty = True
            for vname, tree in variants:
                if isinstance(tree, Exception):
                    problems = (vname, f"pass raised {type(tree).__name__}: {str(tree)[:120]}")
                    break
                got = evaluate(tree, data, glob)
                if got != ("ok", exp):
                    problems = (vname, f"dataset#{di}: python computes {str(exp)[:200]}, the query computes {str(got)[:200]} :: {astx.unparse(tree)[:300]}")
                    break
                ctx.count("agreements")
            if problems:
                break
        ctx.case(key, nontrivial=any_ok_nonempty and (chain_len >= 2 or nested))
        ctx.count(f"mode:{mode}:{'typed' if typed else 'untyped'}")
        if tname:
            ctx.count("terminal:" + tname)
        if problems:
            ctx.violation(f"differs:{problems[0]}", f"{mode}/{'typed' if typed else 'untyped'} after {problems[0]}: {problems[1]}\n{witness['source'][:700]}", {**witness, "leaf": leaf})
        elif len(ctx.samples) < 4 and any_ok_nonempty and chain_len >= 2 and rnd.random() < 0.05:
            ctx.sample({"mode": mode, "typed": typed, "executor_ast": astx.unparse(recv)[:400], "stages": chain_len})
    modgen.unload(m)


def _term_args(tname, args):
    if tname == "AsROOTTTree":
        f, t, cols = args
        return [cols if isinstance(cols, list) else [cols], t, f]
    if tname == "AsParquetFiles":
        f, cols = args
        return [cols if isinstance(cols, list) else [cols], f]
    cols = args[0]
    return [cols if isinstance(cols, list) else [cols]]


def shard_main(ctx):
    import sys

    if "/verif" not in sys.path:
        sys.path.insert(0, "/verif")
    if ctx.shard in (0, 1, 3):
        for n in (95, 110, 125):
            ctx.count("long-chain-programs")
            run_program(ctx, random.Random(n), "string", ctx.shard == 0, {"program": (ctx.seed, ctx.shard, -n), "long_chain": n}, program=long_chain(n))
    for i in range(N_PROGRAMS[ctx.tier]):
        if ctx.out_of_time():
            ctx.count("stopped-by-time-budget")
            break
        for mode in ("callable", "string", "ast"):
            for typed in (True, False):
                rnd = random.Random((ctx.seed * 1000 + ctx.shard) * 100003 + i)
                try:
                    with case_timeout(8.0):
                        run_program(ctx, rnd, mode, typed, {"program": (ctx.seed, ctx.shard, i)})
                except CaseTimeout:
                    ctx.count("inconclusive:case-timeout")
    modgen.cleanup()


def replay(ctx, witness):
    seed, shard, i = witness["info"]["program"]
    rnd = random.Random((seed * 1000 + shard) * 100003 + i)
    n = witness["info"].get("long_chain")
    run_program(ctx, random.Random(n) if n else rnd, witness["mode"], witness["typed"], witness["info"], program=long_chain(n) if n else None)
    modgen.cleanup()
