"""C12 - value() runs exactly the stream's query on its own dataset, once (DESIGN.md section 4, C12)."""
import ast
import asyncio
import itertools
import random
import sys
import threading
import time

from .. import astx, refimpl
from ..history import ExecFailure, History, Sentinel, _uid

N_CASES = {"quick": 40, "thorough": 7500}
TIME_BUDGET = {"quick": 60, "thorough": 270}
META = {
    "rule": "(1) random build/execute histories over 1-3 datasets (typed/untyped, terminals, MetaData incl. empty, QMetaData, override "
    "executors, titles, failing executors) checked by a history checker over the executor call log: no executor entered while a "
    "derive operator is on the stack, exactly one enter per value()/value_async() call, on the override or else on the dataset object at "
    "the root of that stream, received AST == the harness's own empty-MetaData-free rendering of the stream, same title, returned / "
    "raised object identical (is) to what the executor returned / raised, received AST unchanged between enter and leave, root "
    "dataset node recoverable from the received AST; (2) N concurrently awaited value_async() calls (same stream twice, siblings, "
    "different datasets, terminals) under a gate-controlled scheduler: all N! completion orders for N<=3 (quick) / N<=4 (thorough), "
    "random orders up to N=7, with derivations and executions between releases; (3) value() from 2-8 threads with "
    "sys.setswitchinterval(1e-6) and, in every second scenario, yield injection (sleep(0) on 30% of the LINE events inside "
    "object_stream.py / meta_data.py / event_dataset.py); (4) rootless / multi-root queries must be rejected; distinct by (scenario, order / op sequence); "
    "non-trivial = >= 2 executions overlapped or the history has >= 2 datasets and an override",
    "assumptions": ["true parallel races do not exist under the GIL for this code; the threaded part looks for logical interference only"],
    "floor_evaluations": {"quick": 1500, "thorough": 30000},
    "floor_nontrivial": {"quick": 60, "thorough": 1000},
    "floor_counters": {"quick": {"completion-orders": 30, "executor-enters": 1000}, "thorough": {"completion-orders": 500, "executor-enters": 20000}},
    "anchors": ["func_adl/object_stream.py", "func_adl/event_dataset.py", "func_adl/ast/meta_data.py"],
}


import enum as _enum


class TitleE(str, _enum.Enum):
    "a title declared the way analysis code declares its samples: a member of a str-valued Enum (str() of it is not its value)"
    DIJET = "dijet_2018"


class LoudTitle(str):
    def __str__(self):
        return "<title " + str.__str__(self) + ">"


class ExecMonitor:
    """History checker for one execute call (client-boundary call/return + executor enter/leave)."""

    def __init__(self, ctx):
        self.ctx = ctx

    def check_call(self, hist, call, ret, window, where):
        from func_adl import find_EventDataset

        ctx = self.ctx
        e = call["entry"]
        wit = {"where": where, "stream": e.how, "trace": [str(t)[:160] for t in getattr(hist, "trace", [])][-30:], **getattr(hist, "witness", {})}
        enters = [x for x in window if x["ev"] == "enter"]
        leaves = [x for x in window if x["ev"] == "leave"]
        ctx.evaluations += 1
        ctx.count("executor-enters", len(enters))
        if len(enters) != 1:
            ctx.violation(f"executor-calls:{len(enters)}", f"{where}: {call['how']} on [{e.how}] produced {len(enters)} executor calls", wit)
            return
        en = enters[0]
        if en["ds"] != call["expect_ds"]:
            ctx.violation("wrong-executor", f"{where}: [{e.how}] ran on {en['ds']}, expected {call['expect_ds']} (override={call['override']})", wit)
        target = call.get("expect_target") or e.ds
        if en["ds"] == call["expect_ds"] and en.get("self") is not target:
            ctx.violation("executor-ran-on-a-copy-of-the-dataset", f"{where}: [{e.how}] the executor was invoked on an object that is not the {'override' if call['override'] else 'root dataset'} object itself (a copy of it)", wit)
        if en["building"]:
            ctx.violation("executor-entered-while-building", f"{where}: executor entered inside a derive call", wit)
        exp = astx.dump_fields(refimpl.remove_empty(e.s.query_ast))
        if en["dump"] != exp:
            ctx.violation("wrong-ast", f"{where}: executor of [{e.how}] received {astx.unparse(en['ast'])[:200]}, stream renders (empty MetaData removed) {astx.unparse(refimpl.remove_empty(e.s.query_ast))[:200]}", wit)
        if en["title"] != call["title"] or (call["title"] is not None and en["title"] is not call["title"] and type(en["title"]) is not type(call["title"])):
            ctx.violation("wrong-title", f"{where}: the executor was handed title {en['title']!r} ({type(en['title']).__name__}), value() was given {call['title']!r} ({type(call['title']).__name__})", wit)
        try:
            root = find_EventDataset(en["ast"])
            if getattr(root, "_eds_object", None) is not e.ds:
                ctx.violation("root-not-recoverable", f"{where}: find_EventDataset(received)._eds_object is not the stream's dataset", wit)
        except Exception as ex:
            ctx.violation("root-not-recoverable", f"{where}: find_EventDataset raised {type(ex).__name__}: {ex}", wit)
        if leaves:
            lv = leaves[0]
            if lv["dump_after"] != en["dump"]:
                ctx.violation("received-ast-changed-during-execution", f"{where}: AST handed to the executor of [{e.how}] changed between enter and leave", wit)
            if "result" in lv:
                if "result" not in ret or ret["result"] is not lv["result"]:
                    ctx.violation("result-not-identical", f"{where}: executor returned {lv['result']!r}, caller got {ret.get('result', ret.get('exc'))!r}", wit)
            else:
                if "exc" not in ret or ret["exc"] is not lv["exc"]:
                    ctx.violation("exception-not-identical", f"{where}: executor raised {lv['exc']!r}, caller got {ret.get('exc', ret.get('result'))!r}", wit)

    def on_execute(self, hist, call, ret):
        window = hist.log[call["log_start"]:call["log_end"]]
        self.check_call(hist, call, ret, window, "sync-history")

    def on_event(self, hist, kind, info):
        if kind != "execute":
            # U-exec: no enter logged during a derive
            pass


class BuildWatch:
    """U-exec: any executor enter recorded with building>0, or any enter not enclosed by a call."""

    def __init__(self, ctx):
        self.ctx = ctx
        self.seen = 0

    def on_event(self, hist, kind, info):
        new = hist.log[self.seen:]
        self.seen = len(hist.log)
        for x in new:
            if True:
                if x["ev"] == "enter" and x["building"]:
                    self.ctx.violation("executor-invoked-while-building", f"executor of {x['ds']} entered during {kind} {str(info)[:120]}", {"trace": [str(t)[:160] for t in getattr(hist, 'trace', [])][-30:], **getattr(hist, "witness", {})})
        self.ctx.count("build-watch-events")


def sync_history(ctx, hseed, nsteps):
    rnd = random.Random(hseed)
    hist = History(rnd, [ExecMonitor(ctx), BuildWatch(ctx)], n_datasets=rnd.randint(1, 3))
    hist.trace = []
    hist.witness = {"scenario": "sync", "hist_seed": hseed, "nsteps": nsteps}
    kinds = []
    overrides = 0
    for step in range(nsteps):
        k = rnd.random()
        live = hist.streams
        e = rnd.choice(live[-10:] if rnd.random() < 0.6 else live)
        if k < 0.35:
            if e.terminal:
                continue
            ne = hist.random_derive(e)
            kinds.append("D")
            hist.trace.append(("derive", e.id, ne.how if ne else None))
        elif k < 0.45:
            if e.terminal:
                continue
            d = {} if rnd.random() < 0.5 else {"k": rnd.randint(0, 3)}
            if rnd.random() < 0.2:
                # values a dictionary of metadata may well hold that are no python literals: the wrapper is not empty, that is
                # all value() has to know about it
                import collections
                import pathlib

                d = rnd.choice([{"file": pathlib.PurePosixPath("a.root")}, collections.OrderedDict(a=rnd.randint(0, 3)), {"runs": range(rnd.randint(1, 4))},
                                # ... or that are literals no stage lambda could hold (None, Ellipsis): metadata is not a stage lambda
                                {"cache": None}, {"cache": None, "n": [1, None, (None,)]}, {"rest": ...}])
                hist.mode_counts["metadata-value-no-literal"] = hist.mode_counts.get("metadata-value-no-literal", 0) + 1
            hist.metadata(e, d)
            kinds.append("M")
            hist.trace.append(("MetaData", e.id, d))
        elif k < 0.5:
            hist.qmetadata(e, {"q": rnd.randint(0, 3)})
            kinds.append("Q")
            hist.trace.append(("QMetaData", e.id))
        elif k < 0.58:
            if e.terminal:
                continue
            hist.terminal(e)
            kinds.append("T")
            hist.trace.append(("terminal", e.id))
        else:
            ov = rnd.random() < 0.25
            overrides += ov
            hist.trace.append(("execute", e.id, e.how, ov))
            hist.execute(e, override=ov, title=rnd.choice([None, "title-a", "", "t'q", TitleE.DIJET, LoudTitle("sample-7")]), fail=rnd.random() < 0.2)
            kinds.append("X")
    ctx.case("sync:" + "".join(kinds), nontrivial=len(hist.datasets) >= 2 and overrides > 0)
    ctx.count("sync-histories")


def odd_lambda():
    """a stage function given as an ast the library builds and delivers but ast.unparse cannot render: a hand-made Call node without
    the (optional) keywords field"""
    c = ast.Call(func=ast.Name(id="f", ctx=ast.Load()), args=[ast.Attribute(value=ast.Name(id="e", ctx=ast.Load()), attr="x", ctx=ast.Load())])
    return ast.Lambda(args=ast.arguments(posonlyargs=[], args=[ast.arg(arg="e")], kwonlyargs=[], kw_defaults=[], defaults=[]), body=c)


def build_forest(rnd, hist, n):
    for _ in range(n):
        e = rnd.choice(hist.streams)
        if e.terminal:
            continue
        k = rnd.random()
        if k < 0.06 and getattr(e.ds, "untyped", False) and e.kind in ("uEvent", "other"):
            hist.building += 1
            try:
                s_ = e.s.Select(odd_lambda())
            except ValueError:
                continue  # (a designed refusal: the items of this stream are records without a field x)
            finally:
                hist.building -= 1
            hist._register(s_, "other", e.ds, e, "Select(<ast with a Call node that has no keywords field>)")
            hist.mode_counts["stage-functions-ast.unparse-cannot-render"] = hist.mode_counts.get("stage-functions-ast.unparse-cannot-render", 0) + 1
            continue
        if k < 0.6:
            hist.random_derive(e)
        elif k < 0.75:
            hist.metadata(e, {} if rnd.random() < 0.5 else {"k": 1})
        elif k < 0.85:
            hist.qmetadata(e, {"q": 1})
        else:
            hist.terminal(e)


def concurrent_scenario(ctx, hseed, n, order, between):
    """N value_async() calls awaited concurrently; executors block on gates released in ``order``."""
    rnd = random.Random(hseed)
    mon = ExecMonitor(ctx)
    hist = History(rnd, [BuildWatch(ctx)], n_datasets=rnd.randint(1, 3))
    hist.trace = [("concurrent", n, order)]
    hist.witness = {"scenario": "concurrent", "hist_seed": hseed, "n": n, "order": list(order), "between": between}
    build_forest(rnd, hist, rnd.randint(3, 10))
    # choose streams: allow the same stream twice and siblings
    picks = [rnd.choice(hist.streams) for _ in range(n)]
    if n >= 2 and rnd.random() < 0.5:
        picks[1] = picks[0]
    fails = [rnd.random() < 0.2 for _ in range(n)]
    titles = [rnd.choice([None, f"t{i}"]) for i in range(n)]
    calls = [None] * n
    rets = [None] * n
    waiting = {}
    entered = []

    async def main():
        loop = asyncio.get_running_loop()
        slot_of_enter = {}

        async def gate(enter_n):
            fut = loop.create_future()
            entered.append(enter_n)
            waiting[enter_n] = fut
            await fut

        for ds in hist.datasets:
            ds.gate = gate

        async def one(i):
            e = picks[i]
            call = {"ev": "call", "c": i, "stream": e.id, "how": "value_async", "override": False, "title": titles[i], "expect_ds": e.ds.name, "entry": e}
            calls[i] = call
            with hist.lock:
                hist.log.append(call)
            kw = {} if titles[i] is None else {"title": titles[i]}
            try:
                res = await e.s.value_async(**kw)
                rets[i] = {"ev": "return", "c": i, "result": res}
            except BaseException as ex:  # noqa
                rets[i] = {"ev": "return", "c": i, "exc": ex}
            with hist.lock:
                hist.log.append(rets[i])

        tasks = [asyncio.ensure_future(one(i)) for i in range(n)]
        # let every task reach its gate (logical steps, not wall clock)
        for _ in range(50):
            await asyncio.sleep(0)
            if len(waiting) >= n:
                break
        # which enter belongs to which call: by the ast object identity/dump is ambiguous for the same stream twice,
        # so map by arrival order among identical streams
        enter_recs = [x for x in hist.log if x["ev"] == "enter"]
        pending = list(range(n))
        slot = {}
        for rec in enter_recs:
            for i in pending:
                if picks[i].ds.name == rec["ds"] and rec["dump"] == astx.dump_fields(refimpl.remove_empty(picks[i].s.query_ast)) and rec["title"] == titles[i]:
                    slot[i] = rec["n"]
                    pending.remove(i)
                    break
        for idx, i in enumerate(order):
            en = slot.get(i)
            if en is None or en not in waiting:
                continue
            # interleave building / other executions between releases
            if between:
                for ds in hist.datasets:
                    ds.gate = None
                build_forest(rnd, hist, rnd.randint(0, 3))
                for ds in hist.datasets:
                    ds.gate = gate
            for ds in hist.datasets:
                if ds.name == picks[i].ds.name:
                    ds.fail_next = fails[i]
            waiting.pop(en).set_result(None)
            for _ in range(10):
                await asyncio.sleep(0)
                if rets[i] is not None:
                    break
        for fut in waiting.values():
            if not fut.done():
                fut.set_result(None)
        await asyncio.gather(*tasks, return_exceptions=True)

    asyncio.run(main())
    for ds in hist.datasets:
        ds.gate = None
    # per-call windows: enters with the slot's characteristics; exactly-once globally
    enters = [x for x in hist.log if x["ev"] == "enter"]
    leaves = {x["n"]: x for x in hist.log if x["ev"] == "leave"}
    ctx.count("executor-enters", 0)
    if len(enters) != n:
        ctx.violation(f"concurrent-executor-calls:{len(enters)}-for-{n}", f"{n} concurrent value_async() calls produced {len(enters)} executor calls (order {order})", hist.witness)
    # match each call to one enter + its leave by returned identity
    used = set()
    for i in range(n):
        if rets[i] is None:
            ctx.count("inconclusive:task-did-not-finish")
            continue
        cand = None
        for x in enters:
            if x["n"] in used:
                continue
            lv = leaves.get(x["n"])
            if lv is None:
                continue
            if ("result" in rets[i] and lv.get("result") is rets[i]["result"]) or ("exc" in rets[i] and lv.get("exc") is rets[i]["exc"]):
                cand = x
                break
        if cand is None:
            ctx.evaluations += 1
            ctx.violation("returned-object-not-from-an-executor", f"call {i} on [{picks[i].how}] returned {rets[i]} which no executor produced (order {order})", hist.witness)
            continue
        used.add(cand["n"])
        calls[i].update({"expect_target": None})
        mon.check_call(hist, calls[i], rets[i], [cand, leaves[cand["n"]]], f"concurrent n={n} order={order}")
    ctx.case(f"conc:{n}:{order}:{hseed % 7}", nontrivial=n >= 2)
    ctx.count("completion-orders")
    ctx.notes.setdefault("orders_seen", set()).add((n, tuple(order)))


def threaded_scenario(ctx, hseed, nthreads):
    rnd = random.Random(hseed)
    mon = ExecMonitor(ctx)
    hist = History(rnd, [], n_datasets=rnd.randint(1, 2))
    hist.trace = [("threads", nthreads)]
    hist.witness = {"scenario": "threads", "hist_seed": hseed, "nthreads": nthreads}
    build_forest(rnd, hist, rnd.randint(4, 10))
    picks = [rnd.choice(hist.streams) for _ in range(nthreads)]
    results = [None] * nthreads
    old = sys.getswitchinterval()
    sys.setswitchinterval(1e-6)
    barrier = threading.Barrier(nthreads)

    def work(i):
        barrier.wait()
        try:
            results[i] = {"result": picks[i].s.value(title=f"th{i}")}
        except BaseException as ex:  # noqa
            results[i] = {"exc": ex}

    ts = [threading.Thread(target=work, args=(i,)) for i in range(nthreads)]
    from ..core import REPO
    from ..hooks import YieldInjector

    with YieldInjector(REPO, ["func_adl/object_stream.py", "func_adl/ast/meta_data.py", "func_adl/event_dataset.py"], seed=hseed, p=0.3 if hseed % 2 else 0.0) as yi:
        for t in ts:
            t.start()
        for t in ts:
            t.join(60)
    ctx.count("yield-injections", yi.injected)
    ctx.count("monitored-lines-in-threads", yi.lines)
    sys.setswitchinterval(old)
    enters = {x["title"]: x for x in hist.log if x["ev"] == "enter"}
    leaves = {x["n"]: x for x in hist.log if x["ev"] == "leave"}
    n_enter = len([x for x in hist.log if x["ev"] == "enter"])
    if n_enter != nthreads:
        ctx.violation(f"threaded-executor-calls:{n_enter}-for-{nthreads}", f"{nthreads} threads calling value() produced {n_enter} executor calls", hist.witness)
    sig = tuple(x["ev"][0] + str(x.get("title") or "") for x in hist.log if x["ev"] in ("enter", "leave"))
    ctx.notes.setdefault("thread_interleavings", set()).add(hash(sig))
    for i in range(nthreads):
        en = enters.get(f"th{i}")
        if en is None or results[i] is None:
            ctx.violation("threaded-call-lost", f"thread {i}: no executor call / no result", hist.witness)
            continue
        call = {"entry": picks[i], "how": "value", "override": False, "title": f"th{i}", "expect_ds": picks[i].ds.name}
        mon.check_call(hist, call, {"ev": "return", **results[i]}, [en, leaves[en["n"]]], f"threads={nthreads}")
    ctx.case(f"threads:{nthreads}:{hseed}", nontrivial=True)
    ctx.count("threaded-scenarios")


def rootless(ctx):
    from func_adl import EventDataset, ObjectStream, find_EventDataset

    class DS(EventDataset):
        async def execute_result_async(self, a, title=None):
            return a

    s = ObjectStream(ast.Name(id="e", ctx=ast.Load())).Select("lambda e: e.x")
    for what, fn in [("find_EventDataset(no root)", lambda: find_EventDataset(s.query_ast)), ("value() with no root", lambda: s.value())]:
        ctx.case("rootless:" + what, True)
        try:
            fn()
            ctx.violation("rootless-accepted", f"{what} did not raise", {"scenario": "rootless"})
        except Exception:
            ctx.count("rootless-rejected")
    a, b = DS(), DS()
    two = ast.Call(func=ast.Name(id="Zip", ctx=ast.Load()), args=[a.Select("lambda e: e.x").query_ast, b.query_ast], keywords=[])
    nested = a.Select("lambda e: e.x").query_ast
    nested.args[1].body = b.query_ast
    inside = astx.parse_expr("Select(EventDataset(EventDataset()), lambda e: e)")
    inside_kw = astx.parse_expr("Select(EventDataset(source=EventDataset()), lambda e: e)")
    for what, tree in [("two roots as arguments", two), ("second root inside a lambda", nested), ("second root among the first root's arguments", inside), ("second root as a keyword of the first root", inside_kw)]:
        ctx.case("multiroot:" + what, True)
        try:
            find_EventDataset(tree)
            ctx.violation("multi-root-accepted", f"find_EventDataset accepted a query with {what}", {"scenario": "rootless"})
        except Exception:
            ctx.count("multiroot-rejected")
    # root recoverable from every derived query, through every operator kind
    d = DS()
    chain = d.Select("lambda e: e.jets").MetaData({"a": 1}).SelectMany("lambda j: j").Where("lambda j: j.pt > 1").QMetaData({"q": 1}).AsROOTTTree("f", "t", ["c"])
    ctx.case("root-recoverable", True)
    try:
        if find_EventDataset(chain.query_ast)._eds_object is not d:
            ctx.violation("root-not-recoverable", "find_EventDataset(chain)._eds_object is not the dataset", {"scenario": "rootless"})
    except Exception as ex:
        ctx.violation("root-not-recoverable", f"find_EventDataset raised {ex}", {"scenario": "rootless"})


def nested_scenario(ctx, variant):
    """an executor that itself asks ANOTHER stream for its value, synchronously (a back end resolving a dependency): from plain code,
    from inside a running event loop, and from two threads each running a loop whose executions finish in the opposite order of their
    start. Bounded progress: every execution completes (a generous wall-clock watchdog; executors that were never entered are named)"""
    from func_adl import EventDataset

    log, lock = [], threading.Lock()

    class NDS(EventDataset):
        def __init__(self, name, inner=None, wait_for=None, then_set=None):
            super().__init__()
            self.name, self.inner, self.wait_for, self.then_set = name, inner, wait_for, then_set

        async def execute_result_async(self, a, title=None):
            with lock:
                log.append(("enter", self.name, title))
            res = Sentinel(next(_uid))
            if self.inner is not None:
                res = (res, self.inner.value(title="inner of " + self.name))  # a synchronous value() while a loop is running here
            if self.wait_for is not None:
                self.wait_for.wait(20)
            if self.then_set is not None:
                self.then_set.set()
            with lock:
                log.append(("leave", self.name, res))
            return res

    out = {}
    if variant in ("plain", "in-loop"):
        inner = NDS("inner").Select("lambda e: e.x")
        outer = NDS("outer", inner=inner).Select("lambda e: e.y")

        def run():
            if variant == "plain":
                out["r"] = outer.value(title="t")
            else:
                async def main():
                    return outer.value(title="t")
                out["r"] = asyncio.run(main())
        ths = [threading.Thread(target=run, daemon=True)]
        expect = ["outer", "inner"]
    else:
        b_done = threading.Event()
        sa = NDS("A", wait_for=b_done).Select("lambda e: e.x")  # started first, finishes only after B has finished
        sb = NDS("B", then_set=b_done).Select("lambda e: e.y")
        started = threading.Event()

        def run_a():
            async def main():
                started.set()
                return sa.value(title="a")
            out["a"] = asyncio.run(main())

        def run_b():
            started.wait(10)
            time.sleep(0.05)

            async def main():
                return sb.value(title="b")
            out["b"] = asyncio.run(main())
        ths = [threading.Thread(target=run_a, daemon=True), threading.Thread(target=run_b, daemon=True)]
        expect = ["A", "B"]
    for t in ths:
        t.start()
    for t in ths:
        t.join(45)
    ctx.case(f"nested:{variant}", True)
    ctx.count("nested-execution-scenarios")
    entered = [n for ev, n, _ in log if ev == "enter"]
    w = {"scenario": "nested", "variant": variant}
    if any(t.is_alive() for t in ths):
        ctx.violation("nested-execution-never-completed", f"{variant}: value() did not return within 45 s; executors entered: {entered}, expected {expect} once each", w)
        from ..core import AbortShard

        raise AbortShard()  # (a thread of the library is stuck for good: nothing that follows in this process could be trusted)
    if sorted(entered) != sorted(expect):
        ctx.violation("nested-execution:executor-calls-differ", f"{variant}: executors entered {entered}, expected {expect} once each", w)
        return
    if variant in ("plain", "in-loop"):
        leaves = {n: r for ev, n, r in log if ev == "leave"}
        r = out.get("r")
        if not (isinstance(r, tuple) and len(r) == 2 and r is leaves.get("outer") and r[1] is leaves.get("inner")):
            ctx.violation("nested-execution:result-identity", f"{variant}: value() returned {r!r}, the executors returned {leaves!r}", w)


def shard_main(ctx):
    if ctx.shard == 0:
        rootless(ctx)
    if ctx.shard in (0, 5, 9):
        for variant in ("plain", "in-loop", "two-loops-opposite-order"):
            nested_scenario(ctx, variant)
    maxn_all = 3 if ctx.tier == "quick" else 4
    # all completion orders, spread over shards
    all_orders = [(n, p) for n in range(1, maxn_all + 1) for p in itertools.permutations(range(n))]
    for j, (n, p) in enumerate(all_orders):
        if j % ctx.nshards == ctx.shard % ctx.nshards or ctx.tier == "thorough":
            for rep in range(2 if ctx.tier == "quick" else 3):
                concurrent_scenario(ctx, (ctx.seed * 1000 + ctx.shard) * 1009 + j * 7 + rep, n, p, between=bool(rep % 2))
    rnd = random.Random(ctx.seed * 31 + ctx.shard)
    for i in range(N_CASES[ctx.tier]):
        if ctx.out_of_time():
            ctx.count("stopped-by-time-budget")
            break
        hseed = (ctx.seed * 1000 + ctx.shard) * 100003 + i + 12
        sync_history(ctx, hseed, random.Random(hseed).randint(15, 60))
        n = rnd.randint(4, 7)
        p = list(range(n))
        rnd.shuffle(p)
        concurrent_scenario(ctx, hseed + 1, n, tuple(p), between=rnd.random() < 0.5)
        if i % 2 == 0:
            threaded_scenario(ctx, hseed + 2, rnd.randint(2, 8))
    ctx.notes["orders_seen"] = len(ctx.notes.get("orders_seen", ()))
    ctx.notes["thread_interleavings"] = len(ctx.notes.get("thread_interleavings", ()))
    ctx.count("distinct-completion-orders-this-shard", ctx.notes["orders_seen"])
    ctx.count("distinct-thread-interleaving-signatures-this-shard", ctx.notes["thread_interleavings"])


def replay(ctx, witness):
    sc = witness.get("scenario")
    if sc == "sync":
        sync_history(ctx, witness["hist_seed"], witness["nsteps"])
    elif sc == "concurrent":
        concurrent_scenario(ctx, witness["hist_seed"], witness["n"], tuple(witness["order"]), witness["between"])
    elif sc == "threads":
        threaded_scenario(ctx, witness["hist_seed"], witness["nthreads"])
    elif sc == "nested":
        nested_scenario(ctx, witness["variant"])
    else:
        rootless(ctx)
