"""C06 - comprehension and data-class sugar lowers to equivalent queries (DESIGN.md section 4, C06)."""
import ast
import dataclasses
import inspect
import random
import typing

from .. import astx, modgen, probe
from ..astx import C, N, attr
from ..core import REPO
from ..gen_expr import dataset
from ..refeval import Seq, evaluate, norm

N_CASES = {"quick": 600, "thorough": 300000}
TIME_BUDGET = {"quick": 60, "thorough": 270}
META = {
    "rule": "(A) generated single-for list comprehensions and generator expressions with 0-4 if clauses, nested in element / iterable / "
    "condition position (depth <= 3) and inside operator lambdas, targets colliding with the enclosing lambda's parameter or another "
    "target; python's own value of the comprehension on concrete data vs the reference interpreter's value of the AST produced by "
    "resolve_syntatic_sugar and by Select/Where/SelectMany in string and callable mode; no ListComp/GeneratorExp may remain; (B) "
    "dataclass (incl. field(init=False) and kw_only fields, whose field list differs from the signature) and NamedTuple constructor calls "
    "with 1-5 fields, with and without defaults, every positional/keyword split and keyword "
    "order: the lowered node must be an ast.Dict whose keys/values equal inspect.signature(cls).bind(...).arguments, field access on it "
    "must evaluate to what attribute access on the real instance gives; surplus / unknown arguments, tuple targets and async "
    "comprehensions must raise ValueError; distinct by text; non-trivial = >= 2 if clauses or nesting or a name collision (A), >= 2 "
    "fields with a keyword out of declaration order (B)",
    "assumptions": [
        "multi-for comprehensions are outside the property; missing required fields are not judged",
        "module globals are disjoint from comprehension targets (the collision case is C04's)",
    ],
    "floor_evaluations": {"quick": 4000, "thorough": 100000},
    "floor_nontrivial": {"quick": 1200, "thorough": 30000},
    "threads": 3,
    "anchors": ["func_adl/ast/syntatic_sugar.py", "func_adl/object_stream.py", "func_adl/util_ast.py"],
}


class CompGen:
    def __init__(self, rnd):
        self.r = rnd
        self.k = 0
        self.feats = set()

    def target(self, env):
        self.k += 1
        r = self.r
        if env and r.random() < 0.3:
            self.feats.add("target-collides")
            return r.choice(sorted(env))
        return r.choice(["j", "t", "k", f"v{self.k}"])

    def num(self, env, d):
        """numeric expression over env {name: cls}"""
        r = self.r
        name = r.choice(sorted(env))
        cls = env[name]
        a = {"Event": ["x", "y", "met"], "Jet": ["x", "pt", "eta"], "Trk": ["x", "pt", "q"]}[cls]
        k = r.random()
        if d <= 0 or k < 0.5:
            return f"{name}.{r.choice(a)}"
        if k < 0.7:
            return f"({self.num(env, d - 1)} + {self.num(env, d - 1)})"
        if k < 0.85:
            c = self.comp(env, d - 1, kind="list")
            if c:
                self.feats.add("nested-in-element-or-condition")
                return f"len({c})"
        return f"{name}.{r.choice(a)} * 2"

    def cond(self, env, d):
        return f"{self.num(env, d)} {self.r.choice(['>', '<', '!=', '>='])} {self.r.choice(['3', '30', self.num(env, 0)])}"

    def comp(self, env, d, kind=None):
        """comprehension text over env, or None when no collection is reachable"""
        r = self.r
        colls = [(n, c) for n, c in env.items() if c in ("Event", "Jet")]
        if not colls:
            return None
        name, cls = r.choice(colls)
        cname, elem = r.choice({"Event": [("jets", "Jet"), ("trks", "Trk")], "Jet": [("trks", "Trk")]}[cls])
        it = f"{name}.{cname}"
        if d > 0 and r.random() < 0.25:
            # nested comprehension as the iterable
            t0 = self.target({})
            self.feats.add("nested-in-iterable")
            it = f"[{t0} for {t0} in {it} if {self.cond({**env, t0: elem}, 0)}]"
        t = self.target(env)
        inner = dict(env)
        inner[t] = elem
        nifs = r.choice([0, 0, 1, 1, 2, 3, 4])
        if nifs >= 2:
            self.feats.add("multiple-ifs")
        ifs = "".join(f" if {self.cond(inner, d - 1)}" for _ in range(nifs))
        if elem == "Jet" and r.random() < 0.3:
            # an earlier clause guards a partial operation in a later one: clause order is observable
            self.feats.add("guarded-partial-condition")
            ifs += f" if len({t}.trks) > 0 if {t}.trks[0].pt > {r.choice([1, 50, 100])}"
        k = r.random()
        if d > 0 and k < 0.3 and elem == "Jet":
            self.feats.add("nested-in-element-or-condition")
            elt = self.comp(inner, d - 1, kind="list") or self.num(inner, d - 1)
        elif k < 0.5:
            elt = f"({self.num(inner, d - 1)}, {self.num(inner, d - 1)})"
        elif k < 0.6:
            elt = t
        else:
            elt = self.num(inner, d - 1)
        kind = kind or r.choice(["list", "list", "gen"])
        if kind == "gen":
            self.feats.add("generator-expression")
            return f"({elt} for {t} in {it}{ifs})"
        return f"[{elt} for {t} in {it}{ifs}]"


def pyvalue(text, data_event, extra=None):
    try:
        return ("ok", norm(eval(text, {"__builtins__": {"len": len}, "j": 5, "t": 7, "k": 9, **(extra or {})})(data_event)))
    except Exception as e:
        return ("pyerr", f"{type(e).__name__}: {e}")


def has_comp(a):
    return any(isinstance(n, (ast.ListComp, ast.GeneratorExp)) for n in astx.walk_nodes(a))


def judge_comp(ctx, text, feats, data, how, lowered, extra=None):
    """text = 'lambda e: <expr>'; lowered = the ast.Lambda after the library's lowering"""
    key = f"{how}|{text}"
    nt = bool(feats)
    ctx.case(key, nt)
    ctx.count("how:" + how)
    witness = {"lambda": text, "how": how}
    if has_comp(lowered):
        ctx.violation("comprehension-not-lowered", f"{how}: {text} still holds a comprehension: {astx.unparse(lowered)[:200]}", witness)
        return
    for ev in data:
        exp = pyvalue(text, ev, extra)
        if exp[0] != "ok":
            ctx.count("trivial:python-side-raised")
            continue
        # lowered lambda applied to the event: evaluate Call(lowered, [ev]) with the reference interpreter
        call = ast.Call(func=lowered, args=[N("__ev")], keywords=[])
        got = evaluate(call, [], {"__ev": ev, "len": len})
        if got != exp:
            ctx.violation("lowered-comprehension-differs", f"{how}: {text}: python computes {str(exp)[:160]}, lowered {astx.unparse(lowered)[:200]} computes {str(got)[:160]}", witness)
            return
    ctx.count("obligation:value-equal")
    if len(ctx.samples) < 4 and nt and ctx.rnd.random() < 0.01:
        ctx.sample({"lambda": text, "lowered": astx.unparse(lowered), "how": how})


def comp_cases(ctx, rnd, n):
    from func_adl import EventDataset
    from func_adl.ast.syntatic_sugar import resolve_syntatic_sugar

    class DS(EventDataset):
        async def execute_result_async(self, a, title=None):
            return a

    ds = DS()
    data = dataset(rnd, 3, 3) + dataset(rnd, 1, 0)
    batch = []
    for i in range(n):
        g = CompGen(rnd)
        p = rnd.choice(["e", "e", "j", "evt"])
        c = g.comp({p: "Event"}, rnd.randint(0, 3))
        wrap = rnd.random()
        if wrap < 0.6:
            body = c
        elif wrap < 0.8:
            body = f"({c}, {p}.met)"
        else:
            body = f"len({c.replace('(', '[', 1)[:-1] + ']' if c.startswith('(') else c}) + {p}.x"
        text = f"lambda {p}: {body}"
        try:
            tree = astx.parse_expr(text)
        except SyntaxError:
            ctx.count("harness:syntax-error")
            continue
        # direct
        try:
            low = resolve_syntatic_sugar(astx.clone(tree))
            judge_comp(ctx, text, g.feats, data, "resolve_syntatic_sugar", low)
        except Exception as e:
            ctx.case("direct|" + text, True)
            ctx.violation(f"exc:{type(e).__name__}:resolve_syntatic_sugar", f"{text}: {type(e).__name__}: {str(e)[:160]}", {"lambda": text, "how": "resolve_syntatic_sugar"})
        # through an operator (string supply)
        try:
            s = ds.Select(text)
            judge_comp(ctx, text, g.feats, data, "Select(string)", s.query_ast.args[1])
        except Exception as e:
            ctx.case("select|" + text, True)
            ctx.violation(f"exc:{type(e).__name__}:Select", f"{text}: {type(e).__name__}: {str(e)[:160]}", {"lambda": text, "how": "Select(string)"})
        if i % 4 == 0:
            batch.append((text, set(g.feats)))
    # callable supply from a generated file; the module also has globals named like comprehension targets, used outside
    # the comprehension (captured) while the same names inside it are the loop variables
    GLOB = {"j": 5, "t": 7, "k": 9}
    batch2 = []
    for t, feats in batch:
        if rnd.random() < 0.5:
            g = rnd.choice(sorted(GLOB))
            p = t.split(":")[0].replace("lambda", "").strip()
            if p != g:
                body = t.split(":", 1)[1].strip()
                t = f"lambda {p}: ({body}, {g} + 1)" if rnd.random() < 0.5 else f"lambda {p}: ({g} * 2, {body})"
                feats = set(feats) | {"captured-global-named-like-a-target"}
        batch2.append((t, feats))
    batch = batch2
    # one-line helpers whose body is a comprehension over the helper's own parameter (the loop variable may re-use the parameter's
    # name: python evaluates the first iterable in the enclosing scope), called from comprehensions / nested lambdas
    helpers, hsrc = [], ""
    for hi in range(3):
        hp = rnd.choice(["jet", "j", "t", "a", "q"])
        hg = CompGen(rnd)
        hg.target = lambda env, hp=hp, hg=hg: hp if rnd.random() < 0.6 else rnd.choice(["j", "t", "k", "w"])  # noqa
        hbody = hg.comp({hp: "Jet"}, rnd.randint(0, 1), kind="list")
        hsrc += f"def hc{hi}({hp}): return {hbody}\n"
        helpers.append(f"hc{hi}")
    # "let"-style helpers: the body is a called lambda whose own arguments are constants, with a comprehension inside that binds a
    # name the CALL SITE's arguments use and reads the helper's parameters (two nested inlinings, closure-style use of the outer one)
    for hi in range(2):
        tv = rnd.choice(["j", "q", "t", "jet"])
        hsrc += f"def hl{hi}(a, f): return (lambda s: [{tv}.pt * s + f for {tv} in a.trks if {tv}.x > 0])({hi + 2})\n"
        v = rnd.choice(["j", "q", "jet", "t"])
        form = rnd.choice([f"lambda e: [hl{hi}({v}, {v}.pt) for {v} in e.jets]", f"lambda e: e.jets.Select(lambda {v}: hl{hi}({v}, {v}.eta + e.met))", f"lambda e: [(lambda w: hl{hi}(w, {v}.x))({v}) for {v} in e.jets]"])
        batch.append((form, {"let-style-helper-with-comprehension"}))
        helpers.append(f"hl{hi}")
    # two levels: a helper whose parameter (often) carries the name of the loop variable of a comprehension one scope further in -
    # inside a second helper, a second called lambda, an operator lambda
    for hi in range(2):
        tv = rnd.choice(["j", "q", "t"])
        hp = tv if rnd.random() < 0.7 else rnd.choice(["j", "q", "t", "a"])
        hsrc += f"def ht{hi}(trks, k): return [{tv}.pt * k for {tv} in trks if {tv}.x >= 0]\n"
        hsrc += f"def ho{hi}({hp}): return ht{hi}({hp}.trks, {hi + 2})\n"
        helpers += [f"ht{hi}", f"ho{hi}"]
        v = rnd.choice(["j", "q", "t", "x"])
        form = rnd.choice([f"lambda e: ho{hi}(e.jets[0])", f"lambda e: e.jets.Select(lambda {v}: ho{hi}({v}))", f"lambda e: [ho{hi}({v}) for {v} in e.jets]",
                           f"lambda e: e.jets.Select(lambda x: (lambda {hp}: (lambda ts: [{tv}.pt + x.pt for {tv} in ts])({hp}.trks))(x))",
                           f"lambda e: (lambda {hp}: e.jets.Select(lambda w: [{tv}.pt + w.pt + {hp}.pt * 0 for {tv} in w.trks]))(e.jets[0])" if hp != tv else
                           f"lambda e: (lambda {hp}: e.jets.Select(lambda w: [{tv}.pt + w.pt for {tv} in w.trks]))(e.jets[0])"])
        batch.append((form, {"comprehension-two-scopes-below-a-parameter-of-its-loop-variable's-name" if hp == tv else "two-level-helper-with-comprehension"}))
    for hi, hname in enumerate(helpers[:3]):
        v = rnd.choice(["j", "q", "jet", "t"])
        form = rnd.choice([f"lambda e: [{hname}({v}) for {v} in e.jets]", f"lambda e: e.jets.Select(lambda {v}: {hname}({v}))", f"lambda e: [({v}.pt, {hname}({v})) for {v} in e.jets if len({hname}({v})) >= 0]", f"lambda e: {hname}(e.jets[0])"])
        batch.append((form, {"helper-with-comprehension-over-its-parameter"}))
    src = modgen.DS_HEADER + "j = 5\nt = 7\nk = 9\n" + hsrc + "".join(f"def c{i}(ds):\n    return ds.Select({t})\n" for i, (t, _) in enumerate(batch))
    try:
        m = modgen.load(src, "c06")
    except SyntaxError:
        ctx.count("harness:generated-module-syntax-error")
        return
    mds = m.DS()
    for i, (t, feats) in enumerate(batch):
        try:
            s = getattr(m, f"c{i}")(mds)
            judge_comp(ctx, t, feats, data, "Select(callable)", s.query_ast.args[1], {h: getattr(m, h) for h in helpers})
        except Exception as e:
            ctx.case("callable|" + t, True)
            ctx.violation(f"exc:{type(e).__name__}:Select-callable", f"{t}: {type(e).__name__}: {str(e)[:160]}", {"lambda": t, "how": "Select(callable)"})
    modgen.unload(m)


def malformed_comps(ctx):
    from func_adl.ast.syntatic_sugar import resolve_syntatic_sugar

    cases = [("tuple target", astx.parse_expr("lambda e: [a + b for a, b in e.pairs]")), ("tuple target in generator", astx.parse_expr("lambda e: f(a for (a, b) in e.pairs)"))]
    an = astx.parse_expr("lambda e: [j.pt for j in e.jets]")
    an.body.generators[0].is_async = 1
    cases.append(("async comprehension", an))
    for desc, tree in cases:
        ctx.case("malformed:" + desc, True)
        try:
            r = resolve_syntatic_sugar(tree)
            ctx.violation("malformed-comprehension-accepted", f"{desc}: accepted, gave {astx.unparse(r)[:160]}", {"malformed": desc})
        except ValueError:
            ctx.count("malformed-refused")
        except Exception as e:
            ctx.violation(f"malformed-comprehension:{type(e).__name__}", f"{desc}: {type(e).__name__}: {e}", {"malformed": desc})


# ---- (B) constructors --------------------------------------------------------------------


import enum as _enum


class _Quality(_enum.IntEnum):
    LOOSE = 1
    TIGHT = 2


class _Mode(str, _enum.Enum):
    FAST = "fast"


class _GeV(float):
    pass


def odd_default(rnd, j):
    """defaults a field may well have: now and then a value whose type is a subclass of a plain type (an IntEnum member, a
    (str, Enum) member, a float subclass) - sent as the plain value"""
    if rnd.random() < 0.25:
        return rnd.choice([_Quality.TIGHT, _Mode.FAST, _GeV(j + 0.5), True, "s"])
    return float(j)


def plain_default(v):
    for t, conv in ((bool, None), (int, int.__int__), (float, float.__float__), (str, str.__str__)):
        if isinstance(v, t):
            return v if conv is None or type(v) is t else conv(v)
    return v


def make_class(rnd, i):
    nf = rnd.randint(1, 5)
    names = rnd.sample(["a", "b", "c", "d", "pt", "eta", "n"], nf)
    ndef = rnd.randint(0, nf)
    kind = rnd.choice(["dataclass", "namedtuple"])
    if kind == "dataclass":
        fields = [(n, float) if j < nf - ndef else (n, float, dataclasses.field(default=odd_default(rnd, j))) for j, n in enumerate(names)]
        flavour = rnd.random()
        if flavour < 0.25:
            # a field that is not a constructor parameter, in the middle / at the end of the field list
            pos = rnd.randint(0, len(fields))
            fields.insert(pos, ("derived_", float, dataclasses.field(init=False, default=0.0)))
            if pos < nf - ndef:
                fields = [f if len(f) == 3 else (f[0], f[1], dataclasses.field(default=1.5)) if k > pos else f for k, f in enumerate(fields)]
                ndef = sum(1 for f in fields if len(f) == 3 and f[0] != "derived_")
        if 0.4 <= flavour < 0.55:
            # an InitVar pseudo-field: a constructor parameter that dataclasses.fields() does not list, anywhere in the field list
            pos = rnd.randint(0, len(fields))
            iv = ("scale_", dataclasses.InitVar[float]) if pos < nf - ndef else ("scale_", dataclasses.InitVar[float], dataclasses.field(default=7.0))
            fields.insert(pos, iv)
            cls = dataclasses.make_dataclass(f"DC{i}", fields)
            return cls, names[:pos] + ["scale_"] + names[pos:], ndef + (1 if len(iv) == 3 else 0), "dataclass-initvar"
        if 0.55 <= flavour < 0.75 and nf >= 2:
            # a record class deriving from another record class and adding fields; the base is used in a query of its own first
            # (or afterwards): what is known about one class of a family is not what is true of the other
            k = rnd.randint(1, nf - 1)
            base = dataclasses.make_dataclass(f"DCBase{i}", fields[:k])
            cls = dataclasses.make_dataclass(f"DC{i}", fields[k:], bases=(base,))
            cls._verif_relative = base
            return cls, names, ndef, "dataclass-derived"
        cls = dataclasses.make_dataclass(f"DC{i}", fields)
        if 0.25 <= flavour < 0.4 and nf >= 2:
            # keyword-only field declared first: signature order differs from field order
            kwf = names[0]
            rest = [(n, float, dataclasses.field(default=float(j))) for j, n in enumerate(names[1:])]
            cls = dataclasses.make_dataclass(f"DC{i}", [(kwf, float, dataclasses.field(default=9.0, kw_only=True))] + rest)
            names = names[1:] + [kwf]
            ndef = nf
            return cls, names[:-1], ndef - 1, "dataclass-kwonly:" + kwf
    else:
        ns = {"__annotations__": {n: float for n in names}}
        for j, n in enumerate(names):
            if j >= nf - ndef:
                ns[n] = float(j)
        cls = typing.NamedTuple(f"NT{i}", [(n, float) for n in names])
        if ndef:
            cls = type(cls)  # placeholder, replaced below
            import collections

            dflts = [odd_default(rnd, j) for j in range(nf - ndef, nf)]
            k_nt = rnd.random()
            if k_nt < 0.3:
                # the way a namedtuple was given defaults before it had a parameter for them (_field_defaults knows nothing of it)
                cls = collections.namedtuple(f"NT{i}", names)
                cls.__new__.__defaults__ = tuple(dflts)
                kind = "namedtuple-defaults-on-__new__"
            elif k_nt < 0.45:
                # made with defaults=, then given OTHERS the old way (other values, and for every field: _field_defaults names stale
                # values, and defaults for fields the constructor no longer has one for)
                cls = collections.namedtuple(f"NT{i}", names, defaults=[-(j + 40.5) for j in range(nf)])
                cls.__new__.__defaults__ = tuple(dflts)
                kind = "namedtuple-defaults-replaced-on-__new__"
            else:
                cls = collections.namedtuple(f"NT{i}", names, defaults=dflts)
        if rnd.random() < 0.3:
            # the usual idiom: a class deriving from the generated tuple class (to add methods / a docstring)
            cls = type(f"NTSub{i}", (cls,), {"__slots__": (), "describe": lambda self: "x"})
            kind = "namedtuple-subclass"
    return cls, names, ndef, kind


def ctor_case(ctx, rnd, i, made=None):
    from func_adl.ast.syntatic_sugar import resolve_syntatic_sugar

    if made is None:
        made = make_class(rnd, i)
        if rnd.random() < 0.4:
            # history: the SAME record class is constructed again, in another query with another split of its arguments (what one
            # call gave by keyword the next leaves to its default)
            ctx.count("ctor-same-class-constructed-again")
            ctor_case(ctx, rnd, i, made)
    cls, names, ndef, kind = made
    rel = getattr(cls, "_verif_relative", None)
    if rel is not None:
        # history: the other class of the family goes through the lowering first (half of the time: the derived one first)
        first, second = (rel, cls) if rnd.random() < 0.6 else (cls, rel)
        try:
            n_req = sum(1 for p_ in inspect.signature(first).parameters.values() if p_.default is p_.empty)
            resolve_syntatic_sugar(astx.lam(["e"], ast.Call(func=ast.Constant(value=first), args=[astx.parse_expr(f"e.w{j}") for j in range(n_req)], keywords=[])))
        except ValueError:
            pass
        ctx.count("ctor-family-history:" + ("base-first" if first is rel else "derived-first"))
        if second is rel:
            cls, names = rel, [f.name for f in dataclasses.fields(rel)]
            ndef = sum(1 for f in dataclasses.fields(rel) if f.default is not dataclasses.MISSING)
    kwonly = None
    if kind.startswith("dataclass-kwonly:"):
        kwonly = kind.split(":")[1]
        kind = "dataclass-kwonly"
    nf = len(names)
    npos = rnd.randint(0, nf)
    rest = names[npos:]
    kws = [n for n in rest if rnd.random() < 0.7]
    rnd.shuffle(kws)
    mal = rnd.random() < 0.2
    argexprs = {n: rnd.choice([f"e.x{j}", f"e.f({j})", f"(e.y, {j})", f"e.jets.Select(lambda j: j.pt + {j})"]) for j, n in enumerate(names)}
    pos = [astx.parse_expr(argexprs[n]) for n in names[:npos]]
    kw = [(n, astx.parse_expr(argexprs[n])) for n in kws]
    if kwonly is not None and rnd.random() < 0.6:
        kw.append((kwonly, astx.parse_expr("e.kwonly")))
        rnd.shuffle(kw)
    how = "well-formed"
    if mal:
        how = rnd.choice(["surplus-positional", "unknown-keyword", "double-star-mapping", "given-twice", "starred-positional"])
        if how == "given-twice" and not (pos and kind != "dataclass-initvar"):
            how = "unknown-keyword"
        if how == "surplus-positional":
            pos = [astx.parse_expr(f"e.z{j}") for j in range(nf + 1)]
            kw = []
        elif how == "given-twice":
            # a field bound by position and again by keyword (python: "multiple values for argument"): a surplus argument
            kw = [(n, v) for n, v in kw if n != names[0]] + [(names[0], astx.parse_expr("e.again"))]
        elif how == "starred-positional":
            # C(*e.pair): which fields the spread values bind is only known when the query runs
            pos = [ast.Starred(value=astx.parse_expr("e.pair"), ctx=ast.Load())] + pos[1:]
        elif how == "double-star-mapping":
            # C(e.a, **e.rest): which fields the mapping binds cannot be known - an argument that is not one of the fields
            kw.append((None, astx.parse_expr("e.rest")))
        else:
            kw.append(("nosuchfield", astx.parse_expr("e.q")))
    call = ast.Call(func=ast.Constant(value=cls), args=[astx.clone(p) for p in pos], keywords=[ast.keyword(arg=n, value=astx.clone(v)) for n, v in kw])
    proj = rnd.choice([None, "attr", "sub"])
    text = f"{cls.__name__}({', '.join([astx.unparse(p) for p in pos] + [(f'{n}=' if n else '**') + astx.unparse(v) for n, v in kw])}) [{kind}, fields {names}, {ndef} defaults]"
    key = text
    out_of_order = [n for n, _ in kw] != [n for n in names if n in dict(kw)]
    nt = nf >= 2 and out_of_order
    ctx.case(key, nt)
    ctx.count("ctor:" + kind)
    witness = {"ctor": text}
    try:
        if any(n is None for n, _ in kw) or any(isinstance(p_, ast.Starred) for p_ in pos):
            raise TypeError("mapping / starred argument")
        bound = inspect.signature(cls).bind(*pos, **dict(kw))
        # python's constructor binds the fields the call leaves out to their defaults
        given = set(bound.arguments)
        bound.apply_defaults()
        for k in list(bound.arguments):
            if k not in given:
                bound.arguments[k] = ast.Constant(value=plain_default(bound.arguments[k]))
                ctx.count("ctor-fields-left-to-their-default")
        expect_error = False
    except TypeError:
        expect_error = True
    tree = astx.lam(["e"], call)
    try:
        low = resolve_syntatic_sugar(tree)
    except ValueError as e:
        if expect_error and mal:
            ctx.count("malformed-ctor-refused")
        elif expect_error:
            ctx.count("not-judged:python-also-rejects (missing required field)")
        else:
            ctx.violation("well-formed-constructor-refused", f"{text}: ValueError {str(e)[:160]}", witness)
        return
    except Exception as e:
        ctx.violation(f"ctor-exc:{type(e).__name__}", f"{text}: {type(e).__name__}: {str(e)[:160]}", witness)
        return
    if expect_error:
        if mal:
            ctx.violation(f"malformed-constructor-accepted:{how}", f"{text}: python's constructor rejects this call but it lowered to {astx.unparse(low)[:200]}", witness)
        else:
            ctx.count("not-judged:python-also-rejects (missing required field)")
        return
    d = low.body
    if not isinstance(d, ast.Dict):
        ctx.violation("constructor-not-lowered-to-dict", f"{text}: lowered to {astx.unparse(low)[:200]}", witness)
        return
    if len(d.keys) != len(d.values):
        ctx.violation("constructor-dict-malformed", f"{text}: lowered to a dictionary of {len(d.keys)} keys and {len(d.values)} values (keys {[getattr(k, 'value', '?') for k in d.keys]})", witness)
        return
    got_keys = [k.value if isinstance(k, ast.Constant) else "<non-constant>" for k in d.keys]
    exp_keys = list(bound.arguments.keys())
    if kind == "dataclass-initvar":
        # the pseudo-field is a constructor parameter but not a field: whether it shows up as a key is not judged, the binding
        # of every real field is
        keep = [(k, v) for k, v in zip(got_keys, d.values) if k != "scale_"]
        got_keys, d = [k for k, _ in keep], ast.Dict(keys=[ast.Constant(value=k) for k, _ in keep], values=[v for _, v in keep])
        exp_keys = [k for k in exp_keys if k != "scale_"]
    # fields the constructor takes no argument for (field(init=False, default=..)): every instance python makes has them, with
    # their default value - after the constructor's own parameters, in any order
    extra = {f.name: f.default for f in dataclasses.fields(cls) if not f.init and f.default is not dataclasses.MISSING} if dataclasses.is_dataclass(cls) else {}
    if got_keys[:len(exp_keys)] != exp_keys or sorted(got_keys[len(exp_keys):]) != sorted(extra):
        ctx.violation("constructor-keys-differ", f"{text}: dict keys {got_keys}, python binds {exp_keys}" + (f" and gives every instance {sorted(extra)}" if extra else ""), witness)
        return
    for k, v in list(zip(got_keys, d.values))[len(exp_keys):]:
        ctx.count("ctor-fields-without-a-parameter-left-to-their-default")
        if not (isinstance(v, ast.Constant) and type(v.value) is type(plain_default(extra[k])) and v.value == plain_default(extra[k])):
            ctx.violation("constructor-field-bound-to-wrong-argument", f"{text}: field {k} (init=False) = {astx.unparse(v)}, python gives it {extra[k]!r}", witness)
            return
    for k, v in list(zip(got_keys, d.values))[:len(exp_keys)]:
        if not astx.struct_eq(v, bound.arguments[k]):
            ctx.violation("constructor-field-bound-to-wrong-argument", f"{text}: field {k} = {astx.unparse(v)}, python binds {astx.unparse(bound.arguments[k])}", witness)
            return
    ctx.count("obligation:ctor-binding-equal")


CTOR_FILE = modgen.DS_HEADER + '''
from dataclasses import dataclass
from typing import NamedTuple
# history: the names of the record classes were first given to functions registered for use in queries (a notebook cell rewritten):
# when the queries are built python finds the CLASSES under these names
from func_adl import func_adl_callable
@func_adl_callable()
def DC(a: float, b: float = 0.0) -> float: ...
@func_adl_callable()
def NT(a: float = -1.0, b: float = 0.5) -> float: ...
@dataclass
class DC:
    a: float
    b: float = 2.0
    c: float = 3.0
class NT(NamedTuple):
    a: float
    b: float
    c: float = 9.0
def k0(ds): return ds.Select(lambda e: DC(e.x, c=e.y).c)
def k1(ds): return ds.Select(lambda e: DC(b=e.y, a=e.x)['a'])
def k2(ds): return ds.Select(lambda e: NT(e.x, e.y).b)
def k3(ds): return ds.Select(lambda e: NT(c=e.met, b=e.y, a=e.x)).Select(lambda r: r.c + r.a)
def k4(ds): return ds.Select(lambda e: [DC(j.pt, b=j.eta) for j in e.jets if j.pt > 3]).Select(lambda rs: rs.Select(lambda r: r.b))
def k5(ds): return ds.Select(lambda e: DC(e.x, e.y, e.met, e.x))
def k6(ds): return ds.Select(lambda e: NT(e.x, e.y, zz=e.met))
# the record classes reached another way than by their bare name: through a captured instance that holds them (a namespace object,
# an instance of a class with the record class as class attribute), through an enclosing class, through the module
import types as _types
import sys as _sys
NSP = _types.SimpleNamespace(DC=DC, NT=NT)
class Holder:
    DC = DC
    NT = NT
HOLD = Holder()
def k7(ds): return ds.Select(lambda e: NSP.DC(e.x, c=e.y).c + NSP.NT(e.x, e.y).b)
def k8(ds): return ds.Select(lambda e: Holder.DC(b=e.y, a=e.x)['a'] + HOLD.NT(e.x, b=e.y).c)
# a record built with KEYWORD fields, handed to a helper / a called lambda that uses its parameter twice (the constructor call then
# stands at two places of the query)
def both_c06(r): return (r.a + r.b, r.b)
def k9(ds): return ds.Select(lambda e: both_c06(DC(b=e.y, a=e.x)))
def k10(ds): return ds.Select(lambda e: (lambda r: r.c + r.a + r.c)(NT(c=e.met, b=e.y, a=e.x)))
def p9(): return lambda e: both_c06(DC(b=e.y, a=e.x))
def p10(): return lambda e: (lambda r: r.c + r.a + r.c)(NT(c=e.met, b=e.y, a=e.x))
def p7(): return lambda e: NSP.DC(e.x, c=e.y).c + NSP.NT(e.x, e.y).b
def p8(): return lambda e: Holder.DC(b=e.y, a=e.x).a + HOLD.NT(e.x, b=e.y).c
def p0(): return lambda e: DC(e.x, c=e.y).c
def p1(): return lambda e: DC(b=e.y, a=e.x).a
def p2(): return lambda e: NT(e.x, e.y).b
def p3(): return lambda e: (lambda r: r.c + r.a)(NT(c=e.met, b=e.y, a=e.x))
def p4(): return lambda e: [r.b for r in [DC(j.pt, b=j.eta) for j in e.jets if j.pt > 3]]
'''


def ctor_through_operators(ctx, rnd):
    """field access on the lowered dictionary gives what attribute access on the real instance gives"""
    from func_adl.ast.function_simplifier import simplify_chained_calls

    m = modgen.load(CTOR_FILE, "c06k")
    data = dataset(rnd, 3, 3)
    for i in (0, 1, 2, 3, 4, 7, 8, 9, 10):
        ctx.case(f"ctor-operator:k{i}", True)
        pyf = getattr(m, f"p{i}")()
        try:
            s = getattr(m, f"k{i}")(m.DS())
        except Exception as e:
            ctx.violation(f"ctor-operator-exc:{type(e).__name__}", f"k{i}: {type(e).__name__}: {str(e)[:200]}", {"ctor_file": i})
            continue
        got = evaluate(s.query_ast, data, {})
        try:
            exp = ("ok", norm([pyf(ev) for ev in data]))
        except Exception as e:
            exp = ("pyerr", str(e))
        if got != exp:
            ctx.violation("constructor-field-access-differs", f"k{i}: python gives {str(exp)[:200]}, the query {astx.unparse(s.query_ast)[:200]} gives {str(got)[:200]}", {"ctor_file": i})
        else:
            ctx.count("obligation:ctor-field-access-equal")
    for i in (5, 6):
        ctx.case(f"ctor-operator:k{i}", True)
        try:
            s = getattr(m, f"k{i}")(m.DS())
            ctx.violation("malformed-constructor-accepted:operator", f"k{i} accepted: {astx.unparse(s.query_ast)[:200]}", {"ctor_file": i})
        except ValueError:
            ctx.count("malformed-ctor-refused")
        except Exception as e:
            ctx.violation(f"ctor-operator-exc:{type(e).__name__}", f"k{i}: {type(e).__name__}: {str(e)[:200]}", {"ctor_file": i})
    modgen.unload(m)
    from func_adl import type_based_replacement as _tbr

    for name in ("DC", "NT"):
        _tbr._global_functions.pop(name, None)


def shard_main(ctx):
    if ctx.shard == 0:
        malformed_comps(ctx)
        ctor_through_operators(ctx, random.Random(6))
    n = N_CASES[ctx.tier]
    done = 0
    while done < n and not ctx.out_of_time():
        rnd = random.Random((ctx.seed * 1000 + ctx.shard) * 100003 + done + 6)
        comp_cases(ctx, rnd, 40)
        for i in range(60):
            ctor_case(ctx, rnd, done + i)
        done += 40
    modgen.cleanup()


def replay(ctx, witness):
    from func_adl.ast.syntatic_sugar import resolve_syntatic_sugar

    if "lambda" in witness:
        rnd = random.Random(1)
        data = dataset(rnd, 3, 3)
        low = resolve_syntatic_sugar(astx.parse_expr(witness["lambda"]))
        judge_comp(ctx, witness["lambda"], {"replay"}, data, "resolve_syntatic_sugar", low)
    elif "malformed" in witness:
        malformed_comps(ctx)
    elif "ctor_file" in witness:
        ctor_through_operators(ctx, random.Random(6))
        modgen.cleanup()
    else:
        for i in range(3000):
            ctor_case(ctx, random.Random(i), i)
