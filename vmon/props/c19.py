"""C19 - aggregate shortcuts lower to equivalent folds (DESIGN.md section 4, C19)."""
import ast
import itertools
import random

from .. import astx, refimpl
from ..astx import C, N, attr, call, lam
from ..core import CaseTimeout, case_timeout
from ..refeval import evaluate_raw

N_CASES = {"quick": 1000, "thorough": 375000}
TIME_BUDGET = {"quick": 60, "thorough": 270}
META = {
    "rule": "generated expressions with len/Count/Sum/Max/Min as: calls with 0,1,2 positional arguments, with keywords, "
    "with starred arguments, as methods (x.Sum()), nested in each other's argument, inside lambdas and operator "
    "arguments, as bare references, shadowed by a lambda parameter; oracle 1 = independent reference rewriter "
    "(struct_eq), oracle 2 = every produced Aggregate evaluated by the reference interpreter on integer sequences "
    "(empty, singletons, negatives, duplicates, len<=6) against python len/sum/max([0]+s)/min([0]+s); distinct by "
    "dump of input; non-trivial = contains a shortcut call that must be rewritten AND a same-named node that must not",
    "assumptions": [
        "a call that carries keywords or starred arguments next to exactly one positional argument is not judged either way "
        "(the statement speaks of len(seq)... and of 'another argument count'); such programs are generated but only required not to crash",
    ],
    "floor_evaluations": {"quick": 2000, "thorough": 20000},
    "floor_nontrivial": {"quick": 400, "thorough": 4000},
    "threads": 3,
    "anchors": ["func_adl/ast/aggregate_shortcuts.py"],
}
NAMES = ["len", "Count", "Sum", "Max", "Min"]
SEQS = [[], [0], [5], [-3], [1, 2, 3], [-1, -2], [3, 3, 3], [-5, 0, 5], [2, -7, 4, -7, 9, 1], [0, 0], [7, -1]]
PYREF = {
    "len": len, "Count": len, "Sum": sum,
    "Max": lambda s: max([0] + list(s)), "Min": lambda s: min([0] + list(s)),
}


class G:
    def __init__(self, rnd):
        self.r = rnd
        self.must = 0
        self.mustnot = 0
        self.unjudged = False

    def seq(self, d):
        r = self.r
        ch = r.random()
        if d <= 0 or ch < 0.4:
            return r.choice([N("s"), attr(N("e"), "jets"), call("f", N("s"))])
        if ch < 0.5 and d > 0:
            # sequence arguments that are NOT calls but contain shortcuts: displays, conditionals, subscripts, binops, comprehensions
            k = r.randint(0, 4)
            if k == 0:
                return ast.List(elts=[self.shortcut(d - 1), self.num(d - 1)], ctx=ast.Load())
            if k == 1:
                return ast.IfExp(test=ast.Compare(left=self.shortcut(d - 1), ops=[ast.Gt()], comparators=[C(1)]), body=self.seq(d - 1), orelse=N("s"))
            if k == 2:
                return ast.Subscript(value=attr(N("e"), "colls"), slice=self.shortcut(d - 1), ctx=ast.Load())
            if k == 3:
                return ast.BinOp(left=self.seq(d - 1), op=ast.Add(), right=ast.List(elts=[self.shortcut(d - 1)], ctx=ast.Load()))
            return ast.ListComp(elt=self.shortcut(d - 1), generators=[ast.comprehension(target=ast.Name(id="t", ctx=ast.Store()), iter=N("s"), ifs=[], is_async=0)])
        if ch < 0.6:
            return call("Select", self.seq(d - 1), lam([r.choice(["j", "Sum", "v"])], self.num(d - 1)))
        if ch < 0.75:
            return call("Where", self.seq(d - 1), lam(["j"], ast.Compare(left=self.num(d - 1), ops=[ast.Gt()], comparators=[C(1)])))
        return ast.Call(func=attr(self.seq(d - 1), "Select"), args=[lam(["k"], self.num(d - 1))], keywords=[])

    def shortcut(self, d):
        r = self.r
        name = r.choice(NAMES)
        kind = r.random()
        if kind < 0.06:
            # a fold written by hand with the very parameter names the lowering uses, holding shortcuts itself
            self.must += 1
            return call("Aggregate", self.seq(d - 1), C(r.choice([0, 1])), lam(["acc", "v"], ast.BinOp(left=N("acc"), op=ast.Add(), right=call(r.choice(NAMES), N("v")))))
        if kind < 0.5:
            self.must += 1
            return call(name, self.seq(d - 1))
        if kind < 0.58:
            self.mustnot += 1
            return call(name)  # zero arguments
        if kind < 0.68:
            self.mustnot += 1
            return call(name, self.seq(d - 1), self.num(d - 1))
        if kind < 0.73:
            self.mustnot += 1
            return call(name, self.seq(d - 1), C(0), lam(["a", "b"], N("a")))
        if kind < 0.80:
            self.mustnot += 1
            return ast.Call(func=attr(self.seq(d - 1), name), args=[], keywords=[])  # method of the same name
        if kind < 0.85:
            self.mustnot += 1
            return call("g", N(name))  # bare reference
        if kind < 0.89:
            self.mustnot += 1
            return ast.Call(func=N(name), args=[], keywords=[ast.keyword(arg="seq", value=self.seq(d - 1))])
        if kind < 0.93:
            # one positional argument plus keywords: another argument count
            self.mustnot += 1
            return ast.Call(func=N(name), args=[self.seq(d - 1)], keywords=[ast.keyword(arg=r.choice(["key", "start", "default"]), value=self.num(d - 1))] + ([ast.keyword(arg=None, value=N("kw"))] if r.random() < 0.3 else []))
        if kind < 0.96:
            # a lone star-unpacking is not "one sequence"
            self.mustnot += 1
            return ast.Call(func=N(name), args=[ast.Starred(value=self.seq(d - 1), ctx=ast.Load())], keywords=[])
        self.mustnot += 1
        return ast.Call(func=attr(N("np"), name), args=[self.seq(d - 1)], keywords=[])  # np.Sum(x)

    def num(self, d):
        r = self.r
        ch = r.random()
        if d <= 0 or ch < 0.3:
            # (constants as the library itself creates them when it embeds captured values: nodes the parser never produces)
            return r.choice([C(1), attr(N("j"), "pt"), N("v"), attr(N("e"), "x"), C(-5), C(-2.5), C(1 + 2j), C((1, 2)), C(-0.0), C(10**30), C(b"x")])
        if ch < 0.75:
            return self.shortcut(d)
        if ch < 0.9:
            return ast.BinOp(left=self.num(d - 1), op=ast.Add(), right=self.num(d - 1))
        return ast.IfExp(test=ast.Compare(left=self.num(d - 1), ops=[ast.Lt()], comparators=[self.num(d - 1)]), body=self.num(d - 1), orelse=C(0))

    def top(self):
        r = self.r
        d = r.randint(1, 4)
        k = r.random()
        if k < 0.4:
            return self.num(d)
        if k < 0.7:
            return call("Select", call("EventDataset"), lam(["e"], self.num(d)))
        if k < 0.85:
            return lam([r.choice(["e", "Sum", "len"])], self.num(d))
        return ast.Tuple(elts=[self.num(d), self.shortcut(d)], ctx=ast.Load())


_SHARED = {}


def aggregates_in(out):
    """(name-guess, Aggregate node) for every Aggregate call with the (seq, 0, lambda) shape."""
    return [n for n in astx.walk_nodes(out) if isinstance(n, ast.Call) and isinstance(n.func, ast.Name) and n.func.id == "Aggregate" and len(n.args) == 3]


def judge(ctx, q, info, unjudged=False, must=0, mustnot=0):
    from func_adl.ast.aggregate_shortcuts import aggregate_node_transformer

    key = astx.dump_fields(q)
    witness = {"query": astx.unparse(q), "info": info, "unjudged": unjudged}
    try:
        # alternate between a fresh transformer and one instance shared by the whole shard (state kept between visits)
        tr = _SHARED.setdefault("tr", aggregate_node_transformer()) if ctx.evaluations % 2 else aggregate_node_transformer()
        out = tr.visit(astx.clone(q))
    except Exception as e:
        ctx.case(key, True)
        ctx.violation(f"exc:{type(e).__name__}", f"{type(e).__name__}: {e} | in: {witness['query'][:400]}", witness)
        return
    ctx.case(key, nontrivial=must > 0 and mustnot > 0)
    if unjudged:
        ctx.count("not-judged:keyword-or-starred-next-to-one-positional")
        return
    exp = refimpl.lower_aggregates(q)
    if not astx.struct_eq(out, exp):
        d = astx.first_diff(out, exp)
        ctx.violation("differs-from-reference-lowering", f"{d} | in: {witness['query'][:400]} | out: {astx.unparse(out)[:400]}", witness)
        return
    ctx.count("obligation:structure-equal")
    # lowering the result again must change nothing (everything that had to be lowered is already lowered)
    try:
        again = tr.visit(astx.clone(out))
        if not astx.struct_eq(again, refimpl.lower_aggregates(out)):
            ctx.violation("re-application-differs-from-reference", f"{astx.first_diff(again, refimpl.lower_aggregates(out))} | in: {witness['query'][:300]}", witness)
    except Exception as e:
        ctx.violation(f"exc-on-reapplication:{type(e).__name__}", f"{e} | in: {witness['query'][:300]}", witness)
    # trees that share OBJECTS below the call: what python's own `c2 = copy.copy(call); c2.args = [..]` idiom leaves behind (the func
    # Name is one object in both calls), a bare reference to the same Name next to them, one argument object under two calls
    import copy as _copy

    calls = [n for n in astx.walk_nodes(q) if isinstance(n, ast.Call) and isinstance(n.func, ast.Name) and n.func.id in refimpl.FOLDS]
    if calls and ctx.rnd.random() < 0.5:
        c1 = astx.clone(ctx.rnd.choice(calls))
        c2 = _copy.copy(c1)
        c2.args = [astx.N("other_seq")] if ctx.rnd.random() < 0.7 else [astx.N("a"), astx.N("b")]
        shared = ast.Tuple(elts=[c1, c2, c1.func, ast.Call(func=c1.func, args=[], keywords=[])], ctx=ast.Load())
        s_exp = refimpl.lower_aggregates(astx.clone(shared))
        ctx.count("inputs-sharing-objects-below-the-call")
        try:
            s_out = aggregate_node_transformer().visit(shared)
            if not astx.struct_eq(s_out, s_exp):
                ctx.violation("shared-objects-below-the-call-lowered-wrongly", f"{astx.first_diff(s_out, s_exp)} | in: ({astx.unparse(astx.clone(c1))[:120]}, <shallow copy with other arguments>, <its func name>, <a call of it without arguments>) | out: {astx.unparse(astx.clone(s_out))[:300]}", witness)
        except Exception as e:
            ctx.violation(f"exc-on-shared-objects:{type(e).__name__}", f"{e} | in: {witness['query'][:300]}", witness)
    if ctx.rnd.random() < 0.3:
        # history: the consumer goes on to edit what it got back, in place (keywords appended to calls, names changed ...): nothing
        # of that may show in what the transformer hands out for the next query
        from ..history import vandalise

        vandalise(out)
        ctx.count("results-edited-in-place-by-their-consumer")


def judge_folds(ctx):
    """Oracle 2: the folds the real transformer produces, evaluated on integer sequences."""
    from func_adl.ast.aggregate_shortcuts import aggregate_node_transformer

    for name in NAMES:
        for inner in ["s", "Select(s, lambda v: v)", "Where(s, lambda v: v > -100)"]:
            src = f"{name}({inner})"
            out = aggregate_node_transformer().visit(astx.parse_expr(src))
            for s in SEQS:
                exp = PYREF[name](s)
                key = f"fold:{src}:{s}"
                try:
                    from ..refeval import Seq

                    got = evaluate_raw(out, [], {"s": Seq(s)})
                except Exception as e:
                    got = f"<{type(e).__name__}: {e}>"
                ctx.case(key, True)
                ctx.count("obligation:fold-value")
                if got != exp or type(got) is not type(exp):
                    ctx.violation(f"fold-value:{name}", f"{src} on {s}: fold gives {got!r}, python gives {exp!r} | lowered: {astx.unparse(out)}", {"fold": src, "seq": s})
    # nested: Sum of Select of Count
    src = "Sum(Select(ss, lambda s: Count(s)))"
    out = aggregate_node_transformer().visit(astx.parse_expr(src))
    from ..refeval import Seq

    for ss in [[], [[]], [[1], [2, 3]], [[], [4, 5, 6], []]]:
        got = evaluate_raw(out, [], {"ss": Seq(Seq(x) for x in ss)})
        exp = sum(len(x) for x in ss)
        ctx.case(f"fold:{src}:{ss}", True)
        if got != exp:
            ctx.violation("fold-value:nested", f"{src} on {ss}: {got!r} != {exp!r}", {"fold": src, "seq": ss})


DIRECTED = [
    "Sum(a, b)", "Sum()", "Max()", "Min()", "len()", "Count()", "Max(a, b, c)", "x.Sum()", "x.len()", "f(Sum)", "Sum",
    "len(Select(jets, lambda j: Count(j.trks)))", "Select(s, lambda Sum: Sum(x))", "Sum(x, 0, lambda a, b: a)", "Aggregate(jets, 0, lambda acc, v: acc + len(v))", "Aggregate(jets, 0, lambda acc, v: acc + Sum(v.pts))", "Aggregate(Select(s, lambda j: Count(j.t)), 1, lambda acc, v: acc if acc > Max(v) else Min(v))", "Sum([Count(t) for t in ts])", "Max([Count(t), len(u)])", "Sum(a if Count(b) > 5 else b)", "Min(e.jets[Count(e.mu)].pt)", "Sum(x + [len(y)])", "Sum(len(t) for t in ts)",
    "Count(x, y)", "len(x, y)", "Sum(a, start=5)", "Max(a, default=len(b))", "Sum(*xs)", "Select(ds, lambda e: Sum(e.jets, start=e.offset))", "Count(a, **kw)", "Min(Max(Sum(x)))", "[Sum(x) for x in y]", "np.Sum(x)", "Sum(seq=x)",
]


def deep_chains(ctx):
    """scale boundary: chains built as ASTs, deeper than the interpreter's stack allows for the larger ones. A RecursionError is
    not judged; a transformer that RETURNS must have lowered every shortcut, also the one below the deep chain."""
    from func_adl.ast.aggregate_shortcuts import aggregate_node_transformer

    for n in (30, 120, 250, 400, 1200):
        inner = astx.parse_expr("Select(ds, lambda e: len(e.jets))")
        q = inner
        for i in range(n):
            q = ast.Call(func=ast.Name(id="Select", ctx=ast.Load()), args=[q, astx.parse_expr(f"lambda v{i % 5}: v{i % 5} + Count(v{i % 5}.more)" if i % 50 == 0 else f"lambda v{i % 5}: v{i % 5}")], keywords=[])
        q = ast.Call(func=ast.Name(id="Sum", ctx=ast.Load()), args=[q], keywords=[])
        ctx.case(f"deep-chain:{n}", True)
        try:
            out = aggregate_node_transformer().visit(q)
        except RecursionError:
            ctx.count(f"deep-chain:{n}:RecursionError (not judged)")
            continue
        except Exception as e:
            ctx.violation(f"deep-chain:exc:{type(e).__name__}", f"chain of {n} operators: {type(e).__name__}: {str(e)[:120]}", {"deep": n})
            continue
        left = sorted({x.func.id for x in ast.walk(out) if isinstance(x, ast.Call) and isinstance(x.func, ast.Name) and x.func.id in ("len", "Count", "Sum") and len(x.args) == 1 and not x.keywords})
        ctx.count(f"deep-chain:{n}:returned")
        if left:
            ctx.violation("deep-chain:shortcut-left-unlowered", f"chain of {n} operators: the transformer returned normally but left {left} un-lowered", {"deep": n})


def register_namesakes(ctx):
    """history: before this shard lowers anything, functions NAMED like the shortcuts are registered for use in queries, with a
    processor (as a user library does for its own Sum / Count): the lowering is unconditional all the same"""
    from func_adl import func_adl_callable

    def proc(s, a):
        return s, a

    ns = {"func_adl_callable": func_adl_callable, "proc": proc}
    for name in ("Sum", "Count", "Max", "Min"):
        exec(f"@func_adl_callable(proc)\ndef {name}(x: float) -> float: ...\n", ns)
    ctx.count("shortcut-names-registered-as-functions-with-a-processor", 4)


HALF_BUILT = ["len(a)", "f(a)", "Sum(Select(a, g))", "Count(a.jets) + Max(b)", "Select(ds, lambda e: Min(e.jets.Select(lambda j: j.pt)))", "g(len(a), k=Count(b))", "a.Count()", "Sum(f(a))", "g() + len(h())", "Select(a, lambda x: x.m()).Count()"]


def half_built(ctx):
    from func_adl.ast.aggregate_shortcuts import aggregate_node_transformer

    from ..history import half_built_calls

    half_built_calls(ctx, lambda t: aggregate_node_transformer().visit(t), HALF_BUILT, "aggregate_node_transformer")


def shard_main(ctx):
    if ctx.shard == 2 % ctx.nshards:
        half_built(ctx)
    if ctx.shard % 3 == 2:
        register_namesakes(ctx)
    if ctx.shard in (0, 1, 3):
        deep_chains(ctx)
    if ctx.shard == 0:
        judge_folds(ctx)
        for t in DIRECTED:
            q = astx.parse_expr(t)
            judge(ctx, q, {"directed": t}, must=1, mustnot=1)
    for i in range(N_CASES[ctx.tier]):
        if ctx.out_of_time():
            ctx.count("stopped-by-time-budget")
            break
        rnd = random.Random((ctx.seed * 1000 + ctx.shard) * 100003 + i + 19)
        g = G(rnd)
        q = g.top()
        if astx.size(q) > 600:
            ctx.count("skipped:input-too-large")
            continue
        judge(ctx, q, {"case": (ctx.seed, ctx.shard, i)}, unjudged=g.unjudged, must=g.must, mustnot=g.mustnot)
        if len(ctx.samples) < 4 and g.must and g.mustnot and not g.unjudged and rnd.random() < 0.02:
            from func_adl.ast.aggregate_shortcuts import aggregate_node_transformer

            try:
                ctx.sample({"in": astx.unparse(q), "out": astx.unparse(aggregate_node_transformer().visit(astx.clone(q)))})
            except Exception:
                pass


def replay(ctx, witness):
    if witness.get("half_built"):
        half_built(ctx)
        return
    if "fold" in witness:
        judge_folds(ctx)
        return
    judge(ctx, astx.parse_expr(witness["query"]), witness.get("info", {}), unjudged=witness.get("unjudged", False), must=1, mustnot=1)
