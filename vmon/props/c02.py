"""C02 - chained-call simplification preserves query results (DESIGN.md section 4, C02)."""
import ast
import collections

from .. import astx, hooks
from ..core import REPO, CaseTimeout, case_timeout
from ..gen_expr import GLOB, Gen, datasets
from ..refeval import evaluate

N_CASES = {"quick": 320, "thorough": 300000}  # per shard
TIME_BUDGET = {"quick": 60, "thorough": 270}
META = {
    "rule": "closed query ASTs from the shape-directed generator (1-6 stages, depth<=4, three binder-naming schemes, "
    "function/method/mixed form, called lambdas incl. keywords, tuple/list/dict packing + constant projection, binder names re-used across "
    "stages, a few hostile selectors) plus two targeted families (1/8 of the cases): inner fusion inside an outer lambda with 1-3 lambdas "
    "below re-binding names from a 4-name pool, and nested explicitly called lambdas around a fusable pair; ~30 directed traps; "
    "distinct by fields-only dump of the input; non-trivial = the simplifier changed the structure AND the input "
    "evaluated ok on a non-empty dataset (an obligation existed)",
    "assumptions": [
        "reference interpreter vmon.refeval is the meaning of a query (self-tested, cross-checked against python in C01)",
        "data operations are pure and total; only First/Max/Min on empty sequences are partial",
        "expression depth <= 4, <= 6 stages; CPython 3.12",
    ],
    "floor_evaluations": {"quick": 2000, "thorough": 20000},
    "floor_nontrivial": {"quick": 500, "thorough": 5000},
    "threads": 3,
    "anchors": ["func_adl/ast/function_simplifier.py", "func_adl/ast/call_stack.py"],
}

RULES = [
    "visit_Select_of_Select", "visit_Select_of_SelectMany", "visit_SelectMany_of_Select",
    "visit_SelectMany_of_SelectMany", "visit_Where_of_Where", "visit_Where_of_Select",
    "visit_Where_of_SelectMany", "select_method_call_on_first", "visit_Subscript_Tuple",
    "visit_Subscript_List", "visit_Subscript_Dict", "visit_Subscript_Of_First", "visit_Attribute_Of_First",
    "visit_Subscript_Dict_with_value",
]
class _ThreadLocalSet:
    """which rewrite rules fired during the current case - per thread (shards may run their workload in several threads)"""

    def __init__(self):
        import threading

        self._tl = threading.local()

    def _s(self):
        if not hasattr(self._tl, "s"):
            self._tl.s = set()
        return self._tl.s

    def add(self, x):
        self._s().add(x)

    def clear(self):
        self._s().clear()

    def __iter__(self):
        return iter(sorted(self._s()))

    def __contains__(self, x):
        return x in self._s()

    def __len__(self):
        return len(self._s())


_fired = _ThreadLocalSet()


def install_rule_counters():
    from func_adl.ast.function_simplifier import simplify_chained_calls

    for r in RULES:
        if hasattr(simplify_chained_calls, r):
            hooks.wrap(simplify_chained_calls, r, pre=(lambda a, k, r=r: _fired.add(r)))
    orig_call = simplify_chained_calls.visit_Call

    def visit_Call(self, node):
        if type(node.func) is ast.Lambda:
            _fired.add("beta-reduction")
        return orig_call(self, node)

    simplify_chained_calls.visit_Call = visit_Call


def make_case(rnd, i):
    naming = ["distinct", "identical", "reuse", "arglike"][i % 4]
    mf = [0.0, 1.0, 0.5][(i // 4) % 3]
    g = Gen(rnd, naming=naming, method_form=mf, hostile_sel=0.15 if i % 5 == 0 else 0.0)
    g.odd_stage_functions = i % 3 == 0
    g.runtime_keys = 0.1 if i % 4 == 1 else 0.0
    q, stages = g.chain(rnd.randint(1, 6), rnd.randint(1, 4))
    if i % 3 == 1:
        q = g.sprinkle_positional_only(q)
    return g, q, stages, naming, mf


OPERATOR_FUNCTIONS = {"Select", "Where", "SelectMany", "First", "Count", "Aggregate"}


def check_one(ctx, q, data, info, classify=True):
    """Run the simplifier on a copy of q under the monitor. Returns the list of problems."""
    from func_adl.ast.function_simplifier import simplify_chained_calls

    before = [evaluate(q, d, GLOB) for d in data]
    if all(b[0] != "ok" for b in before):
        ctx.count("trivial:input-does-not-evaluate:" + before[-1][0])
        return None
    _fired.clear()
    src_in = astx.dump_fields(q)
    fn_in = astx.free_names(q)
    if (info.get("naming") == "arglike" or info.get("fresh_process_counter")) and not ctx.threads:
        # (not while other threads are simplifying: resetting the process-wide counter under them is not something a program does)
        # what a fresh process (e.g. a backend receiving a query a client already simplified) starts from
        import func_adl.ast.function_simplifier as _fs

        _fs.argument_var_counter = 0
        ctx.count("cases-with-generated-name-counter-at-zero")
    try:
        # (every third case: ONE simplifier object is used for query after query, as a back end that keeps its transformer does)
        import threading as _thr

        _keep = _thr.current_thread().__dict__.setdefault("_verif_kept_simplifier", {})
        if ctx.evaluations % 3 == 1:
            _simp = _keep.setdefault("s", simplify_chained_calls())
            ctx.count("cases-simplified-by-a-reused-simplifier-object")
        else:
            _simp = simplify_chained_calls()
        out = _simp.visit(astx.clone(q))
    except Exception as e:
        # totality is C18's; here we only need equality when there is an output
        ctx.count("skipped:simplifier-raised:" + type(e).__name__)
        return None
    for r in _fired:
        ctx.count("rule:" + r)
    problems = []
    fn_out = astx.free_names(out)
    # (the simplifier may introduce function-form operators of its own, e.g. First(x).a -> First(Select(x, ...)): operator
    # names are not variables)
    if not (fn_out - OPERATOR_FUNCTIONS) <= fn_in:
        problems.append(("free-name-introduced", f"free names {sorted(fn_out - fn_in - OPERATOR_FUNCTIONS)} appear in the output"))
    after = [evaluate(out, d, GLOB) for d in data]
    for di, (b, a) in enumerate(zip(before, after)):
        if b[0] == "ok" and a != b:
            problems.append((f"mismatch:{a[0]}", f"dataset#{di}: before={str(b)[:200]} after={str(a)[:200]}"))
            break
    # simplifying again (a backend simplifying a query that a client already simplified) must keep the meaning too
    try:
        out2 = simplify_chained_calls().visit(astx.clone(out))
        after2 = [evaluate(out2, d, GLOB) for d in data]
        for di, (b, a) in enumerate(zip(before, after2)):
            if b[0] == "ok" and a != b:
                problems.append((f"mismatch-after-second-pass:{a[0]}", f"dataset#{di}: before={str(b)[:160]} after simplifying the output again={str(a)[:160]}"))
                break
        ctx.count("second-pass-checked")
    except Exception as e:
        problems.append((f"second-pass-raised:{type(e).__name__}", f"simplifying the simplifier's own output raised {type(e).__name__}: {str(e)[:120]}"))
    # the same query OBJECT simplified twice, and a query in which one sub-query object sits at two places (a DAG: what client code
    # that keeps a base stream in a variable and uses it twice hands over): the meaning is the meaning of the tree it stands for
    if ctx.rnd.random() < 0.25:
        try:
            arg = astx.clone(q)
            simplify_chained_calls().visit(arg)
            again = simplify_chained_calls().visit(arg)
            after3 = [evaluate(again, d, GLOB) for d in data]
            for di, (b, a) in enumerate(zip(before, after3)):
                if b[0] == "ok" and a != b:
                    problems.append((f"mismatch-when-the-same-object-is-simplified-twice:{a[0]}", f"dataset#{di}: before={str(b)[:160]} second simplification of the same input object={str(a)[:160]}"))
                    break
            shared = astx.clone(q)
            pair = ast.Tuple(elts=[shared, shared], ctx=ast.Load())
            out4 = simplify_chained_calls().visit(pair)
            after4 = [evaluate(out4, d, GLOB) for d in data]
            for di, (b, a) in enumerate(zip(before, after4)):
                if b[0] == "ok" and not (a[0] == "ok" and a[1] == ("T", b[1], b[1])) and a != ("ok", (b[1], b[1])):
                    problems.append((f"mismatch-for-a-sub-query-object-at-two-places:{a[0]}", f"dataset#{di}: the query evaluates to {str(b)[:120]}, (q, q) with q one object simplifies to something that gives {str(a)[:160]}"))
                    break
            ctx.count("dag-and-twice-simplified-inputs")
        except Exception as e:
            ctx.count("skipped:dag-input-raised:" + type(e).__name__)
    changed = astx.dump_fields(out) != src_in
    ok_nonempty = any(b[0] == "ok" for b in before[1:])
    ctx.case(src_in, nontrivial=changed and ok_nonempty)
    ctx.count("naming:" + info.get("naming", "?"))
    ctx.count("changed" if changed else "unchanged")
    return problems, out


def classify(q, data):
    """Mechanism signature of a mismatch, confirmed counterfactually (DESIGN.md section 6)."""
    from func_adl.ast.function_simplifier import simplify_chained_calls

    def bad(qq):
        before = [evaluate(qq, d, GLOB) for d in data]
        try:
            out = simplify_chained_calls().visit(astx.clone(qq))
        except Exception:
            return False
        after = [evaluate(out, d, GLOB) for d in data]
        if not (astx.free_names(out) - OPERATOR_FUNCTIONS) <= astx.free_names(qq):
            return True
        return any(b[0] == "ok" and a != b for b, a in zip(before, after))

    q1 = astx.alpha_rename(q)
    if not bad(q1):
        return "binder-name-reuse"
    q2 = astx.called_kw_to_positional(q1)
    if not bad(q2):
        return "called-lambda-keyword"
    return "unexplained"


def run_case(ctx, q, data, info):
    res = check_one(ctx, q, data, info)
    if res is None:
        return
    problems, out = res
    if problems:
        mech = classify(q, data)
        kinds = "+".join(sorted({p[0].split(":")[0] for p in problems}))
        sig = f"{kinds}:{mech}"
        ctx.violation(
            sig,
            f"simplify_chained_calls changed the meaning: {problems[0][1]} | in: {astx.unparse(q)[:400]} | out: {astx.unparse(out)[:400]}",
            {"query": astx.unparse(q), "info": info, "problems": problems},
        )
    elif len(ctx.samples) < 4 and ctx.rnd.random() < 0.05:
        ctx.sample({"in": astx.unparse(q), "out": astx.unparse(out), "naming": info.get("naming")})


DIRECTED = [
    # dictionary keys that python takes for ONE key (1 / True / 1.0, 0 / False): the last value written wins, whatever it is read with
    ("Select(EventDataset(), lambda e: ({1: e.x, True: e.y}[1], {0: e.x, False: e.y, 0.0: e.met}[0], {True: e.x, 1: e.y}[True], {1: e.x, 2: e.y}[True], {'a': e.x, 'b': e.y}['a']))", "equal-keys"),
    # displays with a spread element, indexed from either end, with zero under a minus sign, with a truth value
    ("Select(EventDataset(), lambda e: ((e.met, *(e.x, e.y))[-2], (e.met, *(e.x, e.y))[0], (*(e.x, e.y), e.met)[-1], [e.met, *[e.x, e.y], e.nv][-3]))", "spread-display"),
    ("Select(EventDataset(), lambda e: ((e.x, e.y)[-0], (e.x, e.y)[-False], [e.x, e.y][True], (lambda t, i: t[-i])((e.x, e.y), 0)))", "minus-zero-index"),
    # (text, naming tag) - the capture/shadowing traps of the property statement, always exercised
    ("Select(EventDataset(), lambda e: (lambda x: Select(x.jets, lambda x: x.pt))(e))", "shadow-called"),
    ("Select(EventDataset(), lambda y: Select(y.jets, lambda j: (lambda x: Select(j.trks, lambda y: x + y.pt))(y.met)))", "capture-called"),
    ("Select(EventDataset(), lambda e: (lambda x, y: x - y)(e.x, y=e.y))", "kw-called"),
    ("Select(EventDataset(), lambda e: (lambda x, y: x - y)(y=e.y, x=e.x))", "kw-called"),
    ("Where(Where(EventDataset(), lambda x: x.x > 1), lambda x: Count(Where(x.jets, lambda x: x.pt > 2)) >= 0)", "identical-fusion"),
    ("Select(Select(EventDataset(), lambda x: x.jets), lambda x: Select(x, lambda x: x.pt))", "identical-fusion"),
    ("Select(Select(EventDataset(), lambda e: (e.jets, e.met)), lambda t: Select(t[0], lambda e: e.pt + t[1]))", "reuse-fusion"),
    ("Select(SelectMany(EventDataset(), lambda e: e.jets), lambda e: e.pt)", "reuse-fusion"),
    ("Where(SelectMany(EventDataset(), lambda e: Select(e.jets, lambda j: (j, e.met))), lambda e: e[0].pt > e[1])", "reuse-fusion"),
    ("Select(EventDataset(), lambda e: First(e.jets).m(e.x, b=e.y))", "first-method"),
    ("Select(Where(EventDataset(), lambda e: Count(e.jets) > 0), lambda e: First(Select(e.jets, lambda j: (j.pt, j.eta)))[1])", "first-sub"),
    ("Select(Where(EventDataset(), lambda e: Count(e.jets) > 0), lambda e: First(Select(e.jets, lambda j: {'a': j.pt})).a)", "first-attr"),
    ("SelectMany(SelectMany(EventDataset(), lambda e: e.jets), lambda e: e.trks)", "reuse-fusion"),
    ("SelectMany(Select(EventDataset(), lambda e: e.jets), lambda e: Select(e, lambda e: e.pt))", "identical-fusion"),
    ("Select(Where(Select(EventDataset(), lambda e: (e.x, e.jets)), lambda e: e[0] > 5), lambda e: Count(e[1]))", "where-of-select"),
    ("Select(EventDataset(), lambda e: Where(SelectMany(e.jets, lambda e: e.trks), lambda t: t.pt > e.met))", "capture-where-of-selectmany"),
    ("Select(EventDataset(), lambda e: Select(SelectMany(e.jets, lambda e: e.trks), lambda t: t.pt + e.met))", "capture-select-of-selectmany"),
    ("Select(EventDataset(), lambda e: SelectMany(SelectMany(e.jets, lambda e: e.trks), lambda t: Select(e.trks, lambda u: u.pt + t.pt)))", "capture-selectmany-of-selectmany"),
    ("Select(Select(EventDataset(), lambda e: Where(e.jets, lambda j: j.pt > 1)), lambda s: (Count(Where(s, lambda k: k.eta > 2)), Count(s)))", "shared-argument"),
    ("Select(Select(EventDataset(), lambda a: {'c': SelectMany(a.jets, lambda j: j.trks)}), lambda r: Count(SelectMany(r.c, lambda t: r.c)))", "selectmany-of-selectmany-under-substitution"),
    ("Select(Select(EventDataset(), lambda e: (e.jets, e.met)), lambda t: Select(t[0], lambda j: Select(j.trks, lambda e: e.pt + t[1])))", "capture-two-levels-below-substitution"),
    ("Select(EventDataset(), lambda e: Select(Select(e.jets, lambda j: (j, e.met)), lambda t: Select(t[0].trks, lambda k: Select(t[0].trks, lambda e: e.pt + t[1] + k.pt))))", "capture-two-levels-below-substitution-nested"),
    ("Select(EventDataset(), lambda e: Select(Select(e.jets, lambda j: (j, e.met)), lambda t: Select(t[0].trks, lambda e: e.pt + t[1])))", "capture-one-level-below-substitution-nested"),
    ("Select(EventDataset(), lambda e: (lambda x: Select(e.jets, lambda e: Select(Select(e.trks, lambda j: j.pt + x), lambda p: p * 2)))(e.met))", "substituted-argument-revisited-under-renamed-binder"),
    ("Select(EventDataset(), lambda x: (lambda x, x_: Where(Where(x_.trks, lambda x: x_.met > x.x), lambda x: x_.y > x.pt))(1, x))", "substituted-argument-revisited-under-called-lambda-parameter"),
    ("Select(EventDataset(), lambda arg_1: Select(Select(arg_1.jets, lambda j: (j.pt, arg_1.met)), lambda p: p[0] + p[1]))", "arglike:user-binder-named-like-a-generated-name"),
    ("Select(EventDataset(), lambda arg_0: Select(Select(arg_0.jets, lambda arg_1: (arg_1.pt, arg_0.met)), lambda arg_2: arg_2[0] + arg_2[1]))", "arglike:already-simplified-query"),
    ("Select(EventDataset(), lambda a: (lambda a, b: a.y - b)(a, a.x))", "called-lambda-later-argument-sees-earlier-parameter"),
    ("Select(EventDataset(), lambda a: (lambda b, a: a.y - b)(a=a, b=a.x))", "called-lambda-keyword-argument-order"),
    ("Where(EventDataset(), lambda e: True)", "where-true"),
    ("Where(EventDataset(), lambda e: (lambda t: t)(True))", "where-true"),
]


def targeted_called(rnd):
    """Nested explicitly called lambdas whose parameters re-use names that are free in an enclosing call's argument,
    with a fusable pair in the innermost body (what a fusion rule builds is re-visited while the bindings are live)."""
    pool = ["e", "j", "x", "p"]
    E, X, P, J, Q = (rnd.choice(pool) for _ in range(5))
    if X == E:
        X = "x_"
    arg_outer = rnd.choice([f"{E}.met", f"{E}.met + {E}.x", f"({E}.met, {E}.y)[0]", f"{E}"])
    use_outer = f"{X}" if arg_outer != f"{E}" else f"{X}.met"
    seq = rnd.choice([f"First(EventDataset()).jets", f"First(Where(EventDataset(), lambda w: Count(w.jets) > 0)).jets"])
    pair = rnd.choice([
        f"Select(Select({P}, lambda {J}: {J}.pt + {use_outer}), lambda {Q}: {Q} * 2)",
        f"Where(Where({P}, lambda {J}: {J}.pt > {use_outer}), lambda {Q}: {Q}.eta < 100)",
        f"Select(Where({P}, lambda {J}: {J}.pt > {use_outer}), lambda {Q}: {Q}.pt)",
        f"Count(Where(Select({P}, lambda {J}: {J}.pt - {use_outer}), lambda {Q}: {Q} > 0))",
    ])
    inner = f"(lambda {P}: {pair})({seq})"
    if rnd.random() < 0.5:
        inner = f"(lambda {P}, k_: {pair})({seq}, k_={E}.x)"
    return f"Select(EventDataset(), lambda {E}: (lambda {X}: {inner})({arg_outer}))"


def targeted_functions(rnd):
    """function VALUES handed to a called lambda and applied below a stage lambda whose parameter re-uses a name that is live in the
    function: in a default written name=name (evaluated where the function is written), in its body, in a keyword-only default"""
    pool = ["e", "j", "t", "k"]
    E, J, X = rnd.choice(pool), rnd.choice(pool), rnd.choice(pool)
    F = rnd.choice(["f", "g", "fn"])
    if J == E:
        J = "j_"
    D = X if X != J else "d_"  # (the name of a defaulted parameter of the function: any name but its first parameter's)
    fn = rnd.choice([f"lambda {J}, {E}={E}: {J}.pt + {E}.met", f"lambda {J}, *, {E}={E}: {J}.pt + {E}.met", f"lambda {J}: {J}.pt + {E}.met", f"lambda {J}, m_={E}.met: {J}.pt + m_",
                     f"lambda {J}, {E}={E}.met: {J}.pt + {E}", f"lambda {J}, /, {D}={E}: {J}.pt + {D}.met"])
    apply = rnd.choice([f"(lambda {F}: Select({E}.jets, lambda {X}: {F}({X})))({fn})", f"(lambda {F}: Count(Where({E}.jets, lambda {X}: {F}({X}) > 1)))({fn})",
                        f"(lambda {F}, s_: Select(s_, lambda {X}: {F}({X})))({fn}, {E}.jets)", f"(lambda s_, {F}: Select(Select(s_, lambda {X}: {X}), lambda {X}: {F}({X})))({F}={fn}, s_={E}.jets)"])
    return f"Select(EventDataset(), lambda {E}: {apply})"


def targeted_stage_parameters(rnd):
    """a SelectMany stage function with a further parameter nobody fills (keyword-only, defaulted, *rest) that carries the name of an
    outer variable the NEXT stage uses: the fusion rules move the next stage's function under it"""
    pool = ["e", "j", "t"]
    E, F, T = rnd.choice(pool), rnd.choice(["x", "j_", "t_"]), rnd.choice(["q", "w", "k"])
    extra = rnd.choice([f"*, {E}=1", f"*, {E}=First(EventDataset())", f"{E}=2", f"*{E}", f"/, {E}=3", f"*, m_=1, {E}=0"])
    nxt = rnd.choice([f"Select({{s}}, lambda {T}: {T}.pt + {E}.met)", f"Where({{s}}, lambda {T}: {T}.pt > {E}.met - 90)", f"SelectMany({{s}}, lambda {T}: {E}.jets)",
                      f"Select(Where({{s}}, lambda {T}: {T}.pt > 0), lambda {T}: {T}.pt + {E}.x)"])
    first = f"SelectMany(EventDataset(), lambda {F}, {extra}: {F}.jets)"
    return f"Select(EventDataset(), lambda {E}: {nxt.format(s=first)})"


def targeted_early_binding(rnd):
    """the early-binding idiom in a NESTED stage lambda: a default that re-uses the enclosing binder's name as its own parameter
    (lambda j, t=t[1]: ..), the enclosing binder standing for a packaged value of the stage before"""
    pool = ["e", "t", "k"]
    E, T = rnd.choice(pool), rnd.choice(pool)
    J = rnd.choice([x for x in ["j", "q", "w"] if x not in (E, T)])
    star = rnd.choice(["", "*, ", "/, "])
    k = rnd.randrange(4)
    if k == 0:
        return f"Select(Select(EventDataset(), lambda {E}: ({E}.jets, {E}.met)), lambda {T}: Select({T}[0], lambda {J}, {star}{T}={T}[1]: {J}.pt + {T}))"
    if k == 1:
        return f"Select(Select(EventDataset(), lambda {E}: {{'j': {E}.jets, 'm': {E}.met}}), lambda {T}: Select({T}.j, lambda {J}, {star}{T}={T}['m']: {J}.pt + {T}))"
    if k == 2:
        return f"Select(EventDataset(), lambda {E}: Select({E}.jets, lambda {J}, {star}{E}={E}.met: {J}.pt + {E}))"
    return f"Select(Select(EventDataset(), lambda {E}: ({E}.jets, {E}.met, {E}.x)), lambda {T}: Count(Where({T}[0], lambda {J}, {star}{T}=({T}[1], {T}[2]): {J}.pt > {T}[0] + {T}[1])))"


def targeted_first(rnd):
    """a variable bound to First(<sequence mentioning a live outer name>) by a called lambda, read by attribute / key / index inside a
    second, lambda-free called lambda whose parameter re-uses that outer name: the First push-through rules re-visit the value"""
    pool = ["e", "j", "t"]
    E = rnd.choice(pool)
    B = rnd.choice(["b", "p", "q"])
    P = E if rnd.random() < 0.7 else rnd.choice(pool)
    kind = rnd.randrange(3)
    if kind == 0:
        seq, read = f"Where({E}.jets, lambda j_: j_.pt > {E}.met)", rnd.choice([".pt", ".eta"])
    elif kind == 1:
        seq, read = f"Select({E}.jets, lambda j_: (j_.pt + {E}.met, j_.eta))", rnd.choice(["[0]", "[1]", "[-1]"])
    else:
        seq, read = f"Select({E}.jets, lambda j_: {{'a': j_.pt, 'm': {E}.met}})", rnd.choice([".a", "['m']", ".m"])
    arg = rnd.choice([f"{E}.met", "2", f"{B}{read}", "1 + 2"])  # (the inner argument mentions the re-used name, or nothing at all)
    seq = seq if rnd.random() < 0.6 else f"{E}.jets"
    if seq == f"{E}.jets":
        read = rnd.choice([".pt", ".eta"])
    inner = rnd.choice([f"(lambda {P}: {B}{read} + {P})({arg})", f"(lambda {P}, k_: {B}{read} + {P} * k_)({arg}, k_=2)", f"(lambda {P}: ({B}{read}, {P})[0] + {P})({arg})"])
    return f"Select(Where(EventDataset(), lambda w_: Count(w_.jets) > 0), lambda {E}: (lambda {B}: {inner})(First({seq})))"


def targeted_capture(rnd):
    k = rnd.random()
    if k < 0.04:
        return targeted_early_binding(rnd)
    if k < 0.08:
        return targeted_stage_parameters(rnd)
    if k < 0.15:
        return targeted_functions(rnd)
    if k < 0.28:
        return targeted_first(rnd)
    if k < 0.45:
        return targeted_called(rnd)
    if k < 0.6:
        return targeted_defaults(rnd)
    return targeted_reuse(rnd)


def targeted_defaults(rnd):
    """a stage lambda g that is moved under the lambda f of the operator before it (SelectMany / Select / Where fusions), where g
    has a parameter DEFAULT (plain or keyword-only) mentioning an outer variable named like f's parameter - and nowhere else"""
    pool = ["e", "j", "t"]
    E, F, T = rnd.choice(pool), rnd.choice(pool), rnd.choice(["t", "q", "w"])
    first = rnd.choice([f"SelectMany({E}.jets, lambda {F}: {F}.trks)", f"Select({E}.jets, lambda {F}: {F}.pt)", f"Where({E}.trks, lambda {F}: {F}.pt > 1)"])
    val = f"{T}.pt" if not first.startswith("Select(") else T
    dflt = rnd.choice([f"{E}.met", f"{E}.x + 1", f"Count({E}.jets)"])
    g = rnd.choice([f"lambda {T}, *, m_={dflt}: {val} + m_", f"lambda {T}, m_={dflt}: {val} + m_", f"lambda {T}, /, m_={dflt}: {val} + m_", f"lambda {T}, *, m_={dflt}, n_=2: {val} + m_ + n_"])
    op2 = rnd.choice(["Select", "Select", "Where"])
    if op2 == "Where":
        g = g.replace(": " + val + " + m_", ": " + val + " + m_ > 0")
    return f"Select(EventDataset(), lambda {E}: {op2}({first}, {g}))"


def targeted_reuse(rnd):
    """The re-use-live family of the design: an inner fusion inside an outer lambda substitutes an argument that mentions
    outer names (E, J) for T, below which 1-3 further lambdas re-bind names drawn from the same small pool."""
    pool = ["e", "j", "t", "k"]
    E, J, T = rnd.choice(pool), rnd.choice(pool), rnd.choice(pool)
    pack = rnd.choice([f"({J}, {E}.met)", f"({J}, {E}.met + {J}.pt)", f"{{'j': {J}, 'm': {E}.met}}", f"[{J}, {E}.x]",
                       f"({J}, Count(Select({J}.trks, lambda q_: q_.pt + {E}.met)))", f"({J}, Count(Where({J}.trks, lambda {rnd.choice(pool)}_: {E}.met > 0)))"])
    if pack.startswith("{"):
        t0, t1 = f"{T}.j", f"{T}['m']"
    else:
        t0, t1 = f"{T}[0]", f"{T}[1]"
    depth = rnd.randint(1, 3)
    binders = [rnd.choice(pool + [f"w{i}"]) for i in range(depth)]
    # innermost body uses the innermost binder, the substituted projections and (when not shadowed) outer binders
    body = f"{binders[-1]}.pt + {t1}" if T not in binders else f"{binders[-1]}.pt"
    if rnd.random() < 0.3 and T not in binders:
        # the innermost binder is the SECOND parameter of a fold's lambda
        acc = rnd.choice(["acc", "a_"] + [p_ for p_ in pool if p_ not in binders and p_ != T][:1])
        if acc != binders[-1]:
            body = f"Aggregate({t0}.trks, 0, lambda {acc}, {binders[-1]}: {acc} + {binders[-1]}.pt + {t1})"
            if depth == 1:
                inner = f"Select(Select({E}.jets, lambda {J}: {pack}), lambda {T}: {body})"
                return f"Select(EventDataset(), lambda {E}: {inner})"
    for lvl in range(depth - 1, -1, -1):
        src = f"{t0}.trks" if T not in binders[:lvl] else f"{binders[lvl - 1]}.trks" if lvl > 0 else f"{t0}.trks"
        if lvl > 0 and rnd.random() < 0.5 and binders[lvl - 1] not in binders[lvl:]:
            body = f"{binders[lvl - 1]}.pt + Count(Select({src}, lambda {binders[lvl]}: {body}))"
        else:
            body = f"Select({src}, lambda {binders[lvl]}: {body})"
    inner = f"Select(Select({E}.jets, lambda {J}: {pack}), lambda {T}: {body})"
    form = rnd.random()
    if form < 0.5:
        return f"Select(EventDataset(), lambda {E}: {inner})"
    if form < 0.75:
        return f"SelectMany(EventDataset(), lambda {E}: {inner})"
    return f"Select(Where(EventDataset(), lambda {E}: Count({E}.jets) > 0), lambda {E}: {inner})"


def scale_cases():
    """queries near the size where the interpreter's stack becomes the limit (a RecursionError is not judged, a result is)"""
    out = []
    for n in (96, 104, 118, 132):
        q = "Select(EventDataset(), lambda e0: e0.x)"
        for i in range(n):
            q = f"Select({q}, lambda v{i % 7}: v{i % 7} + {i % 5})" if i % 3 else f"Where({q}, lambda w{i % 4}: w{i % 4} > -{i + 1})"
        out.append((q, f"scale:chain-of-{n}-fusable-operators"))
    for n in (99, 112, 140):
        out.append((f"Select(EventDataset(), lambda e: (lambda s, t: {' + '.join(['s', 't'] * (n // 2))})(e.x, e.y))", f"scale:called-lambda-with-{n}-term-body"))
        out.append((f"Select(Select(EventDataset(), lambda e: (e.x, e.y)), lambda p: {' + '.join(['p[0]', 'p[1]'] * (n // 2))})", f"scale:fused-projection-with-{n}-term-body"))
    return out


def concurrent_generated_names(ctx, rounds):
    """Invariant at a hook: the names arg_name() hands to ONE simplification are pairwise different, also while other threads
    simplify queries that already contain arg_N names (which makes the library move its process-wide counter).  Thread B
    simplifies a chain that needs many fresh names, threads A1/A2 keep simplifying small queries holding arg_N names."""
    import sys
    import threading

    import func_adl.ast.function_simplifier as fs
    from func_adl.ast.function_simplifier import simplify_chained_calls

    handed = threading.local()
    orig = fs.arg_name

    def arg_name():
        n = orig()
        lst = getattr(handed, "names", None)
        if lst is not None:
            lst.append(n)
        return n

    fs.arg_name = arg_name
    big = "Select(EventDataset(), lambda e0: e0.x)"
    for i in range(30):
        big = f"Select({big}, lambda v{i}: (v{i}, v{i} + 1)[1])"
    big_q = astx.parse_expr(big)
    small_q = astx.parse_expr("Select(Select(EventDataset(), lambda arg_0: arg_0.x), lambda arg_1: arg_1 + 1)")
    stop = threading.Event()
    dup = []
    old_interval = sys.getswitchinterval()
    sys.setswitchinterval(1e-6)

    def small():
        while not stop.is_set():
            simplify_chained_calls().visit(astx.clone(small_q))

    ths = [threading.Thread(target=small, daemon=True) for _ in range(2)]
    for t in ths:
        t.start()
    total = 0
    try:
        for r in range(rounds):
            handed.names = []
            simplify_chained_calls().visit(astx.clone(big_q))
            names = handed.names
            total += len(names)
            if len(set(names)) != len(names):
                dup.append(sorted({n for n in names if names.count(n) > 1})[:4])
    finally:
        stop.set()
        for t in ths:
            t.join(timeout=30)
        sys.setswitchinterval(old_interval)
        fs.arg_name = orig
    ctx.case("concurrent-generated-names", True)
    ctx.count("concurrent-name-monitor:simplifications-observed", rounds)
    ctx.count("concurrent-name-monitor:names-observed", total)
    if dup:
        ctx.violation("generated-name-handed-out-twice-to-one-simplification:concurrent", f"while two other threads simplified queries holding arg_N names, {len(dup)} of {rounds} simplifications of one chain were handed the same generated name twice, e.g. {dup[0]}", {"concurrent": True, "rounds": rounds})


def after_error_history(ctx, n):
    """history on ONE simplifier object (a back end keeps its transformer): queries it gives up on (its dedicated index error) in
    between, then queries whose binders carry names of the kind it generates, in a process whose name counter is where those
    names are. Whatever a failed visit left behind, the later queries keep their meaning"""
    import random

    import func_adl.ast.function_simplifier as _fs
    from func_adl.ast.function_simplifier import simplify_chained_calls

    simp = simplify_chained_calls()
    gave_up = ["Select(EventDataset(), lambda e: (e.x, e.y)[5])", "Select(Select(EventDataset(), lambda e: (e.x, e.y)), lambda t: t[2])", "Select(EventDataset(), lambda e: [e.x][3] + 1)"]
    for i in range(n):
        if i % 50 == 49 and ctx.out_of_time():
            ctx.count("after-error-history:stopped-by-time-budget")
            break
        rnd = random.Random(ctx.seed * 7919 + i * 13 + 5)
        if i % 4 == 0:
            try:
                simp.visit(astx.parse_expr(gave_up[(i // 4) % len(gave_up)]))
                ctx.count("after-error-history:index-error-expected-but-returned")
            except Exception as e:
                ctx.count("after-error-history:gave-up:" + type(e).__name__)
            continue
        g = Gen(rnd, naming="arglike", method_form=0.0)
        try:
            q, _stages = g.chain(rnd.randint(2, 5), rnd.randint(2, 3))
        except Exception as e:
            ctx.count("generator-failed:" + type(e).__name__)
            continue
        data = datasets(rnd)
        before = [evaluate(q, d, GLOB) for d in data]
        if all(b[0] != "ok" for b in before):
            continue
        _fs.argument_var_counter = 0
        ctx.case("after-error:" + astx.dump_fields(q), True)
        ctx.count("after-error-history:queries")
        try:
            out = simp.visit(astx.clone(q))
        except Exception as e:
            ctx.count("skipped:simplifier-raised:" + type(e).__name__)
            continue
        after = [evaluate(out, d, GLOB) for d in data]
        for di, (b, a) in enumerate(zip(before, after)):
            if b[0] == "ok" and a != b:
                ctx.violation("mismatch-after-a-visit-that-gave-up:" + a[0], f"one simplifier object, after {i // 4 + 1} visits that gave up: dataset#{di}: before={str(b)[:140]} after={str(a)[:140]} | in: {astx.unparse(q)[:240]} | out: {astx.unparse(out)[:240]}", {"after_error_history": True})
                return


def shard_main(ctx):
    install_rule_counters()
    import random

    if ctx.shard == 5 % ctx.nshards and not ctx.threads:
        after_error_history(ctx, 240 if ctx.tier == "quick" else 4000)

    if ctx.shard == 2:
        concurrent_generated_names(ctx, 40 if ctx.tier == "quick" else 1500)

    if ctx.shard < 4:
        rnd = random.Random(777)
        data = datasets(rnd)
        for text, tag in scale_cases():
            ctx.count("scale-cases")
            run_case(ctx, astx.parse_expr(text), data, {"naming": tag, "directed": tag})

    # directed traps on every shard 0 run
    if ctx.shard == 0:
        rnd = random.Random(12345)
        data = datasets(rnd)
        for text, tag in DIRECTED:
            run_case(ctx, astx.parse_expr(text), data, {"naming": "directed:" + tag, "directed": text, "fresh_process_counter": tag.startswith("arglike")})
    n = N_CASES[ctx.tier]
    for i in range(n):
        if ctx.out_of_time():
            ctx.count("stopped-by-time-budget")
            break
        rnd = random.Random((ctx.seed * 1000 + ctx.shard) * 100003 + i)
        if i % 8 == 7:
            text = targeted_capture(rnd)
            try:
                q = astx.parse_expr(text)
            except SyntaxError:
                ctx.count("harness:targeted-syntax-error")
                continue
            if i % 16 == 15:
                q = Gen(rnd).sprinkle_positional_only(q, 0.35)
                ctx.count("feature:targeted-reuse-family-with-positional-only-parameters")
            ctx.count("feature:targeted-reuse-family")
            try:
                with case_timeout(4.0):
                    run_case(ctx, q, datasets(rnd), {"naming": "targeted-reuse", "case_seed": (ctx.seed, ctx.shard, i)})
            except CaseTimeout:
                ctx.count("inconclusive:case-timeout")
            continue
        try:
            g, q, stages, naming, mf = make_case(rnd, i)
        except Exception as e:  # generator failure is a harness problem, counted
            ctx.count("generator-failed:" + type(e).__name__)
            continue
        for f in g.feat:
            ctx.count("feature:" + f)
        if astx.size(q) > 400:
            ctx.count("skipped:input-too-large")
            continue
        data = datasets(rnd)
        try:
            with case_timeout(4.0):
                run_case(ctx, q, data, {"naming": naming, "method_form": mf, "case_seed": (ctx.seed, ctx.shard, i)})
        except CaseTimeout:
            ctx.count("inconclusive:case-timeout")


def replay(ctx, witness):
    install_rule_counters()
    import random

    if witness.get("after_error_history"):
        after_error_history(ctx, 240)
        return

    q = astx.parse_expr(witness["query"])
    rnd = random.Random(99)
    for _ in range(3):
        run_case(ctx, q, datasets(rnd), witness.get("info", {}))
