"""C17 - method-form and function-form queries are interchangeable (DESIGN.md section 4, C17)."""
import ast
import random

from .. import astx, refimpl
from ..embellish import embellish
from ..astx import C, N, attr, call, lam
from ..core import CaseTimeout, case_timeout
from ..gen_expr import GLOB, Gen, datasets
from ..refeval import evaluate

N_CASES = {"quick": 1000, "thorough": 375000}
TIME_BUDGET = {"quick": 60, "thorough": 270}
META = {
    "rule": "generated queries with every operator call independently in method or function form at all depths "
    "(lambda bodies, arguments), interleaved with non-operator methods of the same shape (seq.Filter(lambda..), "
    "obj.select(..)), operator names used as plain attributes / variables, and Min/Max/Sum/Aggregate/Result* method "
    "forms; oracle = independent reference rewriter + residual-method scan + idempotence + reference evaluation; "
    "distinct by dump of input; non-trivial = >= 2 method-form operator calls of which one is nested inside a lambda or argument",
    "assumptions": [
        "method-form operator calls carry positional arguments only (the statement's seq.Op(args...)); keyword-bearing ones are not generated",
        "reference interpreter as C02 for the evaluation half; decoy methods are not evaluated (equality judged only when the input evaluates)",
    ],
    "floor_evaluations": {"quick": 2000, "thorough": 20000},
    "floor_nontrivial": {"quick": 500, "thorough": 5000},
    "threads": 3,
    "anchors": ["func_adl/ast/func_adl_ast_utils.py"],
}


# method names that only look like operator names: an operator name as prefix / suffix / in other case
NEAR_MISSES = ["Result", "ResultParquet", "ResultTTrees", "Results", "Counter", "CountAll", "First1", "FirstOrDefault", "Sum_", "MinMax", "PreSelect", "aSelect", "Selected",
               "WhereNot", "Aggregates", "SELECT", "count", "Maximum"]


def decorate(rnd, q):
    """Insert decoys: non-operator methods of the same shape, operator names as plain attributes / names."""
    feats = set()

    def go(n, depth):
        if isinstance(n, ast.AST):
            m = type(n)()
            for f in n._fields:
                if hasattr(n, f):
                    setattr(m, f, go(getattr(n, f), depth + 1))
            if isinstance(m, ast.Call) and isinstance(m.func, ast.Name) and m.func.id == "Count" and rnd.random() < 0.15:
                # x.Count used as a plain attribute (not a call) inside a tuple
                feats.add("operator-name-as-attribute")
                return ast.Subscript(value=ast.Tuple(elts=[m, attr(clone_(m.args[0]), "Select")], ctx=ast.Load()), slice=C(0), ctx=ast.Load())
            if isinstance(m, ast.Compare) and rnd.random() < 0.1:
                feats.add("decoy-method-same-shape")
                # (cmp, seq.Filter(lambda z: z))[0]
                return ast.Subscript(
                    value=ast.Tuple(elts=[m, ast.Call(func=attr(N("EventDataset"), rnd.choice(["Filter", "select", "where", "SelectAll"] + NEAR_MISSES)), args=[lam(["z"], N("z"))], keywords=[])], ctx=ast.Load()),
                    slice=C(0), ctx=ast.Load())
            return m
        if isinstance(n, list):
            return [go(x, depth) for x in n]
        return n

    return go(q, 0), feats


def clone_(n):
    return astx.clone(n)


def method_calls(a):
    out = []

    def go(n, nested):
        if isinstance(n, ast.AST):
            if isinstance(n, ast.Call) and isinstance(n.func, ast.Attribute) and n.func.attr in refimpl.OPERATOR_NAMES:
                out.append(nested)
            for f in n._fields:
                v = getattr(n, f, None)
                inner = nested or isinstance(n, ast.Lambda) or (isinstance(n, ast.Call) and f in ("args", "keywords"))
                if isinstance(v, list):
                    for x in v:
                        go(x, inner)
                elif isinstance(v, ast.AST):
                    go(v, inner)

    go(a, False)
    return out


def judge(ctx, q, data, info):
    from func_adl.ast.func_adl_ast_utils import change_extension_functions_to_calls

    key = astx.dump_fields(q)
    witness = {"query": astx.unparse(q), "info": info}
    arg = astx.clone(q)
    if ctx.rnd.random() < 0.3:
        # the query as a back end gets it: through pickle (worker process, cache) - equal names, other string objects
        import pickle

        arg = pickle.loads(pickle.dumps(arg))
        ctx.count("inputs-through-pickle")
    elif ctx.rnd.random() < 0.2:
        # names built at run time (read from a text form)
        for n in astx.walk_nodes(arg):
            if isinstance(n, ast.Attribute):
                n.attr = "".join(list(n.attr))
            elif isinstance(n, ast.Name):
                n.id = "".join(list(n.id))
        ctx.count("inputs-with-names-built-at-run-time")
    if ctx.rnd.random() < 0.25:
        # a caller-supplied name list (a fresh list object every time, contents vary from call to call)
        names = ctx.rnd.sample(refimpl.OPERATOR_NAMES + ["Filter", "select", "where"], ctx.rnd.randint(0, 6))  # (also no name at all: nothing is an operator then)
        if not names and ctx.rnd.random() < 0.5:
            names = ()
        ctx.count("custom-name-list")
        try:
            out = change_extension_functions_to_calls(arg, list(names) if isinstance(names, list) else names)
        except Exception as e:
            ctx.case(key, True)
            ctx.violation(f"exc:{type(e).__name__}", f"{e} | names={names} in: {witness['query'][:300]}", witness)
            return
        ctx.case(key + str(sorted(names)), nontrivial=True)
        exp = refimpl.to_function_form(q, names)
        if not astx.struct_eq(out, exp):
            ctx.violation("differs-from-reference-rewrite:custom-names", f"names={names}: {astx.first_diff(out, exp)} | in: {witness['query'][:300]} | out: {astx.unparse(out)[:300]}", {**witness, "names": names})
        return
    # what a real query carries besides syntax: the dataset object on its EventDataset() node (uncopyable, identity matters)
    carried = astx.attach_object(arg, ctx.rnd) if ctx.rnd.random() < 0.4 else None
    try:
        out = change_extension_functions_to_calls(arg)
    except Exception as e:
        ctx.case(key, True)
        ctx.violation(f"exc:{type(e).__name__}", f"{e} | in: {witness['query'][:400]}", witness)
        return
    if carried is not None:
        ctx.count("inputs-carrying-an-object-on-a-node")
        if not astx.find_object(out, carried):
            ctx.violation("object-on-a-node-not-carried-over", f"the dataset object on a node of the input is not on the result (copied {carried.copied}x) | in: {witness['query'][:300]}", witness)
            return
    mc = method_calls(q)
    ctx.case(key, nontrivial=len(mc) >= 2 and any(mc))
    exp = refimpl.to_function_form(q)
    if not astx.struct_eq(out, exp):
        ctx.violation("differs-from-reference-rewrite", f"{astx.first_diff(out, exp)} | in: {witness['query'][:400]} | out: {astx.unparse(out)[:400]}", witness)
        return
    left = method_calls(out)
    if left:
        ctx.violation("method-form-operator-remains", f"{len(left)} remain | out: {astx.unparse(out)[:400]}", witness)
        return
    # the very same input object converted a second time (the function works in place), and a DAG-shaped input in which
    # one method-form call object sits under two parents
    try:
        second = change_extension_functions_to_calls(arg)
        if not astx.struct_eq(second, exp):
            ctx.violation("second-conversion-of-the-same-object-differs", f"{astx.first_diff(second, exp)} | in: {witness['query'][:300]} | second: {astx.unparse(second)[:300]}", witness)
            return
        if not astx.struct_eq(out, exp):
            ctx.violation("first-result-changed-by-second-conversion", f"{astx.first_diff(out, exp)} | in: {witness['query'][:300]}", witness)
            return
        mcalls = [n for n in astx.walk_nodes(q) if isinstance(n, ast.Call) and isinstance(n.func, ast.Attribute) and n.func.attr in refimpl.OPERATOR_NAMES]
        if mcalls:
            shared = astx.clone(ctx.rnd.choice(mcalls))
            dag = ast.Tuple(elts=[shared, ast.List(elts=[shared, astx.C(1)], ctx=ast.Load())], ctx=ast.Load())
            dag_exp = refimpl.to_function_form(astx.clone(dag))
            dag_out = change_extension_functions_to_calls(dag)
            ctx.count("dag-inputs")
            if not astx.struct_eq(dag_out, dag_exp):
                ctx.violation("shared-node-converted-wrongly", f"{astx.first_diff(dag_out, dag_exp)} | shared call: {astx.unparse(shared)[:200]} | out: {astx.unparse(dag_out)[:300]}", witness)
                return
    except Exception as e:
        ctx.violation(f"exc-on-repeat:{type(e).__name__}", f"{e} | in: {witness['query'][:300]}", witness)
        return
    again = change_extension_functions_to_calls(astx.clone(out))
    if not astx.struct_eq(again, out):
        ctx.violation("not-idempotent", f"{astx.first_diff(again, out)} | in: {witness['query'][:400]}", witness)
        return
    before = [evaluate(q, d, GLOB) for d in data]
    after = [evaluate(out, d, GLOB) for d in data]
    for di, (b, a) in enumerate(zip(before, after)):
        if b[0] == "ok" and a != b:
            ctx.violation("value-changed", f"dataset#{di} before={str(b)[:200]} after={str(a)[:200]} | in: {witness['query'][:400]}", witness)
            return
    if any(b[0] == "ok" for b in before[1:]):
        ctx.count("obligation:equality-checked")
    # the query as it is born from text (nodes carry source positions), at the start of a line and inside a wrapped, indented
    # expression: what comes back has to be something python can still compile and run
    text = astx.unparse(q)
    for layout, src in (("column-0", text), ("wrapped", "r = (\n        " + text + "\n)")):
        try:
            stmt = ast.parse(src).body[0]
        except SyntaxError:
            break
        born = stmt.value
        try:
            conv = change_extension_functions_to_calls(born)
            compile(ast.fix_missing_locations(ast.Expression(body=conv)), "<query>", "eval")
            ctx.count("text-born-results-compiled")
        except Exception as e:
            ctx.violation(f"text-born-result-does-not-compile:{type(e).__name__}", f"{layout}: {type(e).__name__}: {str(e)[:120]} | in: {text[:300]}", witness)
            return
    if ctx.rnd.random() < 0.3:
        # history: the consumer edits the converted query in place; the next conversion is none of its business
        from ..history import vandalise

        vandalise(out)
        ctx.count("results-edited-in-place-by-their-consumer")
    if len(ctx.samples) < 4 and len(mc) >= 2 and ctx.rnd.random() < 0.03:
        ctx.sample({"in": witness["query"], "out": astx.unparse(out)})


SNIPPET_TEXTS = [
    "ds.Count()", "cfg.jets.Where(lambda j: j.pt > cfg.cut)", "cfg.jets.Select(lambda a: a.trks.Count()).First()", "Count(cfg.jets)",
    "cfg.jets.Select(lambda j: j.pt).Sum()", "ds.Select(lambda e: e.x).Max()", "cfg.jets.select(lambda j: j.pt)", "ds.SelectMany(lambda e: e.jets).Count()",
    "cfg.trks.Aggregate(0, lambda a, b: a + b)", "cfg.jets.First(default=cfg.jets.Count())",
    "e.Sum[0](41)", "e.Max['up'](cfg.jets.Count())", "cfg.Select[float](lambda j: j.pt)", "e.jets.Where[1:](lambda j: j.ok).Count()",
    "fit.Result()", "cfg.jets.ResultParquet('f', ['c'])", "cfg.jets.Counter().Count()", "cfg.jets.Selected(lambda j: j.trks.Count())", "cfg.FirstOrDefault(cfg.jets.First())",
]
SNIPPETS = [(lambda rnd, t=t: astx.parse_expr(t)) for t in SNIPPET_TEXTS]


DIRECTED = [
    # an operator-named data field that is indexed, the element called: no seq.Op(args...)
    "EventDataset().Select(lambda e: e.Sum[0](41) + e.Max['up'](e.jets.Count()))", "cfg.Select[float](lambda j: j.trks.Count())",
    "EventDataset().Select(lambda e: e.jets.Where(lambda j: j.pt > 1).Select(lambda j: j.trks.Count()).Max())",
    "EventDataset().Select(lambda e: e.jets.Select(lambda j: j.pt).Sum() + e.jets.Select(lambda j: j.pt).Min())",
    "EventDataset().Select(lambda e: e.jets.Select(lambda j: j.pt).Aggregate(0, lambda a, v: a + v))",
    "EventDataset().Select(lambda e: e.x).ResultTTree(['c'], 't', 'f')",
    "EventDataset().Select(lambda e: e.x).ResultPandasDF(['c'])",
    "EventDataset().Select(lambda e: e.x).ResultAwkwardArray(['c'])",
    "EventDataset().SelectMany(lambda e: e.jets.Select(lambda j: j.trks.First().pt))",
    "Select(EventDataset(), lambda e: First(e.jets.Where(lambda j: j.pt > 0)).trks.Count())",
    "EventDataset().Select(lambda e: (e.Select, e.jets.Count, Select)[0] if False else e.x)",
    "EventDataset().Filter(lambda e: e.x).select(lambda e: e.jets.Count())",
    "f(x.Select(lambda a: a.Where(lambda b: b.First())), k=y.Count())",
    # keyword arguments of the operator call itself
    "ds.Where(filter=lambda x: x != 1)", "ds.Aggregate(0, func=lambda a, b: a + b.Count())", "ds.Select(lambda e: e.jets.Select(f=lambda j: j.trks.Where(filter=lambda t: t.pt > 1)))",
    "ds.Select(lambda e: e.x, **opts).First(default=ds.Count(strict=True))", "Select(ds.Where(lambda e: e.ok, note='n'), lambda e: e.jets.Count(**kw))",
    "e.jets(calibration=e.raw.Select(lambda r: r.scale()), **{'k': e.trks.Count()})",
    "ds.First().jets.Select(lambda j: j.pt)[0].trks.Count()",
    "e.m(*e.jets.Select(lambda j: j.pt), k=[t.trks.Count() for t in e.jets.Where(lambda j: j.ok)])",
    # python's call and lambda syntax in full: several mappings, starred arguments, defaults (evaluated in the enclosing scope)
    "e.jets.Where(**cut, **extra)", "e.jets.Select(lambda j: j.pt, *rest, **a, **b).Count(*x, *y)", "ds.Select(lambda e, Count=ds.Count(): e.n + Count)",
    "ds.Select(lambda e, *, First=ds.Where(lambda x: x.ok).First(): e.n)", "ds.Select(lambda e, q=ds.Select(lambda f: f.jets.Count()).First(), *Sum, **Max: e.n)",
    "ds.Where(lambda e: (n := e.jets.Count()) > 1 and f'{e.jets.Select(lambda j: j.pt).Max()!r:>{e.trks.Count()}}' != '')",
    "{**ds.First().cfg, 'n': ds.Count()}", "tbl[ds.Count():, e.jets.Count()]", "[t.Count() async for t in src.Select(lambda s: s.all)]" if False else "[t.Count() for t in src.Select(lambda s: s.all) if t.Where(lambda u: u.ok).Count()]",
]


HALF_BUILT = ["a.Select(f)", "a.Select(f).Count()", "g(a.Where(lambda x: x.ok()).First())", "a.m(b)", "ds.Select(lambda e: e.jets.Select(lambda j: j.pt()).Max())", "a.Where(filter=f).Select(g)", "Select(a, f).Count()", "a.First().m() + g()", "a.jets().Select(lambda j: j.pt()).Count()"]


def half_built(ctx):
    from func_adl.ast.func_adl_ast_utils import change_extension_functions_to_calls

    from ..history import half_built_calls

    half_built_calls(ctx, change_extension_functions_to_calls, HALF_BUILT, "change_extension_functions_to_calls")


def shard_main(ctx):
    if ctx.shard == 2 % ctx.nshards:
        half_built(ctx)
    if ctx.shard == 0:
        data = datasets(random.Random(3))
        for t in DIRECTED:
            judge(ctx, astx.parse_expr(t), data, {"directed": t})
    for i in range(N_CASES[ctx.tier]):
        if ctx.out_of_time():
            ctx.count("stopped-by-time-budget")
            break
        rnd = random.Random((ctx.seed * 1000 + ctx.shard) * 100003 + i + 17)
        g = Gen(rnd, naming=["distinct", "identical", "reuse"][i % 3], method_form=[0.5, 1.0, 0.3, 0.7][(i // 3) % 4], called=0.1)
        try:
            q, stages = g.chain(rnd.randint(1, 5), rnd.randint(1, 4))
        except Exception as e:
            ctx.count("generator-failed:" + type(e).__name__)
            continue
        if astx.size(q) > 500:
            ctx.count("skipped:input-too-large")
            continue
        feats = set()
        if rnd.random() < 0.4:
            q, feats = decorate(rnd, q)
        if rnd.random() < 0.35:
            # rare but legitimate python syntax around / inside the calls (vmon/embellish.py); judged by the structural oracles
            q, f2 = embellish(rnd, q, SNIPPETS)
            feats |= {"syntax:" + f for f in f2}
        for f in feats:
            ctx.count("feature:" + f)
        try:
            with case_timeout(4.0):
                judge(ctx, q, datasets(rnd), {"features": sorted(feats)})
        except CaseTimeout:
            ctx.count("inconclusive:case-timeout")


def replay(ctx, witness):
    if witness.get("half_built"):
        half_built(ctx)
        return
    judge(ctx, astx.parse_expr(witness["query"]), datasets(random.Random(3)), witness.get("info", {}))
