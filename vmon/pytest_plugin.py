"""pytest plugin: run the repository's own test-suite under the universal monitors (DESIGN.md section 2).

    /venv/bin/python -m pytest -q -p vmon.pytest_plugin <repo>/tests        (PYTHONPATH must hold /verif and the repo)

U-imm  (C11): every stream that passes through a public ObjectStream operation is snapshotted (fields-only dump of its
              query AST + item type) and all snapshots of the current test are re-verified after every operation.
U-rem  (C15): remove_empty_metadata leaves its argument unchanged and agrees with the reference cleaner.
U-const(C13): constants in the lambda emitted by Select/Where/SelectMany are transportable scalars.
U-hash (C20): structural-key <-> calc_ast_hash stays a bijection over everything the tests hash.
Observations are written as JSON to $VERIF_PLUGIN_OUT at the end of the session; the tests' own outcome is not changed."""
import ast
import json
import os
import types

from . import astx, hooks, refimpl

STATE = {"events": 0, "streams": 0, "violations": [], "counters": {}, "tests": 0}
_registry = {}
_current = [None]
_k2h, _h2k = {}, {}


def _count(k, n=1):
    STATE["counters"][k] = STATE["counters"].get(k, 0) + n


def _violation(prop, sig, msg):
    _count(f"violation:{prop}:{sig}")
    if len(STATE["violations"]) < 50:
        STATE["violations"].append({"property": prop, "sig": sig, "msg": msg[:600], "test": _current[0]})


def _snapshot(s):
    try:
        return (astx.dump_fields(s.query_ast), s.item_type)
    except Exception:
        return None


def _register(s):
    if s is None or not hasattr(s, "query_ast"):
        return
    if id(s) not in _registry:
        snap = _snapshot(s)
        if snap is not None:
            _registry[id(s)] = (s, snap)
            STATE["streams"] += 1


def _verify(after):
    for sid, (s, (dump, ity)) in list(_registry.items()):
        _count("imm:stream-checks")
        now = _snapshot(s)
        if now is None:
            continue
        if now[0] != dump or (now[1] is not ity and now[1] != ity):
            _violation("C11", "stream-changed-in-repository-test", f"a stream changed after {after}: before {dump[:200]} now {now[0][:200]}")
            del _registry[sid]


def install():
    from func_adl import object_stream
    from func_adl.ast import ast_hash, meta_data
    from func_adl.object_stream import ObjectStream

    derive = ["Select", "Where", "SelectMany", "MetaData", "QMetaData", "AsPandasDF", "AsROOTTTree", "AsParquetFiles", "AsAwkwardArray"]
    for name in derive:
        def pre(a, k, name=name):
            if hooks.depth() == 0 and a:
                _register(a[0])
            return hooks.depth()

        def post(tok, result, exc, a, k, name=name):
            if tok != 0:
                return
            STATE["events"] += 1
            if exc is None:
                _register(result)
                if name in ("Select", "Where", "SelectMany"):
                    try:
                        lam = result.query_ast.args[1]
                        for n in astx.walk_nodes(lam):
                            if isinstance(n, ast.Constant) and not isinstance(n.value, (str, int, float, bool, complex, bytes, types.ModuleType)):
                                # classes / enums left as constants are resolved by later stages of the same operator in the
                                # library's own tests (dataclass sugar); only plain data values are judged
                                if not isinstance(n.value, type) and not callable(n.value):
                                    _violation("C13", "non-transportable-constant-in-repository-test", f"{name} emitted Constant of type {type(n.value).__name__}: {astx.unparse(lam)[:200]}")
                        _count("const:lambda-scans")
                    except Exception:
                        pass
            _verify(name)

        hooks.wrap(ObjectStream, name, pre=pre, post=post, track_depth=True)
    # aliases bound at class creation
    for alias, target in (("as_pandas", "AsPandasDF"), ("as_ROOT_tree", "AsROOTTTree"), ("as_parquet", "AsParquetFiles"), ("as_awkward", "AsAwkwardArray")):
        setattr(ObjectStream, alias, getattr(ObjectStream, target))

    orig_rem = meta_data.remove_empty_metadata

    def remove_empty_metadata(a):
        before = astx.dump_fields(a)
        r = orig_rem(a)
        _count("rem:calls")
        if astx.dump_fields(a) != before:
            _violation("C15", "remove-empty-metadata-modified-argument-in-repository-test", f"argument changed: {before[:200]}")
        try:
            if not astx.struct_eq(r, refimpl.remove_empty(astx.parse_expr("x")) if False else refimpl.remove_empty(a)):
                _violation("C15", "remove-empty-metadata-differs-from-reference-in-repository-test", astx.unparse(r)[:200])
        except Exception:
            _count("rem:reference-not-applicable")
        _verify("value()")
        return r

    meta_data.remove_empty_metadata = remove_empty_metadata

    orig_hash = ast_hash.calc_ast_hash

    def calc_ast_hash(a):
        h = orig_hash(a)
        _count("hash:calls")
        try:
            key = astx.dump_fields(a, ctx=True)
        except Exception:
            return h
        if _k2h.setdefault(key, h) != h:
            _violation("C20", "same-structure-different-hash-in-repository-test", key[:200])
        if _h2k.setdefault(h, key) != key:
            _violation("C20", "different-structure-same-hash-in-repository-test", key[:200])
        return h

    ast_hash.calc_ast_hash = calc_ast_hash


def pytest_configure(config):
    install()


def pytest_runtest_setup(item):
    _current[0] = item.nodeid
    _registry.clear()
    STATE["tests"] += 1


def pytest_runtest_teardown(item):
    _verify("test end")
    _registry.clear()


def pytest_sessionfinish(session, exitstatus):
    out = os.environ.get("VERIF_PLUGIN_OUT")
    if out:
        with open(out, "w") as f:
            json.dump(STATE, f, default=repr)
