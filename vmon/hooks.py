"""Attach monitors to the real functions after import (no source hooks needed)."""
import functools
import os
import sys

_depth = [0]


def depth():
    return _depth[0]


def wrap(owner, name, pre=None, post=None, track_depth=False):
    """Replace ``owner.name`` by a wrapper with entry/exit contract semantics.

    pre(args, kwargs) -> token            (called before; may snapshot state)
    post(token, result, exc, args, kwargs) (called after, result or exception in hand)
    Returns the original so callers can restore it.
    """
    orig = owner.__dict__[name] if isinstance(owner, type) else getattr(owner, name)
    raw = orig.__func__ if isinstance(orig, (staticmethod, classmethod)) else orig

    @functools.wraps(raw)
    def w(*a, **k):
        tok = pre(a, k) if pre else None
        if track_depth:
            _depth[0] += 1
        try:
            r = raw(*a, **k)
        except BaseException as e:
            if track_depth:
                _depth[0] -= 1
            if post:
                post(tok, None, e, a, k)
            raise
        if track_depth:
            _depth[0] -= 1
        if post:
            post(tok, r, None, a, k)
        return r

    w.__wrapped_orig__ = orig
    if isinstance(orig, staticmethod):
        setattr(owner, name, staticmethod(w))
    else:
        setattr(owner, name, w)
    return orig


def unwrap(owner, name):
    cur = owner.__dict__[name] if isinstance(owner, type) else getattr(owner, name)
    cur = cur.__func__ if isinstance(cur, staticmethod) else cur
    o = getattr(cur, "__wrapped_orig__", None)
    if o is not None:
        setattr(owner, name, o)


class LineCov:
    """sys.monitoring LINE events, DISABLEd after the first hit: which lines of the anchored
    files did the workload reach (evidence only, ~5% cost)."""

    def __init__(self, repo, rel_files):
        self.files = {os.path.realpath(os.path.join(repo, f)): f for f in rel_files}
        self.hit = {f: set() for f in rel_files}
        self.tool = None

    def start(self):
        mon = sys.monitoring
        for tool in (mon.COVERAGE_ID, mon.PROFILER_ID, 4, 3):
            try:
                mon.use_tool_id(tool, "vmon-linecov")
                self.tool = tool
                break
            except ValueError:
                continue
        if self.tool is None:
            return self

        def on_line(code, line):
            rel = self.files.get(code.co_filename)
            if rel is not None:
                self.hit[rel].add(line)
            return mon.DISABLE

        mon.register_callback(self.tool, mon.events.LINE, on_line)
        mon.set_events(self.tool, mon.events.LINE)
        return self

    def stop(self):
        if self.tool is not None:
            mon = sys.monitoring
            mon.set_events(self.tool, 0)
            mon.register_callback(self.tool, mon.events.LINE, None)
            mon.free_tool_id(self.tool)
            self.tool = None

    def summary(self):
        return {f: len(s) for f, s in self.hit.items()}


class YieldInjector:
    """sys.monitoring LINE events in the named repository files: with probability p the running thread yields
    (time.sleep(0)), which multiplies the thread interleavings seen inside value()/the metadata cleaner."""

    def __init__(self, repo, rel_files, seed=0, p=0.3, calls=False):
        import random

        self.calls = calls  # also yield right before calls made from those files (between argument evaluation and the call)
        self.files = {os.path.realpath(os.path.join(repo, f)) for f in rel_files}
        self.rnd = random.Random(seed)
        self.p = p
        self.tool = None
        self.injected = 0
        self.lines = 0

    def __enter__(self):
        import time

        mon = sys.monitoring
        for tool in (mon.PROFILER_ID, mon.DEBUGGER_ID, 3, 4):
            try:
                mon.use_tool_id(tool, "vmon-yield")
                self.tool = tool
                break
            except ValueError:
                continue
        if self.tool is None or self.p <= 0:
            if self.tool is not None:
                mon.free_tool_id(self.tool)
                self.tool = None
            return self

        def on_line(code, line):
            if code.co_filename not in self.files:
                return mon.DISABLE
            self.lines += 1
            if self.rnd.random() < self.p:
                self.injected += 1
                time.sleep(0)

        def on_call(code, offset, fn, arg0):
            if code.co_filename not in self.files:
                return mon.DISABLE
            self.lines += 1
            if self.rnd.random() < self.p:
                self.injected += 1
                time.sleep(0)

        mon.register_callback(self.tool, mon.events.LINE, on_line)
        if self.calls:
            mon.register_callback(self.tool, mon.events.CALL, on_call)
        mon.set_events(self.tool, mon.events.LINE | (mon.events.CALL if self.calls else 0))
        return self

    def __exit__(self, *a):
        if self.tool is not None:
            mon = sys.monitoring
            mon.set_events(self.tool, 0)
            mon.register_callback(self.tool, mon.events.LINE, None)
            if self.calls:
                mon.register_callback(self.tool, mon.events.CALL, None)
            mon.free_tool_id(self.tool)
            self.tool = None
        return False
