"""Generated typed class models (C07, C08, C09): real classes built with exec() so that
inspect.signature / get_type_hints see real annotations."""
import inspect
import itertools
import random

_mid = itertools.count()

DEFAULT_POOL = [1, 0, -3, 2.5, -0.5, True, False, "s", "q'x", 7, 1.0, 0.0, True, False, 1.0, 0.0, -0.0, "1", ""]
TYPE_OF = {int: "int", float: "float", bool: "bool", str: "str"}


def gen_signature(rnd, max_params=4, names=None):
    """-> list of (name, annotation text, default or inspect._empty)"""
    n = rnd.randint(0, max_params)
    pool = list(names or ["a", "b", "c", "d", "x", "j", "e", "scale"])
    rnd.shuffle(pool)
    nreq = rnd.randint(0, n)
    out = []
    for i in range(n):
        if i < nreq:
            out.append((pool[i], rnd.choice(["int", "float"]), inspect.Parameter.empty))
        else:
            d = rnd.choice(DEFAULT_POOL)
            out.append((pool[i], TYPE_OF[type(d)], d))
    return out


RECEIVER = "self"  # the name generated methods give the object they are called on (set per model: python does not care)


def sig_text(params, self_=True):
    parts = [RECEIVER] if self_ else []
    for n, t, d in params:
        parts.append(f"{n}: {t}" + ("" if d is inspect.Parameter.empty else f" = {d!r}"))
    return ", ".join(parts)


class Model:
    """Event -> jets (several collection flavours) -> trks; scalar methods with generated signatures;
    the same method names on different classes with different signatures; registered functions."""

    def __init__(self, rnd, callbacks=False):
        global RECEIVER
        self.rnd = rnd
        self.id = next(_mid)
        self.receiver = RECEIVER = rnd.choice(["self", "self", "self", "this", "me"])
        self.quoted = rnd.random() < 0.35
        self.sigs = {}  # (cls, method) -> params
        self.ret = {}  # (cls, method) -> return type text
        self.funcs = {}  # function name -> params
        names = ["m0", "m1", "m2", "m3"]
        src = [
            "from typing import Iterable, TypeVar, Generic, Any",
            "import functools",
            "from func_adl import ObjectStream, func_adl_callable, register_func_adl_os_collection",
            "from func_adl.type_based_replacement import ObjectStreamInternalMethods",
            "T = TypeVar('T')",
            "S = TypeVar('S')",
            "class MyIter(Iterable[T]):",
            "    def own(self, n: int = 3) -> int: ...",
            # a method named like an operator that a registered collection class also defines (RegColl.Take below), with a REQUIRED
            # parameter; and methods that take no instance (on a generic class, reached through the parameterised alias MyIter[X])
            "    def Take(self, n: int, m: int = 2) -> int: ...",
            "    @staticmethod",
            "    def scale_for(wp: str = 'loose', f: float = 1.0) -> float: ...",
            "    @classmethod",
            "    def reserve(cls, n: int = 4, pad: int = 1) -> int: ...",
            "    @staticmethod",
            "    def clamp(value: float, lo: float = 0.0, hi: float = 1.0) -> float: ...",
            # model classes that derive from one of python's own types: their inherited methods are method descriptors
            "class Hits(list):",
            "    def nhits(self, scale: int = 2) -> int: ...",
            "class Label(str):",
            "    pass",
            "@register_func_adl_os_collection",
            "class RegColl(ObjectStreamInternalMethods[T]):",
            "    def __init__(self, a, item_type=Any):",
            "        super().__init__(a, item_type)",
            "    def Take(self, n: int = 5) -> 'RegColl[T]': ...",
        ]
        # a diamond: Jet(Tagged, Calibrated), both from Particle0; only Calibrated overrides dm (python's MRO picks Calibrated.dm)
        pd = [("a", "float", 1.0), ("u", "str", "MeV")]
        cd = [("a", "float", 1.02), ("u", "str", "Ge'V\n")]
        src += ["class Particle0:", f"    def dm({sig_text(pd)}) -> float: ...", "class Tagged(Particle0):", "    pass", "class Calibrated(Particle0):", f"    def dm({sig_text(cd)}) -> float: ..."]
        self.sigs[("Jet", "dm")] = cd
        self.ret[("Jet", "dm")] = "float"
        E = inspect.Parameter.empty
        for owner in ("MyIter", "Jet"):
            self.sigs[(owner, "scale_for")] = [("wp", "str", "loose"), ("f", "float", 1.0)]
            self.sigs[(owner, "reserve")] = [("n", "int", 4), ("pad", "int", 1)]
            self.sigs[(owner, "clamp")] = [("value", "float", E), ("lo", "float", 0.0), ("hi", "float", 1.0)]
        self.sigs[("MyIter", "Take")] = [("n", "int", E), ("m", "int", 2)]
        self.sigs[("MyIter", "own")] = [("n", "int", 3)]
        import sys

        self.sigs[("Hits", "count")] = [("value", "int", E)]
        self.sigs[("Hits", "index")] = [("value", "int", E), ("start", "int", 0), ("stop", "int", sys.maxsize)]
        self.sigs[("Hits", "nhits")] = [("scale", "int", 2)]
        self.sigs[("Label", "upper")] = []
        self.sigs[("Label", "zfill")] = [("width", "int", E)]
        for cls in ("Trk", "TJet", "Jet", "Event"):
            self.sigs[(cls, "hits")] = []
            self.sigs[(cls, "label")] = []
        for cls in ("Trk", "TJet", "Jet", "Event"):
            if cls == "Jet":
                # (the namesake written so far gets its place: a class called Jet inside a namespace class)
                at = src.index("class TJet:")
                src[at:] = ["class Truth:", "    class Jet:"] + ["    " + ln for ln in src[at + 1:]]
            src.append(f"class {cls}(Tagged, Calibrated):" if cls == "Jet" else f"class {cls}:")
            # a method whose result type is a type variable nothing binds: the call is still a known call
            src.append("    def gen(self, x: S, strict: bool = False, level: int = 3) -> S: ...")
            # a method behind a wrapper (inspect.signature looks through it, the object is no plain function)
            src += ["    @functools.lru_cache(maxsize=None)", f"    def cached({RECEIVER}, a: int = 1, b: float = 2.0) -> float: ..."]
            self.sigs[(cls, "cached")] = [("a", "int", 1), ("b", "float", 2.0)]
            self.ret[(cls, "cached")] = "float"
            # ... and a classmethod behind one (bound already when it is looked up: the wrapper's signature has no receiver)
            src += ["    @classmethod", "    @functools.lru_cache(maxsize=None)", "    def cached_cls(cls, scale: float = 1.0, unit: str = 'GeV') -> float: ..."]
            self.sigs[(cls, "cached_cls")] = [("scale", "float", 1.0), ("unit", "str", "GeV")]
            self.ret[(cls, "cached_cls")] = "float"
            src += ["    def hits(self) -> Hits: ...", "    def label(self) -> Label: ..."]
            # model methods that merely carry the NAME of something a stream has (value, as_pandas, QMetaData)
            src += [f"    def value({RECEIVER}, scale: float = 1.0, unit: str = 'GeV') -> float: ...", f"    def as_pandas({RECEIVER}, n: int = 3) -> float: ...", f"    def QMetaData({RECEIVER}, key: str, dflt: int = 0) -> int: ..."]
            self.sigs[(cls, "value")] = [("scale", "float", 1.0), ("unit", "str", "GeV")]
            self.sigs[(cls, "as_pandas")] = [("n", "int", 3)]
            self.sigs[(cls, "QMetaData")] = [("key", "str", E), ("dflt", "int", 0)]
            for mn in ("value", "as_pandas", "QMetaData"):
                self.ret[(cls, mn)] = "float"
            self.sigs[(cls, "gen")] = [("x", "S", E), ("strict", "bool", False), ("level", "int", 3)]
            self.ret[(cls, "gen")] = "Any"
            for m in names:
                params = gen_signature(rnd)
                rt = rnd.choice(["float", "float", "int", "bool"])
                self.sigs[(cls, m)] = params
                self.ret[(cls, m)] = rt
                src.append(f"    def {m}({sig_text(params)}) -> {rt}: ...")
            if cls == "Jet":
                src += ["    @staticmethod", "    def scale_for(wp: str = 'loose', f: float = 1.0) -> float: ...", "    @classmethod", "    def reserve(cls, n: int = 4, pad: int = 1) -> int: ...",
                        "    @staticmethod", "    def clamp(value: float, lo: float = 0.0, hi: float = 1.0) -> float: ..."]
                for cm, ct in (("trks", "Iterable[Trk]"), ("trks_my", "MyIter[Trk]"), ("trks_reg", "RegColl[Trk]")):
                    if self.quoted:
                        ct = ct.replace("[Trk]", f"['Trk_{self.id}']")
                    params = gen_signature(rnd, 2)
                    self.sigs[(cls, cm)] = params
                    self.ret[(cls, cm)] = ct
                    src.append(f"    def {cm}({sig_text(params)}) -> {ct}: ...")
            if cls == "Event":
                # tjets: objects of ANOTHER class that is called Jet too (Truth.Jet), with the same method names and other signatures
                for cm, ct in (("jets", "Iterable[Jet]"), ("jets_my", "MyIter[Jet]"), ("jets_reg", "RegColl[Jet]"), ("trks", "Iterable[Trk]"), ("tjets", "Iterable[Truth.Jet]")):
                    if self.quoted:
                        ct = ct.replace("[Jet]", f"['Jet_{self.id}']").replace("[Trk]", f"['Trk_{self.id}']")
                    params = gen_signature(rnd, 2)
                    self.sigs[(cls, cm)] = params
                    self.ret[(cls, cm)] = ct
                    src.append(f"    def {cm}({sig_text(params)}) -> {ct}: ...")
        for i in range(3):
            fn = f"tmf{self.id}_{i}"
            # (a plain function may well call a parameter `self`)
            params = gen_signature(rnd, 3, names=["a", "b", "c", "x", "self"])
            self.funcs[fn] = params
            self.ret[("func", fn)] = "float"
            src.append("@func_adl_callable()")
            src.append(f"def {fn}({sig_text(params, self_=False)}) -> float: ...")
        # a registered function whose processor hands back a NEW call node and whose result is a typed object: calls chained on
        # the result are typed call sites too
        lead = f"tml{self.id}"
        lp = [("x", "float", E), ("n", "int", 2)]
        self.funcs_typed = {lead: (lp, "Jet")}
        src += ["import ast as _ast", "def _proc_new_node(s, a):", "    return s, _ast.Call(func=a.func, args=list(a.args), keywords=list(a.keywords))",
                "@func_adl_callable(_proc_new_node)", f"def {lead}({sig_text(lp, self_=False)}) -> Jet: ..."]
        RECEIVER = "self"
        # (python's typing module caches `Iterable['Jet']` - and what the name evaluated to - per process: the quoted names are
        # unique to this model, as the class names of one real program are)
        src += [f"Jet_{self.id} = Jet", f"Trk_{self.id} = Trk"]
        self.source = "\n".join(src) + "\n"
        self.ns = {}
        exec(compile(self.source, f"<typedmodel{self.id}>", "exec"), self.ns)
        self.Event, self.Jet, self.Trk = self.ns["Event"], self.ns["Jet"], self.ns["Trk"]
        self.ns["TJet"] = self.ns["Truth"].Jet

    def redefine_method(self, rnd, cls, meth):
        """History: a method of an already-used class is declared again with another signature."""
        global RECEIVER
        params = gen_signature(rnd)
        rt = self.ret[(cls, meth)]
        ns = dict(self.ns)
        RECEIVER = self.receiver
        text = f"def {meth}({sig_text(params)}) -> {rt}: ..."
        RECEIVER = "self"
        exec(text, ns)
        setattr(self.ns[cls], meth, ns[meth])
        self.sigs[(cls, meth)] = params

    def cleanup(self):
        from func_adl import type_based_replacement as tbr

        for fn in list(self.funcs) + list(getattr(self, "funcs_typed", {})):
            tbr._global_functions.pop(fn, None)
        tbr._g_collection_classes.pop(self.ns.get("RegColl"), None)

    ELEM = {"jets": "Jet", "jets_my": "Jet", "jets_reg": "Jet", "trks": "Trk", "trks_my": "Trk", "trks_reg": "Trk", "tjets": "TJet"}
    COLLS = {"Event": ["jets", "jets_my", "jets_reg", "trks", "tjets"], "Jet": ["trks", "trks_my", "trks_reg"], "Trk": [], "TJet": []}
