"""Runner: shards, verdicts, known findings, evidence.  See DESIGN.md sections 2, 5, 6."""
import collections
import hashlib
import importlib
import json
import os
import random
import subprocess
import sys
import time
import traceback

VERIF = os.path.dirname(os.path.dirname(os.path.abspath(__file__)))
REPO = os.environ.get("VERIF_REPO", "/repo")
PY = "/venv/bin/python"
NSHARDS = int(os.environ.get("VERIF_SHARDS", "16"))
MAX_SAMPLES = 5
MAX_VIOL_PER_SIG = 3


def setup_repo_path():
    """Make ``import func_adl`` resolve to the working tree under test and prove it."""
    if REPO in sys.path:
        sys.path.remove(REPO)
    sys.path.insert(0, REPO)
    import logging

    logging.disable(logging.CRITICAL)
    import func_adl

    f = os.path.realpath(func_adl.__file__)
    if not f.startswith(os.path.realpath(REPO) + os.sep):
        raise RuntimeError(f"func_adl imported from {f}, not from {REPO}")
    return func_adl


def h(s):
    if not isinstance(s, (bytes, bytearray)):
        s = str(s).encode("utf-8", "backslashreplace")
    return hashlib.md5(s).hexdigest()[:14]


class Ctx:
    """Per-shard collector handed to a property's ``shard_main``."""

    def __init__(self, prop, tier, seed, shard, nshards):
        self.prop, self.tier, self.seed, self.shard, self.nshards = prop, tier, seed, shard, nshards
        self.rnd = random.Random(seed * 1000 + shard)
        self.counters = collections.Counter()
        self.evaluations = 0
        self.nontrivial = set()
        self.violations = []
        self._per_sig = collections.Counter()
        self.samples = []
        self.foreign = []
        self.notes = {}
        self.t0 = time.time()
        self.deadline = None
        self.threads = 0
        self._prnd = random.Random(seed * 977 + shard * 13 + 5)
        self.error_paths = os.environ.get("VERIF_NO_ERROR_PATHS") is None and tier != "replay"

    def count(self, k, n=1):
        self.counters[k] += n

    def case(self, key=None, nontrivial=False):
        """One deciding evaluation of the oracle.  ``key`` identifies the case for distinctness."""
        self.evaluations += 1
        if nontrivial and key is not None:
            if len(self.nontrivial) < 150000:  # beyond this the distinct count is a lower bound (memory)
                self.nontrivial.add(h(key))
            else:
                self.counters["nontrivial-beyond-distinctness-cap"] += 1

    def sample(self, obj, force=False):
        if len(self.samples) < MAX_SAMPLES or force:
            self.samples.append(obj)

    def violation(self, sig, msg, witness):
        self._per_sig[sig] += 1
        self.counters["violation:" + sig] += 1
        if self._per_sig[sig] <= MAX_VIOL_PER_SIG:
            if self.threads:
                msg = f"[while {self.threads} threads were building / transforming queries concurrently] " + msg
                witness = dict(witness or {}, concurrent_threads=self.threads)
            self.violations.append({"sig": sig, "msg": msg, "witness": witness})

    def foreign_obs(self, prop, msg):
        self.counters[f"foreign:{prop}"] += 1
        if len(self.foreign) < 5:
            self.foreign.append({"property": prop, "msg": msg})

    def out_of_time(self):
        """Called by every check between two cases: also the point where an error-path history step is thrown in (a library call
        that is refused deep inside a nested visit; see vmon/poison.py) - the following case is judged as always."""
        if self.error_paths and self._prnd.random() < 0.2:
            from . import poison

            poison.throw(self._prnd, self)
        return self.deadline is not None and time.time() > self.deadline

    def result(self):
        return {
            "shard": self.shard,
            "evaluations": self.evaluations,
            "nontrivial": sorted(self.nontrivial),
            "counters": dict(self.counters),
            "violations": self.violations,
            "samples": self.samples,
            "foreign": self.foreign,
            "notes": self.notes,
            "wall_s": time.time() - self.t0,
        }


class AbortShard(Exception):
    """Raised by a check after it has recorded a violation that leaves the process unusable (e.g. a deadlocked worker thread of the
    library): the shard writes what it has and leaves with os._exit, without waiting for stuck threads."""


class CaseTimeout(BaseException):
    """Raised inside a case by the per-case wall-clock watchdog (inconclusive, never a violation)."""


class case_timeout:
    """``with case_timeout(sec):`` - SIGALRM based, main thread only."""

    def __init__(self, sec):
        self.sec = sec

    def __enter__(self):
        import signal
        import threading

        self._main = threading.current_thread() is threading.main_thread()
        if not self._main:
            return

        def onalarm(signum, frame):
            raise CaseTimeout()

        self._old = signal.signal(signal.SIGALRM, onalarm)
        signal.setitimer(signal.ITIMER_REAL, self.sec)

    def __exit__(self, et, ev, tb):
        import signal

        if not self._main:
            return False
        signal.setitimer(signal.ITIMER_REAL, 0)
        signal.signal(signal.SIGALRM, self._old)
        return False


def repo_tests_under_monitors(ctx, prop):
    """Run the repository's own suite under the universal monitors (vmon/pytest_plugin.py) in a subprocess and fold
    what the monitors of ``prop`` observed into this shard's result."""
    out = os.path.join(os.environ.get("VERIF_WORK", "/var/tmp"), f"plugin-{os.getpid()}.json")
    env = dict(os.environ)
    env["PYTHONPATH"] = VERIF + os.pathsep + REPO
    env["VERIF_PLUGIN_OUT"] = out
    try:
        r = subprocess.run([PY, "-B", "-m", "pytest", "-q", "-x", "-p", "vmon.pytest_plugin", "-p", "no:cacheprovider", os.path.join(REPO, "tests")],
                           cwd=REPO, env=env, capture_output=True, text=True, timeout=600)
    except subprocess.TimeoutExpired:
        ctx.count("inconclusive:repository-suite-under-monitors-timed-out")
        return
    if not os.path.exists(out):
        ctx.count("inconclusive:repository-suite-under-monitors-no-output")
        ctx.notes["repo_suite_tail"] = r.stdout[-300:]
        return
    d = json.load(open(out))
    os.unlink(out)
    ctx.count("repository-tests-run-under-monitors", d.get("tests", 0))
    ctx.notes["repo_suite_summary"] = r.stdout.strip().splitlines()[-1][:120] if r.stdout.strip() else ""
    for k, v in d.get("counters", {}).items():
        ctx.count("repo-suite:" + k, v)
    ctx.evaluations += d.get("events", 0)
    for v in d.get("violations", []):
        if v["property"] == prop:
            ctx.violation(v["sig"], f"{v['msg']} (repository test {v['test']})", {"repository_test": v["test"]})
        else:
            ctx.foreign_obs(v["property"], v["msg"])


def load_prop(prop):
    return importlib.import_module(f"vmon.props.{prop.lower()}")


def shard_entry(argv):
    """``python -m vmon.core --shard <prop> <tier> <seed> <k> <n> <out>`` (one subprocess)."""
    prop, tier, seed, k, n, out = argv[0], argv[1], int(argv[2]), int(argv[3]), int(argv[4]), argv[5]
    setup_repo_path()
    mod = load_prop(prop)
    ctx = Ctx(prop, tier, seed, k, n)
    budget = getattr(mod, "TIME_BUDGET", {}).get(tier)
    if budget:
        ctx.deadline = time.time() + budget
    res = {"crashed": None}
    cov = None
    anchors = mod.META.get("anchors")
    if os.environ.get("VERIF_LINES_OUT"):  # tools/cov_union.py: line coverage of the whole library, not only of the anchored files
        anchors = sorted(set(anchors or []) | {os.path.relpath(os.path.join(dp, f), REPO) for dp, _, fs in os.walk(os.path.join(REPO, "func_adl")) for f in fs if f.endswith(".py")})
    if anchors and os.environ.get("VERIF_LINECOV", "1") == "1":
        from .hooks import LineCov

        cov = LineCov(REPO, anchors).start()
    if sys.flags.optimize:
        ctx.count("shards-run-with-assertions-stripped (python -O)")
    if "no_debug_ranges" in getattr(sys, "_xoptions", {}):
        ctx.count("shards-run-without-instruction-positions (python -X no_debug_ranges)")
    nthreads = mod.META.get("threads", 0) if (k % 8 == 3 and not os.environ.get("VERIF_NO_THREADS")) else 0
    extra = []
    try:
        if nthreads:
            # schedule dimension: this shard's workload runs in several threads at once, each with its own cases, its own
            # library objects and its own collector; the per-case oracles do not depend on any state, so whatever the library
            # keeps per process / per class instead of per call shows up as an ordinary violation
            import threading

            from . import modgen

            modgen.DEFER_CLEANUP[0] = True
            sys.setswitchinterval(1e-5)
            ctx.count("shards-run-as-concurrent-threads")
            ctx.count("concurrent-threads", nthreads)
            extra = [Ctx(prop, tier, seed, k + 1000 * (i + 1), n) for i in range(nthreads - 1)]
            for c in [ctx] + extra:
                c.threads = nthreads
            errs = []

            def run(c):
                c.deadline = ctx.deadline
                c.error_paths = False  # error-path steps stay in the first thread
                try:
                    mod.shard_main(c)
                except Exception:
                    errs.append(traceback.format_exc())

            from .hooks import YieldInjector

            ths = [threading.Thread(target=run, args=(c,), daemon=True) for c in extra]
            # injected yields at statement starts inside the anchored library files multiply the interleavings actually seen
            with YieldInjector(REPO, anchors or [], seed=seed * 31 + k, p=float(os.environ.get("VERIF_YIELD_P", "0.02" if tier == "thorough" else "0")), calls=True) as yi:
                for t in ths:
                    t.start()
                try:
                    mod.shard_main(ctx)
                finally:
                    for t in ths:
                        t.join(timeout=600)
            ctx.count("yield-injection:library-lines-seen", yi.lines)
            ctx.count("yield-injection:yields-injected", yi.injected)
            modgen.cleanup(force=True)
            if errs:
                res["crashed"] = errs[0]
        else:
            mod.shard_main(ctx)
    except Exception as e:
        # (this module runs as __main__ in a shard while the property modules import it as vmon.core: the class is matched by name)
        if type(e).__name__ == "AbortShard":
            res["aborted"] = True
        else:
            res["crashed"] = traceback.format_exc()
    for c in extra:
        ctx.evaluations += c.evaluations
        ctx.nontrivial |= c.nontrivial
        ctx.counters.update(c.counters)
        for v in c.violations:
            v.setdefault("witness", {})
            ctx.violations.append(v)
        ctx.samples.extend(c.samples[:1])
    if cov is not None:
        cov.stop()
        ctx.notes["_lines"] = {f: sorted(v) for f, v in cov.hit.items()}
    res.update(ctx.result())
    with open(out, "w") as f:
        json.dump(res, f, default=repr)
        f.flush()
        os.fsync(f.fileno())
    if res.get("aborted"):
        os._exit(0)


def read_known(prop):
    """-> (known: list of (sig, text), fixed: list of text) for this property."""
    known, fixed = [], []
    p = os.path.join(VERIF, "known_findings.txt")
    if os.path.exists(p):
        for line in open(p):
            line = line.strip()
            if not line or line.startswith("#"):
                continue
            kind, _, rest = line.partition(":")
            rest = rest.strip()
            toks = rest.split()
            kv = dict(t.split("=", 1) for t in toks[:2] if "=" in t)
            if kv.get("property") != prop:
                continue
            if kind == "known":
                text = rest.split(None, 2)[2] if len(toks) > 2 else ""
                known.append((kv.get("sig", ""), text))
            elif kind == "fixed":
                fixed.append(rest)
    return known, fixed


def run_check(prop, tier, replay=None):
    t0 = time.time()
    seed = int(os.environ.get("VERIF_SEED", "0"))
    mod = load_prop(prop)
    meta = mod.META
    work = os.path.join(VERIF, ".work", f"{prop}-{tier}-{os.getpid()}")
    os.makedirs(work, exist_ok=True)
    env = dict(os.environ)
    env.setdefault("PYTHONHASHSEED", "0")
    env["PYTHONPATH"] = VERIF
    env["VERIF_WORK"] = work
    env["PYTHONDONTWRITEBYTECODE"] = "1"
    nsh = meta.get("shards", {}).get(tier, NSHARDS)
    watchdog = meta.get("watchdog_s", {}).get(tier, 240 if tier == "quick" else 1500)
    procs = []
    for k in range(nsh):
        out = os.path.join(work, f"shard{k}.json")
        # configuration dimension: every fourth shard runs the library with assertions stripped (python -O); the library uses
        # assert statements on its paths, the properties do not depend on the interpreter's optimisation mode
        opt = ["-O"] if (k % 4 == 1 and not os.environ.get("VERIF_NO_O")) else []
        if meta.get("no_debug_ranges") and k % 8 == 6:
            opt = ["-X", "no_debug_ranges"]  # python keeps no column positions for instructions
        p = subprocess.Popen(
            [PY, "-B"] + opt + ["-m", "vmon.core", "--shard", prop, tier, str(seed), str(k), str(nsh), out],
            cwd=VERIF, env=env, stdout=subprocess.PIPE, stderr=subprocess.STDOUT,
        )
        procs.append((k, p, out))
    results, inconclusive = [], []
    for k, p, out in procs:
        try:
            so, _ = p.communicate(timeout=max(1, watchdog - (time.time() - t0)))
        except subprocess.TimeoutExpired:
            p.kill()
            p.communicate()
            inconclusive.append(f"shard {k}: watchdog ({watchdog}s) fired")
            continue
        if p.returncode != 0 or not os.path.exists(out):
            inconclusive.append(f"shard {k}: exit {p.returncode}: {so.decode(errors='replace')[-400:]}")
            continue
        r = json.load(open(out))
        if r.get("crashed"):
            inconclusive.append(f"shard {k}: harness exception: {r['crashed'][-600:]}")
        results.append(r)
    import shutil

    shutil.rmtree(work, ignore_errors=True)
    return finish(prop, tier, seed, meta, results, inconclusive, time.time() - t0)


def finish(prop, tier, seed, meta, results, inconclusive, wall):
    counters = collections.Counter()
    nontrivial = set()
    evaluations = 0
    samples, foreign, notes = [], [], {}
    by_sig = collections.OrderedDict()
    lines_hit = {}
    for r in results:
        evaluations += r["evaluations"]
        nontrivial.update(r["nontrivial"])
        counters.update(r["counters"])
        for s in r["samples"]:
            if len(samples) < MAX_SAMPLES:
                samples.append(s)
        foreign.extend(r["foreign"])
        for k, v in r.get("notes", {}).items():
            if k == "_lines":
                for f, ls in v.items():
                    lines_hit.setdefault(f, set()).update(ls)
                continue
            notes.setdefault(k, v)
        for v in r["violations"]:
            by_sig.setdefault(v["sig"], []).append(v)
    known, fixed = read_known(prop)
    known_sigs = {s: t for s, t in known}
    new, matched = [], collections.OrderedDict()
    for sig, vs in by_sig.items():
        if sig in known_sigs:
            matched[sig] = vs
        else:
            new.append((sig, vs))
    # floors -> inconclusive
    floor_eval = meta.get("floor_evaluations", {}).get(tier, 1)
    floor_nt = meta.get("floor_nontrivial", {}).get(tier, 2)
    if evaluations < floor_eval:
        inconclusive.append(f"only {evaluations} monitor evaluations (floor {floor_eval})")
    if len(nontrivial) < floor_nt:
        inconclusive.append(f"only {len(nontrivial)} distinct non-trivial cases (floor {floor_nt})")
    for key, floor in meta.get("floor_counters", {}).get(tier, {}).items():
        if counters.get(key, 0) < floor:
            inconclusive.append(f"counter {key}={counters.get(key, 0)} below floor {floor}")
    os.makedirs(os.path.join(VERIF, "replays", prop), exist_ok=True)
    lines = []
    for sig, text in known:
        n = counters.get("violation:" + sig, 0)
        lines.append(f"KNOWN-FINDING: property={prop} {text} [sig={sig}; observed {n}x in this run]")
    vio_paths = []
    for sig, vs in new:
        path = os.path.join(VERIF, "replays", prop, f"{h(sig)}.json")
        with open(path, "w") as f:
            json.dump({"property": prop, "sig": sig, "tier": tier, "seed": seed, "violations": vs}, f, indent=1, default=repr)
        vio_paths.append(path)
        lines.append(f"VIOLATION property={prop} replay={path}")
        lines.append(f"  sig={sig} count={counters.get('violation:' + sig)} :: {vs[0]['msg'][:600]}")
    cov = {
        "evaluations": evaluations,
        "distinct_nontrivial": len(nontrivial),
        "rule": meta["rule"],
        "samples": samples or ["<none>"],
        "counters": {k: v for k, v in sorted(counters.items())},
        "known_findings_matched": {s: counters.get("violation:" + s, 0) for s in known_sigs},
        "new_violation_signatures": [s for s, _ in new],
        "foreign_observations": foreign[:10],
        "inconclusive_reasons": inconclusive,
        "shards": len(results),
        "exhaustive": bool(meta.get("exhaustive", {}).get(tier, False)) and not counters.get("stopped-by-time-budget") and not inconclusive,
    }
    cov.update(notes)
    if lines_hit and os.environ.get("VERIF_LINES_OUT"):
        os.makedirs(os.environ["VERIF_LINES_OUT"], exist_ok=True)
        with open(os.path.join(os.environ["VERIF_LINES_OUT"], f"{prop}.lines.json"), "w") as f:
            json.dump({k: sorted(v) for k, v in lines_hit.items()}, f)
    if lines_hit:
        cov["anchored_source_lines_executed"] = {f: len(v) for f, v in sorted(lines_hit.items())}
    ev = {
        "property_id": prop,
        "tier": tier,
        "seed": seed,
        "level": "exploration",
        "coverage": cov,
        "assumptions": meta.get("assumptions", []),
        "wall_s": round(wall, 2),
        "violations": len(new),
    }
    evdir = os.environ.get("VERIF_EVIDENCE_DIR") or os.path.join(VERIF, "evidence")
    os.makedirs(evdir, exist_ok=True)
    with open(os.path.join(evdir, f"{prop}.json"), "w") as f:
        json.dump(ev, f, indent=1, default=repr)
    for ln in lines:
        print(ln)
    verdict = "VIOLATED" if new else ("INCONCLUSIVE" if inconclusive else "HELD")
    print(
        f"{prop} {tier} seed={seed}: {verdict}; evaluations={evaluations} distinct_nontrivial={len(nontrivial)} "
        f"new_violation_sigs={len(new)} known_matched={len(matched)} wall={wall:.1f}s"
    )
    for r in inconclusive:
        print("  inconclusive:", r[:800])
    if new:
        return 1
    if inconclusive:
        return 2
    return 0


def do_replay(prop, path):
    setup_repo_path()
    mod = load_prop(prop)
    data = json.load(open(path))
    bad = 0
    for v in data["violations"]:
        ctx = Ctx(prop, "replay", data.get("seed", 0), 0, 1)
        mod.replay(ctx, v["witness"])
        for nv in ctx.violations:
            bad += 1
            print(f"VIOLATION property={prop} replay={path}")
            print(f"  sig={nv['sig']} :: {nv['msg'][:1000]}")
        if not ctx.violations:
            print(f"replay of sig={v['sig']}: no violation on the current tree")
    return 1 if bad else 0


def main(argv):
    if argv and argv[0] == "--shard":
        shard_entry(argv[1:])
        return 0
    if argv and argv[0] == "--selftest":
        from . import selftest

        return selftest.run()
    prop = argv[0].upper()
    if len(argv) >= 3 and argv[1] == "--replay":
        return do_replay(prop, argv[2])
    tier = argv[1] if len(argv) > 1 else os.environ.get("VERIF_TIER", "quick")
    return run_check(prop, tier)


if __name__ == "__main__":
    sys.exit(main(sys.argv[1:]))
