"""Harness self-test (MANIFEST.setup_cmd): the oracles against hand-checked tables, and that
func_adl imports from the tree under test."""
import ast


def run():
    from . import astx, refeval
    from .core import setup_repo_path

    bad = []
    n, b = refeval.selftest()
    bad += [("refeval", x) for x in b]
    # astx
    a = astx.parse_expr("lambda x: [y.a for y in x.b if y > z][0] + f(1, k=2.0)")
    if astx.free_names(a) != {"f", "z"}:
        bad.append(("free_names", astx.free_names(a)))
    if not astx.struct_eq(a, astx.clone(a)):
        bad.append(("clone", "not equal"))
    if astx.dump_fields(astx.C(1)) == astx.dump_fields(astx.C(1.0)) or astx.dump_fields(astx.C(1)) == astx.dump_fields(astx.C(True)):
        bad.append(("dump_fields", "constant types conflated"))
    r = astx.alpha_rename(astx.parse_expr("lambda x: (lambda x, y: x + y)(x, y=x)"))
    if astx.unparse(r) != "lambda _r1: (lambda _r2, _r3: _r2 + _r3)(_r1, _r3=_r1)":
        bad.append(("alpha_rename", astx.unparse(r)))
    if astx.well_formed(ast.Subscript(value=astx.N("a"), slice="b", ctx=ast.Load())) is None:
        bad.append(("well_formed", "raw str slice accepted"))
    try:
        from . import probe

        pb = probe.selftest()
        bad += [("probe", x) for x in pb]
    except ImportError:
        pass
    fa = setup_repo_path()
    print(f"selftest: refeval {n} cases; func_adl from {fa.__file__}; failures: {len(bad)}")
    for x in bad:
        print("  FAIL", x)
    return 1 if bad else 0
