"""Symbolic probe: the behavioural oracle for "the recorded lambda behaves like the callable that
was passed" (DESIGN.md 3.2; C03, C04, C05).

A value ``P(term)`` on which every operation returns a new ``P`` whose term is the canonical text of
the operation.  A callable passed as an argument is applied to fresh bound probes and its result
term embedded, so nested ``.Select(lambda j: ...)`` is traced through.  ``__bool__`` consults a
decision schedule, and ``behaviour`` enumerates all schedules, so and/or/not/conditionals are
covered as a decision tree."""
import inspect
import re


class ProbeError(Exception):
    pass


import threading


class _State(threading.local):
    """decision schedule of the probe run in progress - per thread (a shard may run its workload in several threads)"""

    def __init__(self):
        self.depth = 0
        self.uid = 0
        self.schedule = []
        self.pos = 0
        self.trace = []


_st = _State()


class P:
    __slots__ = ("t",)

    def __init__(self, t):
        self.t = t

    def __getattr__(self, n):
        if n.startswith("__") and n.endswith("__"):
            raise AttributeError(n)
        return P(f"{self.t}.{n}")

    def __call__(self, *a, **k):
        parts = [term(x) for x in a] + [f"{kk}={term(v)}" for kk, v in sorted(k.items())]
        return P(f"{self.t}({', '.join(parts)})")

    def __format__(self, spec):
        return f"<{self.t}:{spec}>"

    def __str__(self):
        return f"<str {self.t}>"

    def __repr__(self):
        return f"<repr {self.t}>"

    def __getitem__(self, i):
        if isinstance(i, slice):
            return P(f"{self.t}[{term(i.start)}:{term(i.stop)}:{term(i.step)}]")
        return P(f"{self.t}[{term(i)}]")

    def __bool__(self):
        if _st.pos < len(_st.schedule):
            d = _st.schedule[_st.pos]
        else:
            d = True
            _st.schedule.append(d)
        _st.pos += 1
        _st.trace.append((self.t, d))
        if len(_st.trace) > 12:
            raise ProbeError("too many decisions")
        return d

    def __iter__(self):
        raise ProbeError("probe is not iterable")

    def __hash__(self):
        return hash(self.t)

    def __neg__(self):
        return P(f"(-{self.t})")

    def __pos__(self):
        return P(f"(+{self.t})")

    def __invert__(self):
        return P(f"(~{self.t})")

    def __abs__(self):
        return P(f"abs({self.t})")

    def __contains__(self, o):
        return bool(P(f"({term(o)} in {self.t})"))

    def __len__(self):
        raise ProbeError("len of probe")


def _bin(op):
    return (lambda s, o: P(f"({s.t} {op} {term(o)})")), (lambda s, o: P(f"({term(o)} {op} {s.t})"))


for _nm, _op in [("add", "+"), ("sub", "-"), ("mul", "*"), ("truediv", "/"), ("mod", "%"), ("floordiv", "//"), ("pow", "**"),
                 ("and", "&"), ("or", "|"), ("xor", "^"), ("lshift", "<<"), ("rshift", ">>"), ("matmul", "@")]:
    _f, _r = _bin(_op)
    setattr(P, f"__{_nm}__", _f)
    setattr(P, f"__r{_nm}__", _r)
for _nm, _op in [("lt", "<"), ("le", "<="), ("gt", ">"), ("ge", ">="), ("eq", "=="), ("ne", "!=")]:
    setattr(P, f"__{_nm}__", _bin(_op)[0])


def term(x):
    if isinstance(x, P):
        return x.t
    if isinstance(x, type):
        return f"<class:{x.__module__.split('.')[-1] if False else ''}{x.__qualname__}>"
    if callable(x):
        _st.depth += 1
        try:
            try:
                # one probe per positional parameter without default (a *args parameter gets one), so defaults stay observable
                K = inspect.Parameter
                n = sum(1 for q in inspect.signature(x).parameters.values()
                        if (q.kind in (K.POSITIONAL_ONLY, K.POSITIONAL_OR_KEYWORD) and q.default is K.empty) or q.kind is K.VAR_POSITIONAL)
            except (TypeError, ValueError):
                return f"<callable:{getattr(x, '__name__', '?')}>"
            # binders get a unique id while the term is built; canon() renames them by their nesting level in the finished term, so
            # that alpha-equivalent results read the same wherever (and how often) an argument expression was evaluated
            _st.uid += 1
            uid = _st.uid
            args = [P(f"$B{uid}_{i}") for i in range(n)]
            return f"\x01{uid}\\{','.join(a.t for a in args)}.{term(x(*args))}\x02"
        finally:
            _st.depth -= 1
    if isinstance(x, tuple):
        return "(" + ",".join(term(i) for i in x) + ",)"
    if isinstance(x, list):
        return "[" + ",".join(term(i) for i in x) + "]"
    if isinstance(x, dict):
        return "{" + ",".join(f"{term(k)}:{term(v)}" for k, v in x.items()) + "}"
    return f"<{type(x).__name__}:{x!r}>"


_CANON = re.compile(r"\x01(\d+)\\|\x02|\$B(\d+)_(\d+)")


def canon(s):
    out, stack, pos = [], [], 0
    for m in _CANON.finditer(s):
        out.append(s[pos:m.start()])
        pos = m.end()
        t = m.group(0)
        if t[0] == "\x01":
            stack.append(m.group(1))
            out.append("\\")
        elif t == "\x02":
            if stack:
                stack.pop()
        else:
            uid = m.group(2)
            for lvl in range(len(stack) - 1, -1, -1):
                if stack[lvl] == uid:
                    out.append(f"$b{lvl + 1}_{m.group(3)}")
                    break
            else:
                out.append(f"$b?_{m.group(3)}")
    out.append(s[pos:])
    return "".join(out)


def behaviour(f, nargs=None, max_paths=64):
    """The set of (decision path, result term) of callable ``f`` applied to fresh probes.
    Exceptions are part of the behaviour (type + message head)."""
    if nargs is None:
        # one probe per positional parameter that has no default (defaults and keyword-only parameters are part of the behaviour)
        ps = inspect.signature(f).parameters.values()
        nargs = len([p for p in ps if p.kind in (p.POSITIONAL_ONLY, p.POSITIONAL_OR_KEYWORD) and p.default is p.empty])
    out = []
    pending = [[]]
    while pending and len(out) < max_paths:
        sched = pending.pop()
        _st.schedule = list(sched)
        _st.pos = 0
        _st.trace = []
        _st.depth = 0
        _st.uid = 0
        try:
            res = canon(term(f(*[P(f"$a{i}") for i in range(nargs)])))
        except ProbeError as e:
            res = f"<probe-limit:{e}>"
        except RecursionError:
            res = "<recursion>"
        except Exception as e:
            res = f"<raises {type(e).__name__}: {str(e)[:60]}>"
        path = tuple((canon(t), d) for t, d in _st.trace)
        out.append((path, res))
        # branch on every decision taken beyond the prescribed prefix (it defaulted to True)
        for i in range(len(sched), len(path)):
            pending.append([d for _, d in path[:i]] + [False])
    return frozenset(out)


def compile_lambda(lam_ast, env=None):
    """Compile a recorded ast.Lambda and return the function, in an environment that is empty except for ``env``."""
    import ast

    from .astx import clone

    code = compile(ast.fix_missing_locations(ast.Expression(body=clone(lam_ast))), "<recorded>", "eval")
    g = {"__builtins__": {}}
    if env:
        g.update(env)
    return eval(code, g)


def describe(b, limit=3):
    return [f"{[d for _, d in p]} -> {r}"[:200] for p, r in sorted(b, key=repr)][:limit]


def selftest():
    bad = []
    f1 = lambda e: e.jets.Select(lambda j: (j.pt(1, k=2) + e.met) * 7)  # noqa
    f2 = lambda q: q.jets.Select(lambda z: (z.pt(1, k=2) + q.met) * 7)  # noqa
    f3 = lambda e: e.jets.Select(lambda j: (j.pt(1, k=3) + e.met) * 7)  # noqa
    if behaviour(f1) != behaviour(f2):
        bad.append("alpha-equivalent lambdas differ")
    if behaviour(f1) == behaviour(f3):
        bad.append("different lambdas agree")
    g1 = lambda e: e.a if e.b > 1 and e.c else e.d  # noqa
    g2 = lambda e: e.a if e.b > 1 and e.c else e.dd  # noqa
    if len(behaviour(g1)) != 3:
        bad.append(f"decision tree has {len(behaviour(g1))} paths, expected 3")
    if behaviour(g1) == behaviour(g2):
        bad.append("conditional branches not distinguished")
    h1 = lambda e: {"a": e.x, "b": (e.y, 2.5)}["a"]  # noqa
    if describe(behaviour(h1)) != ["[] -> $a0.x"]:
        bad.append(f"dict/tuple: {describe(behaviour(h1))}")
    return bad
