"""Shape-directed generator of closed, type-correct query ASTs + the in-memory data model they
run on (DESIGN.md 3.4 / 3.5).  Used by the AST-level properties (C02, C14, C17, C18, C19)."""
import ast

from .astx import C, N, attr, call, clone, lam, sub
from .refeval import Seq


# ---- data model --------------------------------------------------------------------------
class Obj:
    """Model object: numeric attributes, collection attributes, one method with defaults."""

    def __init__(self, cls, uid, **f):
        self._uid = uid
        self._cls = cls
        self.__dict__.update(f)

    def m(self, a=1, b=2):
        return self.x * a + b

    def __repr__(self):
        return f"<{self._cls}#{self._uid}>"


MODEL = {  # cls -> (numeric attrs, {collection attr: child cls})
    "Event": (["x", "y", "met"], {"jets": "Jet", "trks": "Trk"}),
    "Jet": (["x", "pt", "eta"], {"trks": "Trk"}),
    "Trk": (["x", "pt", "q"], {}),
}


def _primes(n):
    out, k = [], 2
    while len(out) < n:
        if all(k % p for p in out if p * p <= k):
            out.append(k)
        k += 1
    return out


PRIMES = _primes(400)


def _mk(cls, rnd, counter, maxn):
    nums, colls = MODEL[cls]
    f = {}
    for a in nums:
        f[a] = PRIMES[counter[0] % len(PRIMES)]
        counter[0] += 1
    uid = counter[1]
    counter[1] += 1
    for c, child in colls.items():
        f[c] = Seq(_mk(child, rnd, counter, maxn) for _ in range(rnd.randint(0, maxn)))
    return Obj(cls, uid, **f)


def dataset(rnd, nev, maxn):
    """All scalar leaves are distinct primes: a name resolved to the wrong binder changes the value."""
    c = [rnd.randint(0, 20), 1]
    return [_mk("Event", rnd, c, maxn) for _ in range(nev)]


def _fadd(a, b=0, k=0):
    return a + 2 * b + 3 * k


# plain functions a query may call by name (positional and keyword arguments)
GLOB = {"fadd": _fadd}


def datasets(rnd):
    return [[], dataset(rnd, 2, 2), dataset(rnd, 3, 3)]


# ---- shapes ------------------------------------------------------------------------------
# ("obj", cls) | ("num",) | ("bool",) | ("seq", shape) | ("tup", [shapes]) | ("lst", [shapes]) | ("dic", {k: shape})
NUM, BOOL = ("num",), ("bool",)


class GenFail(Exception):
    pass


OPERATOR_FUNCTION_KEYWORD = {"Select": "f", "SelectMany": "func", "Where": "filter"}


class Gen:
    def __init__(self, rnd, naming="distinct", method_form=0.0, called=0.15, called_kw=0.3, pack=0.3,
                 hostile_sel=0.0):
        self.r, self.naming, self.method_form = rnd, naming, method_form
        self.called, self.called_kw, self.pack, self.hostile_sel = called, called_kw, pack, hostile_sel
        self.k = 0
        self.feat = set()
        self.oob = False  # generator placed a constant index past the end of a literal
        self.all_names = set()  # every binder name used so far in the chain (cross-stage re-use after fusion)

    # -- names
    def fresh(self, env):
        self.k += 1
        if self.naming == "distinct":
            return f"v{self.k}"
        if self.naming == "identical":
            return "x"
        if self.naming == "arglike":
            # legal user names that look like the names the simplifier generates (a query that was simplified before)
            return f"arg_{self.r.randint(0, 12)}"
        pool = sorted(set(env) | self.all_names)
        if pool and self.r.random() < 0.6:
            self.feat.add("reuse-live")
            n = self.r.choice(pool)
            self.all_names.add(n)
            return n
        self.all_names.add(f"v{self.k}")
        return f"v{self.k}"

    keyword_operators = 0.04
    negative_indices = 0.15
    runtime_keys = 0.0  # (switched on by the checks that judge values / totality, not by the shape check C14)

    def op(self, name, seq, *args):
        kws = []
        if name in OPERATOR_FUNCTION_KEYWORD and len(args) == 1 and self.r.random() < self.keyword_operators:
            # Where(seq, filter=lambda ...): the function under the name ObjectStream declares for it
            self.feat.add("operator-function-by-keyword")
            kws, args = [ast.keyword(arg=OPERATOR_FUNCTION_KEYWORD[name], value=args[0])], ()
        if self.r.random() < self.method_form:
            self.feat.add("method-form")
            return ast.Call(func=attr(seq, name), args=list(args), keywords=kws)
        c = call(name, seq, *args)
        c.keywords = kws
        return c

    # -- all ways to reach a sub-shape of a variable in scope by constant projection
    def sources(self, env, want):
        out = []
        r = self.r

        def walk(e, sh, depth):
            if sh == want or (want[0] == "seq_any" and sh[0] == "seq") or (want[0] == "obj_any" and sh[0] == "obj"):
                out.append((e, sh))
            if depth > 3:
                return
            if sh[0] in ("tup", "lst"):
                for i, s in enumerate(sh[1]):
                    if r.random() < self.negative_indices:
                        # the same element counted from the end: t[-1] is a constant index too
                        self.feat.add("negative-constant-index")
                        walk(sub(e, ast.UnaryOp(op=ast.USub(), operand=C(len(sh[1]) - i))), s, depth + 1)
                    elif i > 0 and r.random() < 0.06:
                        # ... or as the negation of a negative constant (what a captured `k = -1` in `t[-k]` becomes): +i
                        self.feat.add("selector:minus-of-negative-constant")
                        walk(sub(e, ast.UnaryOp(op=ast.USub(), operand=C(-i))), s, depth + 1)
                    else:
                        walk(sub(e, C(i)), s, depth + 1)
            elif sh[0] == "dic":
                for k, s in sh[1].items():
                    if r.random() < 0.5:
                        walk(attr(e, k), s, depth + 1)
                    else:
                        walk(sub(e, C(k)), s, depth + 1)
            elif sh[0] == "obj":
                nums, colls = MODEL[sh[1]]
                if want == NUM:
                    for a in nums:
                        out.append((attr(e, a), NUM))
                for c, child in colls.items():
                    s = ("seq", ("obj", child))
                    if s == want or want[0] == "seq_any":
                        out.append((attr(e, c), s))

        for name in sorted(env):
            walk(N(name), env[name], 0)
        return out

    def expr(self, env, want, d):
        r = self.r
        if d > 0 and env and r.random() < self.called:
            return self.called_lambda(env, want, d)
        if want == NUM:
            return self.num(env, d)
        if want == BOOL:
            return self.boolean(env, d)
        if want[0] == "seq":
            return self.seq(env, want, d)
        if want[0] == "tup":
            self.feat.add("pack-tuple")
            return ast.Tuple(elts=[self.expr(env, s, d - 1) for s in want[1]], ctx=ast.Load())
        if want[0] == "lst":
            self.feat.add("pack-list")
            return ast.List(elts=[self.expr(env, s, d - 1) for s in want[1]], ctx=ast.Load())
        if want[0] == "dic":
            self.feat.add("pack-dict")
            return self.with_lookalike_keys(ast.Dict(keys=[C(k) for k in want[1]], values=[self.expr(env, s, d - 1) for s in want[1].values()]), list(want[1].values()))
        if want[0] == "obj":
            cands = [e for e, s in self.sources(env, want)]
            seqs = self.sources(env, ("seq", want))
            if seqs and (not cands or r.random() < 0.3):
                self.feat.add("First")
                return self.op("First", self.seq(env, r.choice(seqs)[1], d - 1) if d > 0 and r.random() < 0.4 else r.choice(seqs)[0])
            if cands:
                return r.choice(cands)
            raise GenFail("no object source")
        raise AssertionError(want)

    def called_lambda(self, env, want, d):
        self.feat.add("called-lambda")
        r = self.r
        if r.random() < 0.12:
            self.feat.add("called-lambda-zero-parameters")
            return ast.Call(func=lam([], self.expr(env, want, d - 1)), args=[], keywords=[])
        pool = [NUM, NUM] + [s for s in env.values() if s[0] in ("obj", "seq")]
        if r.random() < 0.1 and d >= 2:
            # a lambda MADE by a called lambda and then called - by position, by keyword, or through a keyword-only parameter:
            # (lambda m: (lambda p: .. p .. m ..))(<uses outer names>)(p=<value>), p preferably a name that is live outside
            self.feat.add("called-lambda-made-by-called-lambda")
            s1 = r.choice(pool)
            m = self.fresh(env)
            live = sorted(env)
            p = r.choice(live) if live and r.random() < 0.7 else self.fresh(env)
            while p == m:
                p = p + "_"
            inner = dict(env)
            inner[m] = s1
            inner[p] = NUM
            made = lam([p], self.expr(inner, want, d - 2))
            form = r.choice(["positional", "keyword", "keyword", "kwonly"])
            if form == "kwonly":
                made.args.kwonlyargs, made.args.kw_defaults, made.args.args = made.args.args, [None], []
            maker = ast.Call(func=lam([m], made), args=[self.expr(env, s1, d - 2)], keywords=[])
            if r.random() < 0.5:
                # ... the maker takes a second parameter and its arguments come by keyword in another order than declared, or the
                # first is left to its default: python binds by name
                m2 = m + "_2"
                while m2 in inner or m2 == p:
                    m2 += "_"
                inner2 = dict(inner)
                inner2[m2] = NUM
                made.body = ast.BinOp(left=made.body, op=ast.Add(), right=N(m2)) if want == NUM else made.body
                a1, a2 = maker.args[0], self.expr(env, NUM, d - 2)
                mk = lam([m, m2], made)
                if s1 == NUM and r.random() < 0.5:
                    mk.args.defaults = [C(11), C(13)]
                    maker = ast.Call(func=mk, args=[], keywords=[ast.keyword(arg=m2, value=a2)])
                    self.feat.add("maker-default-before-keyword")
                else:
                    maker = ast.Call(func=mk, args=[], keywords=[ast.keyword(arg=m2, value=a2), ast.keyword(arg=m, value=a1)])
                    self.feat.add("maker-keywords-out-of-order")
            val = self.expr(env, NUM, d - 2)
            self.feat.add("made-lambda-called-by-" + form)
            if form == "positional":
                return ast.Call(func=maker, args=[val], keywords=[])
            return ast.Call(func=maker, args=[], keywords=[ast.keyword(arg=p, value=val)])
        k = r.randint(1, 2)
        shapes = [r.choice(pool) for _ in range(k)]
        params, inner = [], dict(env)
        for s in shapes:
            p = self.fresh(inner)
            while p in params:
                p = p + "_"
            params.append(p)
            inner[p] = s
        body = self.expr(inner, want, d - 1)
        args = [self.expr(env, s, d - 1) for s in shapes]
        if r.random() < 0.2:
            # python's other binding rules: the last parameter has a default (evaluated OUTSIDE the lambda) and the call omits it,
            # overrides it positionally or by keyword; or the lambda takes *args / a keyword-only parameter
            self.feat.add("called-lambda-default-parameter")
            fn = lam(params, body)
            form = r.choice(["omitted", "omitted", "positional", "keyword", "vararg", "kwonly", "vararg-kwonly-required"])
            if form == "vararg-kwonly-required" and len(params) >= 2:
                # a lambda that stays a call (*rest) with a keyword-only parameter WITHOUT default next to one with a default
                fn.args.vararg = ast.arg(arg="rest_")
                fn.args.kwonlyargs, fn.args.kw_defaults = [fn.args.args[-1], ast.arg(arg="dflt_")], [None, C(1)]
                fn.args.args = fn.args.args[:-1]
                return ast.Call(func=fn, args=args[:-1] + [C(7)], keywords=[ast.keyword(arg=params[-1], value=args[-1])])
            if form == "vararg":
                fn.args.vararg = ast.arg(arg="rest_")
                return ast.Call(func=fn, args=args + [C(7)], keywords=[])
            if form == "kwonly":
                fn.args.kwonlyargs, fn.args.kw_defaults, fn.args.args = [fn.args.args[-1]], [args[-1]], fn.args.args[:-1]
                return ast.Call(func=fn, args=args[:-1], keywords=[] if r.random() < 0.5 else [ast.keyword(arg=params[-1], value=clone(args[-1]))])
            fn.args.defaults = [args[-1]]
            if form == "omitted":
                return ast.Call(func=fn, args=args[:-1], keywords=[])
            if form == "positional":
                return ast.Call(func=fn, args=args, keywords=[])
            return ast.Call(func=fn, args=args[:-1], keywords=[ast.keyword(arg=params[-1], value=clone(args[-1]))])
        if r.random() < 0.08:
            # python's call syntax in full: arguments spread from a display with *, bound from a mapping with ** - which parameter
            # gets what is only known once the display / mapping is looked into
            form = r.choice(["star-all", "star-tail", "mapping-tail", "star-one"])
            self.feat.add("called-lambda-" + form)
            tup = lambda xs: ast.Tuple(elts=list(xs), ctx=ast.Load())  # noqa
            if form == "star-all":
                return ast.Call(func=lam(params, body), args=[ast.Starred(value=tup(args), ctx=ast.Load())], keywords=[])
            if form == "star-tail":
                return ast.Call(func=lam(params, body), args=args[:-1] + [ast.Starred(value=tup(args[-1:]), ctx=ast.Load())], keywords=[])
            if form == "mapping-tail":
                return ast.Call(func=lam(params, body), args=args[:-1], keywords=[ast.keyword(arg=None, value=ast.Dict(keys=[C(params[-1])], values=[args[-1]]))])
            # as many written arguments as parameters, one of them starred and standing for exactly one value
            return ast.Call(func=lam(params, body), args=[ast.Starred(value=ast.List(elts=[args[0]], ctx=ast.Load()), ctx=ast.Load())] + args[1:], keywords=[])
        if k == 2 and r.random() < self.called_kw:
            self.feat.add("called-lambda-kw")
            return ast.Call(func=lam(params, body), args=[args[0]], keywords=[ast.keyword(arg=params[1], value=args[1])])
        return ast.Call(func=lam(params, body), args=args, keywords=[])

    def num(self, env, d):
        r = self.r
        src = [e for e, s in self.sources(env, NUM)]
        ch = r.random()
        if d <= 0 or ch < 0.30:
            if src and r.random() < 0.85:
                return r.choice(src)
            return C(r.choice([1, 2, 3, 10]))
        if ch < 0.52:
            return ast.BinOp(left=self.num(env, d - 1), op=r.choice([ast.Add(), ast.Sub(), ast.Mult()]), right=self.num(env, d - 1))
        if ch < 0.64:
            seqs = self.sources(env, ("seq_any",))
            if seqs:
                self.feat.add("Count")
                return self.op(r.choice(["Count", "Count", "len"]) if self.method_form == 0 else "Count", self.seq(env, r.choice(seqs)[1], d - 1))
        if ch < 0.68:
            # a fold with a two-parameter (not called) lambda: Aggregate(seq, 0, lambda acc, v: acc + f(v))
            seqs = self.sources(env, ("seq_any",))
            if seqs:
                e, s = r.choice(seqs)
                a = self.fresh(env)
                inner = dict(env)
                inner[a] = NUM
                v = self.fresh(inner)
                while v == a:
                    v = v + "_"
                inner[v] = s[1]
                self.feat.add("Aggregate-two-parameter-lambda")
                return call("Aggregate", e, C(0), lam([a, v], ast.BinOp(left=N(a), op=ast.Add(), right=self.num({k: sh for k, sh in inner.items() if k != a or True}, d - 1))))
        if ch < 0.74:
            return ast.IfExp(test=self.boolean(env, d - 1), body=self.num(env, d - 1), orelse=self.num(env, d - 1))
        if ch < 0.84:
            objs = [e for e, s in self.sources(env, ("obj_any",))]
            if objs:
                o = r.choice(objs)
                na = r.randint(0, 2)
                self.feat.add("method-args")
                kws = []
                args = [self.num(env, d - 1) for _ in range(na)]
                if na < 2 and r.random() < 0.3:
                    kws = [ast.keyword(arg="b", value=self.num(env, d - 1))]
                return ast.Call(func=attr(o, "m"), args=args, keywords=kws)
        if ch < 0.88:
            if r.random() < 0.5:
                self.feat.add("plain-function-keywords")
                if r.random() < 0.25:
                    # ... its first argument spread from a one-element display
                    self.feat.add("plain-function-starred-argument")
                    return ast.Call(func=N("fadd"), args=[ast.Starred(value=ast.Tuple(elts=[self.num(env, d - 1)], ctx=ast.Load()), ctx=ast.Load())], keywords=[ast.keyword(arg=r.choice(["b", "k"]), value=self.num(env, d - 1))])
                return ast.Call(func=N("fadd"), args=[self.num(env, d - 1)], keywords=[ast.keyword(arg=r.choice(["b", "k"]), value=self.num(env, d - 1))])
            return ast.UnaryOp(op=ast.USub(), operand=self.num(env, d - 1))
        if d > 1:  # pack then project immediately
            self.feat.add("literal-projection")
            n = r.randint(1, 3)
            kind = r.random()
            if kind < 0.7:
                elts = [self.num(env, d - 1) for _ in range(n)]
                if r.random() < 0.15:
                    # some neighbouring elements are spread from an inner display (*(..), *[..]): the display still has n elements
                    # for python, its written element list is shorter (or as long, with one starred element standing for one)
                    if n < 3:
                        # (room for an element in front of a spread of two)
                        elts += [self.num(env, d - 1) for _ in range(r.randint(3, 4) - n)]
                        n = len(elts)
                    if r.random() < 0.7:
                        i = r.randint(0, n - 2)
                        j = r.randint(i + 2, n)
                    else:
                        i = r.randrange(n)
                        j = r.randint(i + 1, n)
                    inner = (ast.Tuple if r.random() < 0.5 else ast.List)(elts=elts[i:j], ctx=ast.Load())
                    elts = elts[:i] + [ast.Starred(value=inner, ctx=ast.Load())] + elts[j:]
                    self.feat.add("literal-with-starred-elements")
                t = (ast.Tuple if kind < 0.4 else ast.List)(elts=elts, ctx=ast.Load())
                if len(elts) < n and r.random() < 0.5:
                    # (several elements came out of one spread: an index counted from the end lands elsewhere in the written list)
                    self.feat.add("selector:from-the-end-of-a-display-with-a-spread")
                    return sub(t, ast.UnaryOp(op=ast.USub(), operand=C(r.randint(1, n))))
                return sub(t, self.selector(env, n, d))
            keys = r.sample(["a", "b", "c", "pt"], n)
            t = self.with_lookalike_keys(ast.Dict(keys=[C(k) for k in keys], values=[self.num(env, d - 1) for _ in keys]), [NUM] * len(keys))
            how, sel = self.dict_selector(env, keys, d)
            return attr(t, sel) if how == "attr" else sub(t, sel)
        return r.choice(src) if src else C(7)

    def with_lookalike_keys(self, dnode, shapes=None):
        """now and then a decoy entry is put in front of a key: a DIFFERENT string that unicode normalisation (NFKC, what python
        applies to identifiers) maps to the same text, e.g. fullwidth 'a' - python's dict keeps them apart"""
        if self.runtime_keys and self.r.random() < self.runtime_keys:
            # ... or a key that is only known when the query runs, written AFTER a field and equal to it on this data: python
            # keeps the later value, whatever a rewrite thinks it can read off the display
            nums = [j for j, sh in enumerate(shapes or []) if sh == NUM]
            i = self.r.choice(nums) if nums and self.r.random() < 0.8 else self.r.randrange(len(dnode.keys))  # (a number can stand in for a number)
            k = dnode.keys[i].value
            if self.r.random() < 0.5:
                self.feat.add("run-time-dict-key")
                key = ast.IfExp(test=ast.Compare(left=C(1), ops=[ast.Lt()], comparators=[C(2)]), body=C(k), orelse=C("zz_"))
                dnode.keys.insert(i + 1, key)
                dnode.values.insert(i + 1, C(-998))
            else:
                # ... or a ** mapping written after the field that carries the same key
                self.feat.add("dict-unpacking-after-a-field-it-overrides")
                dnode.keys.insert(i + 1, None)
                dnode.values.insert(i + 1, ast.Dict(keys=[C(k)], values=[C(-997)]))
            return dnode
        if self.r.random() >= 0.12:
            return dnode
        i = self.r.randrange(len(dnode.keys))
        k = dnode.keys[i].value
        if not (isinstance(k, str) and k and "a" <= k[0] <= "z"):
            return dnode
        if self.r.random() < 0.4:
            # ... or the very same key written twice: python keeps the LAST value
            self.feat.add("duplicate-dict-key")
            dnode.keys.insert(i, C(k))
            dnode.values.insert(i, C(-999))
            return dnode
        self.feat.add("lookalike-dict-key")
        decoy = chr(ord(k[0]) - 0x61 + 0xFF41) + k[1:]
        dnode.keys.insert(i, C(decoy))
        dnode.values.insert(i, C(-999))
        return dnode

    def selector(self, env, n, d):
        """Index for a literal of length n; hostile selectors only when enabled (C18)."""
        r = self.r
        if r.random() >= self.hostile_sel:
            k = r.random()
            if k < 0.15:
                # counted from the end, as python writes it (-k is a UnaryOp)
                self.feat.add("selector:from-the-end")
                return ast.UnaryOp(op=ast.USub(), operand=C(r.randint(1, n)))
            if k < 0.2:
                # zero under a minus sign / a truth value as index: position 0 (or 1)
                self.feat.add("selector:minus-zero-or-bool")
                return r.choice([ast.UnaryOp(op=ast.USub(), operand=C(0)), ast.UnaryOp(op=ast.USub(), operand=C(False)), C(False)] + ([C(True)] if n > 1 else []))
            return C(r.randint(0, n - 1))
        kind = r.choice(["oob", "neg-unary", "neg-const", "variable", "slice", "called-param"])
        self.feat.add("selector:" + kind)
        if kind == "oob":
            self.oob = True
            return C(n + r.randint(0, 2))
        if kind == "neg-unary":
            return ast.UnaryOp(op=ast.USub(), operand=C(r.randint(1, n)))
        if kind == "neg-const":
            if r.random() < 0.3 and n > 1:
                self.feat.add("selector:minus-of-negative-constant")
                return ast.UnaryOp(op=ast.USub(), operand=C(-r.randint(1, n - 1)))
            return C(-r.randint(1, n))
        if kind == "variable":
            return ast.IfExp(test=self.boolean(env, d - 1), body=C(r.randint(0, n - 1)), orelse=C(r.randint(0, n - 1)))
        if kind == "slice":
            def bound(v):
                if v is None:
                    return None
                return ast.UnaryOp(op=ast.USub(), operand=C(-v)) if v < 0 else C(v)

            # (python clamps a slice bound that lies beyond either end: nothing is out of range for a slice)
            lo = r.choice([None, 0, 1, -1, -n, -(n + 2), n + 3])
            hi = r.choice([None, 1, n, -1, -(n + 1), -(n + 4), n + 5])
            return ast.Slice(lower=bound(lo), upper=bound(hi), step=None)
        # an index that becomes constant only after beta reduction
        return ast.Call(func=lam(["i_"], N("i_")), args=[C(r.randint(0, n - 1))], keywords=[])

    def dict_selector(self, env, keys, d):
        """-> (node builder) for a dict literal with the given keys; hostile kinds when enabled."""
        r = self.r
        if r.random() >= self.hostile_sel:
            k = r.choice(keys)
            return ("attr", k) if r.random() < 0.5 else ("sub", C(k))
        kind = r.choice(["absent-attr", "absent-sub", "variable-key", "int-key"])
        self.feat.add("selector:" + kind)
        if kind == "absent-attr":
            return ("attr", "zz")
        if kind == "absent-sub":
            return ("sub", C("zz"))
        if kind == "variable-key":
            return ("sub", ast.IfExp(test=self.boolean(env, d - 1), body=C(r.choice(keys)), orelse=C(r.choice(keys))))
        return ("sub", C(0))

    def boolean(self, env, d):
        r = self.r
        ch = r.random()
        if d <= 0 or ch < 0.6:
            return ast.Compare(left=self.num(env, d - 1), ops=[r.choice([ast.Lt(), ast.Gt(), ast.GtE(), ast.NotEq(), ast.Eq()])], comparators=[self.num(env, d - 1)])
        if ch < 0.85:
            return ast.BoolOp(op=r.choice([ast.And(), ast.Or()]), values=[self.boolean(env, d - 1), self.boolean(env, d - 1)])
        if ch < 0.93:
            return ast.UnaryOp(op=ast.Not(), operand=self.boolean(env, d - 1))
        return ast.IfExp(test=self.boolean(env, d - 1), body=self.boolean(env, d - 1), orelse=self.boolean(env, d - 1))

    def seq(self, env, want, d):
        r = self.r
        elem = want[1]
        direct = [e for e, s in self.sources(env, want)]
        if d <= 0 or (direct and r.random() < 0.35):
            if direct:
                return r.choice(direct)
        seqs = self.sources(env, ("seq_any",))
        if not seqs:
            if direct:
                return r.choice(direct)
            raise GenFail("no sequence source")
        ch = r.random()
        same = [(e, s) for e, s in seqs if s == want]
        if same and ch < 0.3:
            e, s = r.choice(same)
            v = self.fresh(env)
            inner = dict(env)
            inner[v] = s[1]
            self.feat.add("nested-Where")
            return self.op("Where", self.seq(env, s, d - 1) if r.random() < 0.5 else e, lam([v], self.boolean(inner, d - 1)))
        if ch < 0.42 and d > 1:
            # nested SelectMany producing `want`
            outer = [(e, s) for e, s in seqs if s[1][0] == "obj"]
            if outer:
                e, s = r.choice(outer)
                v = self.fresh(env)
                inner = dict(env)
                inner[v] = s[1]
                try:
                    body = self.seq(inner, want, d - 1)
                    self.feat.add("nested-SelectMany")
                    return self.op("SelectMany", e, lam([v], body))
                except GenFail:
                    pass
        e, s = r.choice(seqs)
        v = self.fresh(env)
        inner = dict(env)
        inner[v] = s[1]
        try:
            self.feat.add("nested-Select")
            src = self.seq(env, s, d - 1) if r.random() < 0.3 and d > 1 else e
            return self.op("Select", src, lam([v], self.expr(inner, elem, d - 1)))
        except GenFail:
            if direct:
                return r.choice(direct)
            raise

    def rand_shape(self, env, d, pack=None):
        r = self.r
        pack = self.pack if pack is None else pack
        if d > 0 and r.random() < pack:
            k = r.random()
            if k < 0.4:
                return ("tup", [self.rand_shape(env, d - 1) for _ in range(r.randint(1, 3))])
            if k < 0.55:
                return ("lst", [self.rand_shape(env, d - 1) for _ in range(r.randint(1, 3))])
            return ("dic", {k: self.rand_shape(env, d - 1) for k in r.sample(["a", "b", "c"], r.randint(1, 3))})
        objs = [s for e, s in self.sources(env, ("obj_any",))]
        seqs = [s for e, s in self.sources(env, ("seq_any",))]
        ch = r.random()
        if ch < 0.45 or not (objs or seqs):
            return NUM
        if ch < 0.7 and objs:
            return r.choice(objs)
        if seqs:
            return r.choice(seqs)
        return NUM

    def stage_function(self, L):
        """the function argument of a stage: nearly always the lambda itself; now and then a lambda with a positional-only
        parameter / a parameter default, or an expression that only EVALUATES to the lambda (projection of a literal, variable)"""
        r = self.r
        if not self.odd_stage_functions or r.random() >= 0.08:
            return L
        k = r.choice(["posonly", "default", "tuple[0]", "tuple[-1]", "list[1]", "dict-key", "conditional"])
        self.feat.add("stage-function:" + k)
        decoy = lam(["zz_"], N("zz_"))
        if k == "posonly":
            L.args.posonlyargs, L.args.args = L.args.args, []
            return L
        if k == "default":
            L.args.args.append(ast.arg(arg="unused_"))
            L.args.defaults = [C(2)]
            return L
        if k == "tuple[0]":
            return sub(ast.Tuple(elts=[L, decoy], ctx=ast.Load()), C(0))
        if k == "tuple[-1]":
            return sub(ast.Tuple(elts=[decoy, L], ctx=ast.Load()), C(-1))
        if k == "list[1]":
            return sub(ast.List(elts=[decoy, L], ctx=ast.Load()), ast.UnaryOp(op=ast.UAdd(), operand=C(1)))
        if k == "dict-key":
            return sub(ast.Dict(keys=[C("f"), C("g")], values=[L, decoy]), C("f"))
        return ast.IfExp(test=ast.Compare(left=C(1), ops=[ast.Lt()], comparators=[C(2)]), body=L, orelse=decoy)

    odd_stage_functions = False

    def sprinkle_positional_only(self, q, p=0.06):
        """some of the lambdas that are not called on the spot get positional-only parameters (`lambda j, /: ...`)"""
        called = {id(n.func) for n in ast.walk(q) if isinstance(n, ast.Call)}
        for n in ast.walk(q):
            if isinstance(n, ast.Lambda) and id(n) not in called and n.args.args and not n.args.posonlyargs and not n.args.defaults and self.r.random() < p:
                n.args.posonlyargs, n.args.args = n.args.args, []
                self.feat.add("positional-only-parameters")
        return q

    def chain(self, nstages, d, final_scalar=False):
        """-> (query ast, [stage kinds]).  A dataset followed by up to ``nstages`` operator stages."""
        cur = call("EventDataset")
        shape = ("obj", "Event")
        stages = []
        for i in range(nstages):
            v = self.fresh({})
            env = {v: shape}
            kind = self.r.choice(["Select", "Select", "Where", "SelectMany"])
            last = i == nstages - 1
            try:
                if kind == "Where":
                    cur = self.op("Where", cur, self.stage_function(lam([v], self.boolean(env, d))))
                elif kind == "SelectMany":
                    seqs = self.sources(env, ("seq_any",))
                    if not seqs:
                        kind = "Select"
                    else:
                        tgt = self.r.choice(seqs)[1]
                        cur = self.op("SelectMany", cur, self.stage_function(lam([v], self.seq(env, tgt, d))))
                        shape = tgt[1]
                if kind == "Select" and self.odd_stage_functions and self.r.random() < 0.06:
                    # a stage function that LOOKS like the identity - its body is a bare parameter - but returns a defaulted
                    # second parameter, the item goes to the positional-only first one
                    self.feat.add("stage-function-returning-its-default")
                    fn = lam(["d_"], N("d_"))
                    fn.args.posonlyargs, fn.args.defaults = [ast.arg(arg=v)], [C(self.r.randint(2, 9))]
                    cur = self.op("Select", cur, fn)
                    shape = NUM
                    stages.append(kind)
                    continue
                if kind == "Select":
                    tgt = NUM if (last and final_scalar) else self.rand_shape(env, 2)
                    cur = self.op("Select", cur, self.stage_function(lam([v], self.expr(env, tgt, d))))
                    shape = tgt
            except GenFail:
                continue
            stages.append(kind)
        self.final_shape = shape
        return cur, stages
