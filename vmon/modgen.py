"""Write generated python source to a real file and import it (so inspect/linecache see it)."""
import importlib.util
import itertools
import os
import sys
import tempfile

_counter = itertools.count()
_dir = [None]


def workdir():
    if _dir[0] is None:
        base = os.environ.get("VERIF_WORK") or os.path.join(os.path.dirname(os.path.dirname(os.path.abspath(__file__))), ".work")
        os.makedirs(base, exist_ok=True)
        _dir[0] = tempfile.mkdtemp(prefix=f"mods{os.getpid()}_", dir=base)
    return _dir[0]


DEFER_CLEANUP = [False]  # set while several threads share the work directory (vmon.core removes it at the end)


def cleanup(force=False):
    import shutil

    if DEFER_CLEANUP[0] and not force:
        return
    if _dir[0] is not None:
        shutil.rmtree(_dir[0], ignore_errors=True)
        _dir[0] = None


def declared_encoding(src):
    """the encoding a source text declares for itself in its first line (# -*- coding: X -*-), utf-8 otherwise"""
    import re

    m = re.match(r"#.*?coding[:=]\s*([-\w.]+)", src.split("\n", 1)[0])
    return m.group(1) if m else "utf-8"


def load(src, prefix="vgen"):
    """-> module imported from a freshly written file containing ``src`` (written in the encoding its first line declares)."""
    name = f"{prefix}_{os.getpid()}_{next(_counter)}"
    path = os.path.join(workdir(), name + ".py")
    with open(path, "w", encoding=declared_encoding(src)) as f:
        f.write(src)
    spec = importlib.util.spec_from_file_location(name, path)
    m = importlib.util.module_from_spec(spec)
    sys.modules[name] = m
    spec.loader.exec_module(m)
    return m


def rewrite(m, src):
    """History: the file module ``m`` came from is edited on disk (later modification time) and loaded again in this process."""
    path = m.__file__
    st = os.stat(path)
    with open(path, "w", encoding=declared_encoding(src)) as f:
        f.write(src)
    os.utime(path, (st.st_atime + 2, st.st_mtime + 2))
    m.__spec__.loader.exec_module(m)  # what importlib.reload does for a module found on the path
    return m


def unload(m):
    sys.modules.pop(m.__name__, None)
    try:
        os.unlink(m.__file__)
    except OSError:
        pass


DS_HEADER = '''from func_adl import EventDataset
class DS(EventDataset):
    def __init__(self, *a, **k):
        super().__init__(*a, **k)
        self.calls = []
    async def execute_result_async(self, a, title=None):
        self.calls.append((a, title))
        return a
'''
